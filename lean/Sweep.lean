import Mathlib.Data.List.Basic
import Mathlib.Tactic

/-!
Sweep lemma (L3), used by C05, C07 and C14.

The analyses turn every interval `[lo, hi)` with weight `w` into two rows of a marker table, `(lo, +w)` and `(hi, -w)`, sort
the table by time and take the running sum of the second column.  (That the tables of /repo hold exactly these rows, are
sorted, and that the running column is the prefix sum is what the z3 obligations S1-S3 establish from the AST.)

`sweep`: after the first `k` rows of ANY arrangement of the marker table in which those `k` rows are exactly the rows with
time `≤ t` (for a table sorted by time: every `t` from the time of row `k-1` up to, not including, the time of row `k`),
the running sum equals the total weight of the intervals that cover `t`.
-/

/-- the marker rows of a list of weighted intervals `(lo, hi, w)` -/
def markers (iv : List (ℤ × ℤ × ℤ)) : List (ℤ × ℤ) :=
  iv.flatMap (fun i => [(i.1, i.2.2), (i.2.1, -i.2.2)])

/-- total weight of the intervals covering `t` (half-open) -/
def covering (t : ℤ) (iv : List (ℤ × ℤ × ℤ)) : ℤ :=
  (iv.map (fun i => if i.1 ≤ t ∧ t < i.2.1 then i.2.2 else 0)).sum

/-- sum of the deltas of the rows with time `≤ t` -/
def upto (t : ℤ) (ms : List (ℤ × ℤ)) : ℤ :=
  (ms.map (fun m => if m.1 ≤ t then m.2 else 0)).sum

theorem upto_append (t : ℤ) (a b : List (ℤ × ℤ)) : upto t (a ++ b) = upto t a + upto t b := by
  simp [upto, List.map_append, List.sum_append]

theorem upto_perm (t : ℤ) {a b : List (ℤ × ℤ)} (h : a.Perm b) : upto t a = upto t b := by
  unfold upto
  exact (h.map _).sum_eq

/-- order-free core: deltas up to `t` add up to the weight covering `t` -/
theorem upto_markers (t : ℤ) : ∀ (iv : List (ℤ × ℤ × ℤ)), (∀ i ∈ iv, i.1 ≤ i.2.1) → upto t (markers iv) = covering t iv := by
  intro iv
  induction iv with
  | nil => intro _; simp [upto, markers, covering]
  | cons i iv ih =>
    intro h
    have hi : i.1 ≤ i.2.1 := h i (List.mem_cons_self)
    have hrest : ∀ j ∈ iv, j.1 ≤ j.2.1 := fun j hj => h j (List.mem_cons_of_mem _ hj)
    have hm : markers (i :: iv) = [(i.1, i.2.2), (i.2.1, -i.2.2)] ++ markers iv := by
      simp [markers, List.flatMap_cons]
    rw [hm, upto_append, ih hrest]
    simp only [covering, List.map_cons, List.sum_cons]
    have : upto t [(i.1, i.2.2), (i.2.1, -i.2.2)] = (if i.1 ≤ t ∧ t < i.2.1 then i.2.2 else 0) := by
      simp only [upto, List.map_cons, List.map_nil, List.sum_cons, List.sum_nil]
      split_ifs <;> omega
    rw [this]

/-- the first `k` rows are exactly the rows with time `≤ t`  ⇒  their running sum is the sum of all deltas up to `t` -/
theorem prefix_sum_eq_upto (tab : List (ℤ × ℤ)) (k : ℕ) (t : ℤ)
    (h1 : ∀ m ∈ tab.take k, m.1 ≤ t) (h2 : ∀ m ∈ tab.drop k, t < m.1) :
    ((tab.take k).map Prod.snd).sum = upto t tab := by
  conv_rhs => rw [← List.take_append_drop k tab]
  rw [upto_append]
  have ha : upto t (tab.take k) = ((tab.take k).map Prod.snd).sum := by
    unfold upto
    congr 1
    apply List.map_congr_left
    intro m hm
    simp [h1 m hm]
  have hb : upto t (tab.drop k) = 0 := by
    unfold upto
    apply List.sum_eq_zero
    intro x hx
    obtain ⟨m, hm, rfl⟩ := List.mem_map.1 hx
    have := h2 m hm
    simp [not_le.2 this]
  rw [ha, hb, add_zero]

/-- L3: the running value of the swept marker table is the weight covering the current instant -/
theorem sweep (iv : List (ℤ × ℤ × ℤ)) (hiv : ∀ i ∈ iv, i.1 ≤ i.2.1) (tab : List (ℤ × ℤ)) (hperm : tab.Perm (markers iv))
    (k : ℕ) (t : ℤ) (h1 : ∀ m ∈ tab.take k, m.1 ≤ t) (h2 : ∀ m ∈ tab.drop k, t < m.1) :
    ((tab.take k).map Prod.snd).sum = covering t iv := by
  rw [prefix_sum_eq_upto tab k t h1 h2, upto_perm t hperm, upto_markers t iv hiv]
