import Mathlib.Data.List.Basic
import Mathlib.Order.Basic
import Mathlib.Tactic

/-!
Fold meta-lemmas used by the prefix-fold induction (hv/scanvc.py): a ghost accumulator updated row by row equals the
finite disjunction / maximum / sum over the rows processed so far.
-/

/-- accumulating with `∨` over a list = existence of a witness (plus the initial value) -/
theorem foldl_or_iff {α : Type} (P : α → Prop) : ∀ (l : List α) (init : Prop),
    (l.foldl (fun acc x => acc ∨ P x) init) ↔ (init ∨ ∃ x ∈ l, P x) := by
  intro l
  induction l with
  | nil => intro init; simp
  | cons a l ih =>
    intro init
    simp only [List.foldl_cons, List.mem_cons]
    rw [ih]
    constructor
    · rintro ((h | h) | ⟨x, hx, hp⟩)
      · exact Or.inl h
      · exact Or.inr ⟨a, Or.inl rfl, h⟩
      · exact Or.inr ⟨x, Or.inr hx, hp⟩
    · rintro (h | ⟨x, hx | hx, hp⟩)
      · exact Or.inl (Or.inl h)
      · subst hx; exact Or.inl (Or.inr hp)
      · exact Or.inr ⟨x, hx, hp⟩

/-- accumulating with `max` over a list of integers bounds every element and the initial value -/
theorem foldl_max_ge (l : List ℤ) : ∀ (init : ℤ), init ≤ l.foldl max init ∧ ∀ x ∈ l, x ≤ l.foldl max init := by
  induction l with
  | nil => intro init; simp
  | cons a l ih =>
    intro init
    simp only [List.foldl_cons, List.mem_cons]
    obtain ⟨h1, h2⟩ := ih (max init a)
    refine ⟨le_trans (le_max_left _ _) h1, ?_⟩
    rintro x (hx | hx)
    · subst hx; exact le_trans (le_max_right _ _) h1
    · exact h2 x hx

/-- the running maximum is attained: it is the initial value or one of the elements -/
theorem foldl_max_mem (l : List ℤ) : ∀ (init : ℤ), l.foldl max init = init ∨ l.foldl max init ∈ l := by
  induction l with
  | nil => intro init; simp
  | cons a l ih =>
    intro init
    simp only [List.foldl_cons, List.mem_cons]
    rcases ih (max init a) with h | h
    · rcases max_choice init a with hm | hm
      · left; rw [h, hm]
      · right; left; rw [h, hm]
    · right; right; exact h

/-- accumulating with `+` is the list sum (the telescoping / partition arguments of the contracts are sums of per-row terms) -/
theorem foldl_add_eq_sum (l : List ℤ) : ∀ (init : ℤ), l.foldl (· + ·) init = init + l.sum := by
  induction l with
  | nil => intro init; simp
  | cons a l ih => intro init; simp [List.foldl_cons, ih, add_assoc]

/-- sums split over a two-class partition of the rows (used for "the classes add up to the total") -/
theorem sum_filter_add_sum_filter_not (l : List ℤ) (p : ℤ → Bool) :
    (l.filter p).sum + (l.filter (fun x => !p x)).sum = l.sum := by
  induction l with
  | nil => simp
  | cons a l ih =>
    by_cases h : p a
    · simp [List.filter, h, ← ih]; ring
    · simp [List.filter, h, ← ih]; ring
