import Mathlib.Data.List.Basic
import Mathlib.Tactic

/-!
Bracket lemma, machine half (L6-M), used by C03.

Both call-stack builders run the same loop over the sorted endpoint sequence: an opening endpoint of event `e` records the
current stack top as the parent of `e` and pushes `e`; a closing endpoint pops.  (That the loop bodies of /repo do exactly this
is what the obligations `C03.tcs.loop.*` / `C03.cs.loop.*` establish from the AST.)

`Par top w ps` is the specification "parents by nesting": `w` is a well-bracketed word, and `ps` lists, in order of opening,
every event of `w` with the event whose bracket pair directly encloses it (`top` for the outermost pairs).  The theorem says
that the loop, started with `top` on the stack, records exactly `ps` and leaves the stack as it found it.

The geometric half (L6-G: the order obligations of the comparators make the sorted endpoint sequence of a properly nested
family well-bracketed, with bracket nesting = span containment, file order for identical spans) is NOT proved here; it is
validated by the exhaustive bounded stage of C03 on the real builders.
-/

inductive Ep where
  | op : ℕ → Ep
  | cl : ℕ → Ep

/-- parents by nesting (relational specification over well-bracketed words) -/
inductive Par : Option ℕ → List Ep → List (ℕ × Option ℕ) → Prop where
  | nil (top : Option ℕ) : Par top [] []
  | wrap (top : Option ℕ) (e : ℕ) (u v : List Ep) (pu pv : List (ℕ × Option ℕ)) :
      Par (some e) u pu → Par top v pv → Par top (Ep.op e :: (u ++ Ep.cl e :: v)) ((e, top) :: (pu ++ pv))

/-- one iteration of the builders' loop: state = (stack with the top first, parents recorded so far) -/
def step (s : List ℕ × List (ℕ × Option ℕ)) : Ep → List ℕ × List (ℕ × Option ℕ)
  | Ep.op e => (e :: s.1, s.2 ++ [(e, s.1.head?)])
  | Ep.cl _ => (s.1.tail, s.2)

def run (w : List Ep) (s : List ℕ × List (ℕ × Option ℕ)) : List ℕ × List (ℕ × Option ℕ) :=
  w.foldl step s

theorem run_append (u v : List Ep) (s : List ℕ × List (ℕ × Option ℕ)) : run (u ++ v) s = run v (run u s) := by
  simp [run, List.foldl_append]

/-- the loop computes parents by nesting and restores the stack -/
theorem run_par {top : Option ℕ} {w : List Ep} {ps : List (ℕ × Option ℕ)} (h : Par top w ps) :
    ∀ (S : List ℕ) (acc : List (ℕ × Option ℕ)), S.head? = top → run w (S, acc) = (S, acc ++ ps) := by
  induction h with
  | nil top => intro S acc _; simp [run]
  | wrap top e u v pu pv _ _ ihu ihv =>
    intro S acc hS
    have h1 : run (Ep.op e :: (u ++ Ep.cl e :: v)) (S, acc) = run (u ++ Ep.cl e :: v) (e :: S, acc ++ [(e, S.head?)]) := by
      simp [run, step]
    rw [h1, run_append, ihu (e :: S) (acc ++ [(e, S.head?)]) (by simp)]
    have h2 : run (Ep.cl e :: v) (e :: S, acc ++ [(e, S.head?)] ++ pu) = run v (S, acc ++ [(e, S.head?)] ++ pu) := by
      simp [run, step]
    rw [h2, ihv S (acc ++ [(e, S.head?)] ++ pu) hS, hS]
    simp

/-- corollary for a whole thread: started on the thread root, every event gets its directly enclosing event (or the root) -/
theorem run_thread {root : ℕ} {w : List Ep} {ps : List (ℕ × Option ℕ)} (h : Par (some root) w ps) :
    run w ([root], []) = ([root], ps) := by
  have := run_par h [root] [] (by simp)
  simpa using this

/-!
Geometric half (L6-G).  `lt` is the order in which the endpoints are processed (the sorted array).  The hypotheses are
the facts the comparator obligations of C03 establish for a properly nested family (`cont e f`: the span of `e` contains
that of `f`, identical spans in file order; `bef e f`: `e` ends no later than `f` begins):
  a1  an event opens before it closes,
  a2  a container opens before and closes after what it contains,
  a3  an event that is before another closes before the other opens,
  lam two different events are nested or one is before the other (properly nested family).
`ParG` is `Par` with the geometric meaning attached: everything inside the bracket pair of `e` is contained in `e`,
everything after it begins after `e` ended.  The theorem: every sorted endpoint list in which each event has both its
endpoints has such a derivation — so (by `run_par`) the loop gives every event the event directly enclosing it.
-/

instance : DecidableEq Ep := by
  intro a b
  cases a <;> cases b <;> simp <;> exact inferInstance

structure EpOrder (lt : Ep → Ep → Prop) (cont bef : ℕ → ℕ → Prop) : Prop where
  irrefl : ∀ p, ¬ lt p p
  trans : ∀ p q r, lt p q → lt q r → lt p r
  a1 : ∀ e, lt (Ep.op e) (Ep.cl e)
  a2 : ∀ e f, cont e f → lt (Ep.op e) (Ep.op f) ∧ lt (Ep.cl f) (Ep.cl e)
  a3 : ∀ e f, bef e f → lt (Ep.cl e) (Ep.op f)
  lam : ∀ e f, e ≠ f → cont e f ∨ cont f e ∨ bef e f ∨ bef f e

inductive ParG (cont bef : ℕ → ℕ → Prop) : Option ℕ → List Ep → List (ℕ × Option ℕ) → Prop where
  | nil (top : Option ℕ) : ParG cont bef top [] []
  | wrap (top : Option ℕ) (e : ℕ) (u v : List Ep) (pu pv : List (ℕ × Option ℕ)) :
      (∀ f, Ep.op f ∈ u → cont e f) → (∀ f, Ep.op f ∈ v → bef e f) →
      ParG cont bef (some e) u pu → ParG cont bef top v pv →
      ParG cont bef top (Ep.op e :: (u ++ Ep.cl e :: v)) ((e, top) :: (pu ++ pv))

theorem ParG.toPar {cont bef : ℕ → ℕ → Prop} {top : Option ℕ} {w : List Ep} {ps : List (ℕ × Option ℕ)}
    (h : ParG cont bef top w ps) : Par top w ps := by
  induction h with
  | nil top => exact Par.nil top
  | wrap top e u v pu pv _ _ _ _ ihu ihv => exact Par.wrap top e u v pu pv ihu ihv

def Good (lt : Ep → Ep → Prop) (w : List Ep) : Prop :=
  w.Pairwise lt ∧ ∀ e, Ep.op e ∈ w ↔ Ep.cl e ∈ w

theorem sorted_is_nested {lt : Ep → Ep → Prop} {cont bef : ℕ → ℕ → Prop} (O : EpOrder lt cont bef) :
    ∀ (n : ℕ) (w : List Ep), w.length ≤ n → Good lt w → ∀ top, ∃ ps, ParG cont bef top w ps := by
  have asym : ∀ p q, lt p q → lt q p → False := fun p q h1 h2 => O.irrefl p (O.trans p q p h1 h2)
  intro n
  induction n with
  | zero =>
    intro w hw _ top
    have : w = [] := List.length_eq_zero_iff.mp (Nat.le_zero.mp hw)
    subst this
    exact ⟨[], ParG.nil top⟩
  | succ n ih =>
    intro w hw hg top
    obtain ⟨hpw, hiff⟩ := hg
    cases w with
    | nil => exact ⟨[], ParG.nil top⟩
    | cons x rest =>
      rw [List.pairwise_cons] at hpw
      obtain ⟨hx, hprest⟩ := hpw
      cases x with
      | cl f =>
        exfalso
        have hmem : Ep.op f ∈ Ep.cl f :: rest := (hiff f).2 (List.mem_cons_self)
        have hin : Ep.op f ∈ rest := by
          rcases List.mem_cons.1 hmem with h | h
          · cases h
          · exact h
        exact asym _ _ (hx _ hin) (O.a1 f)
      | op e =>
        have hmem : Ep.cl e ∈ Ep.op e :: rest := (hiff e).1 (List.mem_cons_self)
        have hin : Ep.cl e ∈ rest := by
          rcases List.mem_cons.1 hmem with h | h
          · cases h
          · exact h
        obtain ⟨u, v, rfl⟩ := List.append_of_mem hin
        rw [List.pairwise_append] at hprest
        obtain ⟨hpu, hpcv, huv⟩ := hprest
        rw [List.pairwise_cons] at hpcv
        obtain ⟨hcv, hpv⟩ := hpcv
        -- order facts
        have h_e_u : ∀ a ∈ u, lt (Ep.op e) a := fun a ha => hx a (List.mem_append_left _ ha)
        have h_u_c : ∀ a ∈ u, lt a (Ep.cl e) := fun a ha => huv a ha (Ep.cl e) (List.mem_cons_self)
        have h_u_v : ∀ a ∈ u, ∀ b ∈ v, lt a b := fun a ha b hb => huv a ha b (List.mem_cons_of_mem _ hb)
        have h_c_v : ∀ b ∈ v, lt (Ep.cl e) b := hcv
        -- membership in the whole word
        have hsplit : ∀ y, y ∈ Ep.op e :: (u ++ Ep.cl e :: v) ↔ (y = Ep.op e ∨ y ∈ u ∨ y = Ep.cl e ∨ y ∈ v) := by
          intro y
          simp [List.mem_cons, List.mem_append]
        have hne_u : ∀ f, Ep.op f ∈ u → f ≠ e := by
          intro f hf hfe
          subst hfe
          exact O.irrefl _ (h_e_u _ hf)
        have hne_cu : ∀ f, Ep.cl f ∈ u → f ≠ e := by
          intro f hf hfe
          subst hfe
          exact O.irrefl _ (h_u_c _ hf)
        have hne_cv : ∀ f, Ep.cl f ∈ v → f ≠ e := by
          intro f hf hfe
          subst hfe
          exact O.irrefl _ (h_c_v _ hf)
        -- inside the pair of e: contained events, with both endpoints
        have hU : ∀ f, Ep.op f ∈ u → (cont e f ∧ Ep.cl f ∈ u) := by
          intro f hf
          have hfe := hne_u f hf
          have hc : cont e f := by
            rcases O.lam e f (Ne.symm hfe) with h | h | h | h
            · exact h
            · exact absurd (O.a2 f e h).1 (fun h' => asym _ _ h' (h_e_u _ hf))
            · exact absurd (O.a3 e f h) (fun h' => asym _ _ h' (h_u_c _ hf))
            · exact absurd (O.trans _ _ _ (O.a1 f) (O.a3 f e h)) (fun h' => asym _ _ h' (h_e_u _ hf))
          refine ⟨hc, ?_⟩
          have hcl : Ep.cl f ∈ Ep.op e :: (u ++ Ep.cl e :: v) := (hiff f).1 ((hsplit _).2 (Or.inr (Or.inl hf)))
          rcases (hsplit _).1 hcl with h | h | h | h
          · cases h
          · exact h
          · exact absurd (Ep.cl.inj h) hfe
          · exact absurd (O.a2 e f hc).2 (fun h' => asym _ _ h' (h_c_v _ h))
        have hU' : ∀ f, Ep.cl f ∈ u → Ep.op f ∈ u := by
          intro f hf
          have hfe := hne_cu f hf
          have hop : Ep.op f ∈ Ep.op e :: (u ++ Ep.cl e :: v) := (hiff f).2 ((hsplit _).2 (Or.inr (Or.inl hf)))
          rcases (hsplit _).1 hop with h | h | h | h
          · exact absurd (Ep.op.inj h) hfe
          · exact h
          · cases h
          · exact absurd (O.trans _ _ _ (O.a1 f) (h_u_c _ hf)) (fun h' => asym _ _ h' (h_c_v _ h))
        have hV : ∀ f, Ep.op f ∈ v → (bef e f ∧ Ep.cl f ∈ v) := by
          intro f hf
          have hfe : f ≠ e := by
            intro hfe
            subst hfe
            exact asym _ _ (h_c_v _ hf) (O.a1 f)
          have hb : bef e f := by
            rcases O.lam e f (Ne.symm hfe) with h | h | h | h
            · exact absurd (O.trans _ _ _ (O.a1 f) (O.a2 e f h).2) (fun h' => asym _ _ h' (h_c_v _ hf))
            · exact absurd (O.trans _ _ _ (O.a2 f e h).1 (O.a1 e)) (fun h' => asym _ _ h' (h_c_v _ hf))
            · exact h
            · exact absurd (O.trans _ _ _ (O.a1 f) (O.trans _ _ _ (O.a3 f e h) (O.a1 e))) (fun h' => asym _ _ h' (h_c_v _ hf))
          refine ⟨hb, ?_⟩
          have hcl : Ep.cl f ∈ Ep.op e :: (u ++ Ep.cl e :: v) := (hiff f).1 ((hsplit _).2 (Or.inr (Or.inr (Or.inr hf))))
          rcases (hsplit _).1 hcl with h | h | h | h
          · cases h
          · exact absurd (O.trans _ _ _ (h_u_c _ h) (h_c_v _ hf)) (fun h' => asym _ _ h' (O.a1 f))
          · exact absurd (Ep.cl.inj h) hfe
          · exact h
        have hV' : ∀ f, Ep.cl f ∈ v → Ep.op f ∈ v := by
          intro f hf
          have hfe := hne_cv f hf
          have hop : Ep.op f ∈ Ep.op e :: (u ++ Ep.cl e :: v) := (hiff f).2 ((hsplit _).2 (Or.inr (Or.inr (Or.inr hf))))
          rcases (hsplit _).1 hop with h | h | h | h
          · exact absurd (Ep.op.inj h) hfe
          · exact absurd (h_u_v _ ((hU f h).2) _ hf) (O.irrefl _)
          · cases h
          · exact h
        have hgu : Good lt u := ⟨hpu, fun f => ⟨fun h => (hU f h).2, hU' f⟩⟩
        have hgv : Good lt v := ⟨hpv, fun f => ⟨fun h => (hV f h).2, hV' f⟩⟩
        have hlen : (u ++ Ep.cl e :: v).length ≤ n := by
          simp only [List.length_cons] at hw
          omega
        have hlu : u.length ≤ n := by
          simp only [List.length_append, List.length_cons] at hlen
          omega
        have hlv : v.length ≤ n := by
          simp only [List.length_append, List.length_cons] at hlen
          omega
        obtain ⟨pu, hpu'⟩ := ih u hlu hgu (some e)
        obtain ⟨pv, hpv'⟩ := ih v hlv hgv top
        exact ⟨(e, top) :: (pu ++ pv), ParG.wrap top e u v pu pv (fun f hf => (hU f hf).1) (fun f hf => (hV f hf).1) hpu' hpv'⟩

/-- L6: for a sorted endpoint list of a properly nested family, the builders' loop records for every event the event whose
bracket pair directly encloses it, where "inside the pair of `e`" means contained in `e` and "after the pair" means after `e`. -/
theorem loop_gives_nesting_parents {lt : Ep → Ep → Prop} {cont bef : ℕ → ℕ → Prop} (O : EpOrder lt cont bef)
    (w : List Ep) (hg : Good lt w) (root : ℕ) :
    ∃ ps, ParG cont bef (some root) w ps ∧ run w ([root], []) = ([root], ps) := by
  obtain ⟨ps, hps⟩ := sorted_is_nested O w.length w le_rfl hg (some root)
  exact ⟨ps, hps, run_thread hps.toPar⟩
