import Mathlib.MeasureTheory.Measure.Lebesgue.Basic
open MeasureTheory Set

def U : List (ℝ × ℝ) → Set ℝ
  | [] => ∅
  | p :: l => Ico p.1 p.2 ∪ U l

def total : List (ℝ × ℝ) → ℝ
  | [] => 0
  | p :: l => (p.2 - p.1) + total l

def Sepd : List (ℝ × ℝ) → Prop
  | [] => True
  | [p] => p.1 ≤ p.2
  | p :: q :: l => p.1 ≤ p.2 ∧ p.2 ≤ q.1 ∧ Sepd (q :: l)

theorem Sepd.head_le {p : ℝ × ℝ} {l : List (ℝ × ℝ)} (h : Sepd (p :: l)) : p.1 ≤ p.2 := by
  cases l with
  | nil => exact h
  | cons q l => exact h.1

theorem Sepd.tail {p : ℝ × ℝ} {l : List (ℝ × ℝ)} (h : Sepd (p :: l)) : Sepd l := by
  cases l with
  | nil => trivial
  | cons q l => exact h.2.2

theorem Sepd.lower : ∀ {l : List (ℝ × ℝ)} {p : ℝ × ℝ}, Sepd (p :: l) → ∀ x ∈ U l, p.2 ≤ x := by
  intro l
  induction l with
  | nil => intro p _ x hx; simp [U] at hx
  | cons q l ih =>
    intro p h x hx
    simp only [U, mem_union, mem_Ico] at hx
    rcases hx with hx | hx
    · exact le_trans h.2.1 hx.1
    · have h2 : Sepd (q :: l) := h.2.2
      have := ih h2 x hx
      exact le_trans (le_trans h.2.1 h2.head_le) this

theorem total_nonneg : ∀ {l : List (ℝ × ℝ)}, Sepd l → 0 ≤ total l := by
  intro l
  induction l with
  | nil => intro _; simp [total]
  | cons p l ih =>
    intro h
    have := ih h.tail
    have := h.head_le
    simp only [total]; linarith

theorem measurable_U : ∀ l, MeasurableSet (U l) := by
  intro l
  induction l with
  | nil => simp [U]
  | cons p l ih => exact measurableSet_Ico.union ih

theorem L1 : ∀ {l : List (ℝ × ℝ)}, Sepd l → volume (U l) = ENNReal.ofReal (total l) := by
  intro l
  induction l with
  | nil => intro _; simp [U, total]
  | cons p l ih =>
    intro h
    have hd : Disjoint (Ico p.1 p.2) (U l) := by
      rw [Set.disjoint_left]
      intro x hx hxU
      have := h.lower x hxU
      exact absurd hx.2 (not_lt.mpr this)
    simp only [U, total]
    rw [measure_union hd (measurable_U l), Real.volume_Ico, ih h.tail,
        ← ENNReal.ofReal_add (sub_nonneg.mpr h.head_le) (total_nonneg h.tail)]

/-- L2a: monotonicity.  If every point covered by `l₁` is covered by `l₂` then the summed length of `l₁` is at most that of `l₂`. -/
theorem L2_mono {l₁ l₂ : List (ℝ × ℝ)} (h₁ : Sepd l₁) (h₂ : Sepd l₂) (hsub : U l₁ ⊆ U l₂) : total l₁ ≤ total l₂ := by
  have hv : volume (U l₁) ≤ volume (U l₂) := measure_mono hsub
  rw [L1 h₁, L1 h₂] at hv
  exact (ENNReal.ofReal_le_ofReal_iff (total_nonneg h₂)).mp hv

/-- every point of `U l` lies in `[lo, hi)` when all intervals of `l` do -/
theorem U_subset_Ico {lo hi : ℝ} : ∀ {l : List (ℝ × ℝ)}, (∀ p ∈ l, lo ≤ p.1 ∧ p.2 ≤ hi) → U l ⊆ Ico lo hi := by
  intro l
  induction l with
  | nil => intro _ x hx; simp [U] at hx
  | cons p l ih =>
    intro h x hx
    simp only [U, mem_union] at hx
    rcases hx with hx | hx
    · have hp := h p (by simp)
      exact ⟨le_trans hp.1 hx.1, lt_of_lt_of_le hx.2 hp.2⟩
    · exact ih (fun q hq => h q (by simp [hq])) hx

/-- L2b: extent bound.  The summed length of sorted separated intervals lying inside `[lo, hi]` is at most `hi - lo`
    (busy time never exceeds the span, so idle time is non-negative). -/
theorem L2_extent {l : List (ℝ × ℝ)} {lo hi : ℝ} (hs : Sepd l) (hle : lo ≤ hi) (hb : ∀ p ∈ l, lo ≤ p.1 ∧ p.2 ≤ hi) :
    total l ≤ hi - lo := by
  have hv : volume (U l) ≤ volume (Ico lo hi) := measure_mono (U_subset_Ico hb)
  rw [L1 hs, Real.volume_Ico] at hv
  exact (ENNReal.ofReal_le_ofReal_iff (sub_nonneg.mpr hle)).mp hv

/-!
L4: integral of a step function.  `rows` is a swept marker table reduced to (time of the row, whether the running value AFTER
the row satisfies the predicate of interest: "both kinds run", "communication runs", "queue is full", ...).  The analyses add
up `next time − time` over the rows whose flag is set (`total (segs rows)`).  For rows sorted by time these pieces are sorted
and separated, so by L1 the sum is the Lebesgue measure of their union `U (segs rows)` — the set of instants at which the
step function satisfies the predicate.
-/

def segs : List (ℝ × Bool) → List (ℝ × ℝ)
  | [] => []
  | [_] => []
  | a :: b :: l => (if a.2 then [(a.1, b.1)] else []) ++ segs (b :: l)

def SortedT : List (ℝ × Bool) → Prop
  | [] => True
  | [_] => True
  | a :: b :: l => a.1 ≤ b.1 ∧ SortedT (b :: l)

theorem Sepd.cons {p : ℝ × ℝ} {l : List (ℝ × ℝ)} (hp : p.1 ≤ p.2) (hl : ∀ q ∈ l, p.2 ≤ q.1) (hs : Sepd l) : Sepd (p :: l) := by
  cases l with
  | nil => exact hp
  | cons q l => exact ⟨hp, hl q (by simp), hs⟩

theorem segs_lower : ∀ (l : List (ℝ × Bool)) (a : ℝ × Bool), SortedT (a :: l) → ∀ p ∈ segs (a :: l), a.1 ≤ p.1 := by
  intro l
  induction l with
  | nil => intro a _ p hp; simp [segs] at hp
  | cons b l ih =>
    intro a h p hp
    have hab : a.1 ≤ b.1 := h.1
    have hrest : SortedT (b :: l) := h.2
    simp only [segs, List.mem_append] at hp
    rcases hp with hp | hp
    · by_cases ha : a.2
      · simp [ha] at hp
        rw [hp]
      · simp [ha] at hp
    · exact le_trans hab (ih b hrest p hp)

theorem segs_sepd : ∀ (l : List (ℝ × Bool)) (a : ℝ × Bool), SortedT (a :: l) → Sepd (segs (a :: l)) := by
  intro l
  induction l with
  | nil => intro a _; simp [segs, Sepd]
  | cons b l ih =>
    intro a h
    have hab : a.1 ≤ b.1 := h.1
    have hrest : SortedT (b :: l) := h.2
    have hs := ih b hrest
    by_cases ha : a.2
    · have : segs (a :: b :: l) = (a.1, b.1) :: segs (b :: l) := by simp [segs, ha]
      rw [this]
      exact Sepd.cons hab (fun q hq => segs_lower l b hrest q hq) hs
    · have : segs (a :: b :: l) = segs (b :: l) := by simp [segs, ha]
      rw [this]
      exact hs

/-- L4 -/
theorem L4 (rows : List (ℝ × Bool)) (h : SortedT rows) : volume (U (segs rows)) = ENNReal.ofReal (total (segs rows)) := by
  cases rows with
  | nil => simp [segs, U, total]
  | cons a l => exact L1 (segs_sepd l a h)
