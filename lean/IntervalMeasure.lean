import Mathlib.MeasureTheory.Measure.Lebesgue.Basic
open MeasureTheory Set

def U : List (ℝ × ℝ) → Set ℝ
  | [] => ∅
  | p :: l => Ico p.1 p.2 ∪ U l

def total : List (ℝ × ℝ) → ℝ
  | [] => 0
  | p :: l => (p.2 - p.1) + total l

def Sepd : List (ℝ × ℝ) → Prop
  | [] => True
  | [p] => p.1 ≤ p.2
  | p :: q :: l => p.1 ≤ p.2 ∧ p.2 ≤ q.1 ∧ Sepd (q :: l)

theorem Sepd.head_le {p : ℝ × ℝ} {l : List (ℝ × ℝ)} (h : Sepd (p :: l)) : p.1 ≤ p.2 := by
  cases l with
  | nil => exact h
  | cons q l => exact h.1

theorem Sepd.tail {p : ℝ × ℝ} {l : List (ℝ × ℝ)} (h : Sepd (p :: l)) : Sepd l := by
  cases l with
  | nil => trivial
  | cons q l => exact h.2.2

theorem Sepd.lower : ∀ {l : List (ℝ × ℝ)} {p : ℝ × ℝ}, Sepd (p :: l) → ∀ x ∈ U l, p.2 ≤ x := by
  intro l
  induction l with
  | nil => intro p _ x hx; simp [U] at hx
  | cons q l ih =>
    intro p h x hx
    simp only [U, mem_union, mem_Ico] at hx
    rcases hx with hx | hx
    · exact le_trans h.2.1 hx.1
    · have h2 : Sepd (q :: l) := h.2.2
      have := ih h2 x hx
      exact le_trans (le_trans h.2.1 h2.head_le) this

theorem total_nonneg : ∀ {l : List (ℝ × ℝ)}, Sepd l → 0 ≤ total l := by
  intro l
  induction l with
  | nil => intro _; simp [total]
  | cons p l ih =>
    intro h
    have := ih h.tail
    have := h.head_le
    simp only [total]; linarith

theorem measurable_U : ∀ l, MeasurableSet (U l) := by
  intro l
  induction l with
  | nil => simp [U]
  | cons p l ih => exact measurableSet_Ico.union ih

theorem L1 : ∀ {l : List (ℝ × ℝ)}, Sepd l → volume (U l) = ENNReal.ofReal (total l) := by
  intro l
  induction l with
  | nil => intro _; simp [U, total]
  | cons p l ih =>
    intro h
    have hd : Disjoint (Ico p.1 p.2) (U l) := by
      rw [Set.disjoint_left]
      intro x hx hxU
      have := h.lower x hxU
      exact absurd hx.2 (not_lt.mpr this)
    simp only [U, total]
    rw [measure_union hd (measurable_U l), Real.volume_Ico, ih h.tail,
        ← ENNReal.ofReal_add (sub_nonneg.mpr h.head_le) (total_nonneg h.tail)]

/-- L2a: monotonicity.  If every point covered by `l₁` is covered by `l₂` then the summed length of `l₁` is at most that of `l₂`. -/
theorem L2_mono {l₁ l₂ : List (ℝ × ℝ)} (h₁ : Sepd l₁) (h₂ : Sepd l₂) (hsub : U l₁ ⊆ U l₂) : total l₁ ≤ total l₂ := by
  have hv : volume (U l₁) ≤ volume (U l₂) := measure_mono hsub
  rw [L1 h₁, L1 h₂] at hv
  exact (ENNReal.ofReal_le_ofReal_iff (total_nonneg h₂)).mp hv

/-- every point of `U l` lies in `[lo, hi)` when all intervals of `l` do -/
theorem U_subset_Ico {lo hi : ℝ} : ∀ {l : List (ℝ × ℝ)}, (∀ p ∈ l, lo ≤ p.1 ∧ p.2 ≤ hi) → U l ⊆ Ico lo hi := by
  intro l
  induction l with
  | nil => intro _ x hx; simp [U] at hx
  | cons p l ih =>
    intro h x hx
    simp only [U, mem_union] at hx
    rcases hx with hx | hx
    · have hp := h p (by simp)
      exact ⟨le_trans hp.1 hx.1, lt_of_lt_of_le hx.2 hp.2⟩
    · exact ih (fun q hq => h q (by simp [hq])) hx

/-- L2b: extent bound.  The summed length of sorted separated intervals lying inside `[lo, hi]` is at most `hi - lo`
    (busy time never exceeds the span, so idle time is non-negative). -/
theorem L2_extent {l : List (ℝ × ℝ)} {lo hi : ℝ} (hs : Sepd l) (hle : lo ≤ hi) (hb : ∀ p ∈ l, lo ≤ p.1 ∧ p.2 ≤ hi) :
    total l ≤ hi - lo := by
  have hv : volume (U l) ≤ volume (Ico lo hi) := measure_mono (U_subset_Ico hb)
  rw [L1 hs, Real.volume_Ico] at hv
  exact (ENNReal.ofReal_le_ofReal_iff (sub_nonneg.mpr hle)).mp hv
