"""PyVC — symbolic execution of a (stripped) Python function AST into z3 terms / verification conditions.

Path-forking executor for the scalar / loop subset described in DESIGN.md section 3.2.  Anything outside the subset
raises `Unsupported`, which makes the function's obligations *undecided* (never skipped, never a violation).

Semantics assumed: Python ints are mathematical integers (true), float/numpy numbers are reals, `and`/`or` operands
are pure and exception free (both sides are evaluated), no threads, no re-entrancy.
"""
from __future__ import annotations

import ast
import copy
import itertools
from dataclasses import dataclass, field
from typing import Any, Callable, Dict, List, Optional, Tuple

import z3


class Unsupported(Exception):
    pass


_counter = itertools.count()


def fresh(prefix: str, sort) -> Any:
    return z3.Const(f"{prefix}!{next(_counter)}", sort)


def is_sym(v) -> bool:
    return isinstance(v, z3.ExprRef)


def to_z3(v):
    if isinstance(v, z3.ExprRef):
        return v
    if isinstance(v, bool):
        return z3.BoolVal(v)
    if isinstance(v, int):
        return z3.IntVal(v)
    if isinstance(v, float):
        return z3.RealVal(repr(v))
    if isinstance(v, str):
        return z3.StringVal(v)
    raise Unsupported(f"cannot lift {type(v).__name__} to z3")


def truth(v):
    """Python truthiness as a z3 Bool or python bool."""
    if isinstance(v, bool):
        return v
    if v is None:
        return False
    if isinstance(v, (int, float)):
        return v != 0
    if isinstance(v, str):
        return len(v) > 0
    if isinstance(v, (list, tuple, dict, set)):
        return len(v) > 0
    if isinstance(v, z3.BoolRef):
        return v
    if isinstance(v, z3.ArithRef):
        return v != 0
    if isinstance(v, z3.SeqRef):
        return z3.Length(v) > 0
    if isinstance(v, SymList):
        return v.length > 0
    if isinstance(v, Record):
        return True
    if hasattr(v, "hv_truth"):
        return v.hv_truth()
    raise Unsupported(f"truthiness of {type(v).__name__}")


def z_and(*xs):
    xs = [x for x in xs if x is not True]
    if any(x is False for x in xs):
        return False
    if not xs:
        return True
    return z3.And(*[to_z3(x) for x in xs]) if len(xs) > 1 else xs[0]


def z_or(*xs):
    xs = [x for x in xs if x is not False]
    if any(x is True for x in xs):
        return True
    if not xs:
        return False
    return z3.Or(*[to_z3(x) for x in xs]) if len(xs) > 1 else xs[0]


def z_not(x):
    if isinstance(x, bool):
        return not x
    return z3.Not(x)


def z_ite(c, a, b):
    if c is True:
        return a
    if c is False:
        return b
    if a is b:
        return a
    if isinstance(a, (tuple, list)) and isinstance(b, (tuple, list)) and len(a) == len(b):
        return type(a)(z_ite(c, x, y) for x, y in zip(a, b))
    if hasattr(a, "hv_ite"):
        return a.hv_ite(c, b, False)
    if hasattr(b, "hv_ite"):
        return b.hv_ite(c, a, True)
    if a is None or b is None:
        raise Unsupported("ite with None branch")
    za, zb = to_z3(a), to_z3(b)
    if za.sort() != zb.sort():
        if z3.is_int(za) and z3.is_real(zb):
            za = z3.ToReal(za)
        elif z3.is_real(za) and z3.is_int(zb):
            zb = z3.ToReal(zb)
        elif z3.is_bool(za) and z3.is_int(zb):
            za = z3.If(za, 1, 0)
        elif z3.is_int(za) and z3.is_bool(zb):
            zb = z3.If(zb, 1, 0)
        else:
            raise Unsupported(f"ite over different sorts {za.sort()} / {zb.sort()}")
    return z3.If(c, za, zb)


# ---------------------------------------------------------------------------------------------- symbolic containers


class Record:
    """A dataclass / NamedTuple / plain object instance: named fields (mutable unless frozen)."""

    def __init__(self, cls: str, fields: Dict[str, Any], frozen: bool = False, order: Optional[List[str]] = None):
        self.cls = cls
        self.fields = dict(fields)
        self.frozen = frozen
        self.order = order or list(fields)

    def __deepcopy__(self, memo):
        return Record(self.cls, {k: copy.deepcopy(v, memo) for k, v in self.fields.items()}, self.frozen, list(self.order))

    def __repr__(self):
        return f"Record<{self.cls}>({self.fields})"


class SymList:
    """Python list as (length, Array Int -> elem)."""

    def __init__(self, elem_sort, name: str = "lst", length=None, arr=None):
        self.sort = elem_sort
        self.length = length if length is not None else fresh(name + "_len", z3.IntSort())
        self.arr = arr if arr is not None else fresh(name + "_arr", z3.ArraySort(z3.IntSort(), elem_sort))

    @staticmethod
    def empty(elem_sort):
        return SymList(elem_sort, length=z3.IntVal(0), arr=z3.K(z3.IntSort(), _default(elem_sort)))

    def __deepcopy__(self, memo):
        return SymList(self.sort, length=self.length, arr=self.arr)

    def at(self, i):
        return z3.Select(self.arr, i)

    def last(self):
        return z3.Select(self.arr, self.length - 1)

    def append(self, v):
        self.arr = z3.Store(self.arr, self.length, to_z3(v))
        self.length = self.length + 1

    def pop_last(self):
        v = self.last()
        self.length = self.length - 1
        return v

    def pop_first(self):
        v = self.at(z3.IntVal(0))
        i = fresh("sh", z3.IntSort())
        self.arr = z3.Lambda([i], z3.Select(self.arr, i + 1))
        self.length = self.length - 1
        return v


class SymMap:
    """Python dict as (domain: Array K -> Bool, values: Array K -> V)."""

    def __init__(self, ksort, vsort, name: str = "map", dom=None, val=None):
        self.ksort, self.vsort = ksort, vsort
        self.dom = dom if dom is not None else fresh(name + "_dom", z3.ArraySort(ksort, z3.BoolSort()))
        self.val = val if val is not None else fresh(name + "_val", z3.ArraySort(ksort, vsort))

    @staticmethod
    def empty(ksort, vsort):
        return SymMap(ksort, vsort, dom=z3.K(ksort, z3.BoolVal(False)), val=z3.K(ksort, _default(vsort)))

    def __deepcopy__(self, memo):
        return SymMap(self.ksort, self.vsort, dom=self.dom, val=self.val)

    def has(self, k):
        return z3.Select(self.dom, to_z3(k))

    def get(self, k):
        return z3.Select(self.val, to_z3(k))

    def set(self, k, v):
        self.dom = z3.Store(self.dom, to_z3(k), z3.BoolVal(True))
        self.val = z3.Store(self.val, to_z3(k), to_z3(v))


def _default(sort):
    if sort == z3.IntSort():
        return z3.IntVal(0)
    if sort == z3.RealSort():
        return z3.RealVal(0)
    if sort == z3.BoolSort():
        return z3.BoolVal(False)
    if sort == z3.StringSort():
        return z3.StringVal("")
    return z3.Const(f"default_{sort}", sort)


# ---------------------------------------------------------------------------------------------- outcomes


@dataclass
class Outcome:
    kind: str  # 'fall' | 'ret' | 'raise' | 'break' | 'continue'
    pc: List[Any]
    env: Dict[str, Any]
    value: Any = None
    exc: str = ""


@dataclass
class PendingVC:
    name: str
    hyps: List[Any]
    goal: Any
    note: str = ""


class Exec:
    """One symbolic execution context.

    consts     : module-level names -> python constants / Records / callables
    intrinsics : name -> python callable(exec, pc, env, args, kwargs) -> value   (function calls by dotted name)
    methods    : (type, attr) handlers: callable(exec, pc, env, obj, args, kwargs) -> value
    loop_invs  : ordinal -> LoopSpec
    """

    def __init__(
        self,
        consts: Optional[Dict[str, Any]] = None,
        intrinsics: Optional[Dict[str, Callable]] = None,
        methods: Optional[Dict[str, Callable]] = None,
        loop_specs: Optional[Dict[int, "LoopSpec"]] = None,
        name: str = "",
        prune: bool = True,
        max_paths: int = 4000,
    ):
        self.consts = dict(consts or {})
        self.intrinsics = dict(intrinsics or {})
        self.methods = dict(methods or {})
        self.loop_specs = dict(loop_specs or {})
        self.vcs: List[PendingVC] = []
        self.name = name
        self.prune = prune
        self.max_paths = max_paths
        self._loop_ordinal = 0
        self._paths = 0
        self.assumed: List[str] = []
        self.classes: Dict[str, "ClassModel"] = {}
        self.raised: List[Any] = []  # (pc, exception, where) of raising paths inside class-model calls
        self.facts: List[Any] = []  # quantified facts introduced by assumed library contracts (hypotheses of every VC)
        self._pending_raises: List[Outcome] = []  # raising alternatives of the expression being evaluated by the current statement

    # ------------------------------------------------------------------ helpers
    def feasible(self, pc: List[Any]) -> bool:
        if not self.prune:
            return True
        cs = [c for c in pc if c is not True]
        if any(c is False for c in cs):
            return False
        if not cs:
            return True
        s = z3.Solver()
        s.set("timeout", 2000)
        s.add(*[to_z3(c) for c in cs])
        for f in self.facts:
            s.add(f)
        return s.check() != z3.unsat

    def oblige(self, name: str, pc: List[Any], goal, note: str = "") -> None:
        self.vcs.append(PendingVC(f"{self.name}.{name}" if self.name else name, [to_z3(c) for c in pc if c is not True], to_z3(goal), note))

    # ------------------------------------------------------------------ function entry
    def run_function(self, fn: ast.FunctionDef, args: Dict[str, Any], pc: Optional[List[Any]] = None) -> List[Outcome]:
        env = dict(args)
        # defaults for parameters that were not supplied
        a = fn.args
        pos = a.posonlyargs + a.args
        defaults = [None] * (len(pos) - len(a.defaults)) + list(a.defaults)
        for p, d in zip(pos, defaults):
            if p.arg not in env:
                if d is None:
                    raise Unsupported(f"missing argument {p.arg}")
                env[p.arg] = self.eval(d, list(pc or []), env)
        for p, d in zip(a.kwonlyargs, a.kw_defaults):
            if p.arg not in env and d is not None:
                env[p.arg] = self.eval(d, list(pc or []), env)
        outs = self.exec_block(fn.body, list(pc or []), env)
        res = []
        for o in outs:
            if o.kind == "fall":
                res.append(Outcome("ret", o.pc, o.env, None))
            elif o.kind in ("break", "continue"):
                raise Unsupported("break/continue outside loop")
            else:
                res.append(o)
        return res

    # ------------------------------------------------------------------ statements
    def exec_block(self, body: List[ast.stmt], pc: List[Any], env: Dict[str, Any]) -> List[Outcome]:
        live = [Outcome("fall", pc, env)]
        for st in body:
            nxt: List[Outcome] = []
            for o in live:
                if o.kind != "fall":
                    nxt.append(o)
                    continue
                nxt.extend(self.exec_stmt(st, o.pc, o.env))
            live = nxt
            self._paths = max(self._paths, len(live))
            if len(live) > self.max_paths:
                raise Unsupported(f"path explosion (> {self.max_paths})")
        return live

    def exec_stmt(self, st: ast.stmt, pc: List[Any], env: Dict[str, Any]) -> List[Outcome]:
        m = getattr(self, "st_" + type(st).__name__, None)
        if m is None:
            raise Unsupported(f"statement {type(st).__name__} at line {getattr(st, 'lineno', '?')}")
        saved, self._pending_raises = self._pending_raises, []
        try:
            outs = m(st, pc, env)
            outs = list(outs) + self._pending_raises
        finally:
            self._pending_raises = saved
        return outs

    def st_With(self, st, pc, env):
        """`with <expr> [as name]: body` as binding + body: __enter__ returns the object itself and __exit__ neither swallows
        exceptions nor changes the state the body's code reads (files, locks) - stated per contract."""
        live = [(pc, env)]
        for item in st.items:
            nxt = []
            for p0, e0 in live:
                for p2, e2, v in self.eval_fork(item.context_expr, p0, e0):
                    e3 = self.assign(item.optional_vars, v, p2, e2) if item.optional_vars is not None else e2
                    nxt.append((p2, e3))
            live = nxt
        outs: List[Outcome] = []
        for p2, e2 in live:
            outs.extend(self.exec_block(st.body, p2, copy.deepcopy(e2) if len(live) > 1 else e2))
        return outs

    def st_Try(self, st, pc, env):
        """try/except[/else]: outcomes of the body that raise a matching exception continue in the handler.  Exceptions are the
        explicit `raise` statements and the raising alternatives of intrinsics (Raises); anything else that the real code
        could raise inside the body is outside the model (documented per contract)."""
        if st.finalbody:
            raise Unsupported(f"try/finally at line {st.lineno}")
        outs: List[Outcome] = []
        for o in self.exec_block(st.body, pc, env):
            if o.kind == "fall" and st.orelse:
                outs.extend(self.exec_block(st.orelse, o.pc, o.env))
            elif o.kind != "raise":
                outs.append(o)
            else:
                for h in st.handlers:
                    if _handler_matches(h.type, o.exc):
                        e2 = o.env
                        if h.name:
                            e2 = dict(e2)
                            e2[h.name] = Opaque(f"exception {o.exc}")
                        outs.extend(self.exec_block(h.body, o.pc, e2))
                        break
                else:
                    outs.append(o)
        return outs

    def st_Pass(self, st, pc, env):
        return [Outcome("fall", pc, env)]

    def st_Expr(self, st, pc, env):
        outs = []
        for pc2, env2, _ in self.eval_fork(st.value, pc, env):
            outs.append(Outcome("fall", pc2, env2))
        return outs

    def st_Return(self, st, pc, env):
        if st.value is None:
            return [Outcome("ret", pc, env, None)]
        return [Outcome("ret", pc2, env2, v) for pc2, env2, v in self.eval_fork(st.value, pc, env)]

    def st_Raise(self, st, pc, env):
        exc = ""
        if st.exc is not None:
            e = st.exc
            if isinstance(e, ast.Call):
                e = e.func
            exc = e.id if isinstance(e, ast.Name) else (e.attr if isinstance(e, ast.Attribute) else "")
        return [Outcome("raise", pc, env, None, exc or "Exception")]

    def st_Assert(self, st, pc, env):
        outs = []
        for pc2, env2, v in self.eval_fork(st.test, pc, env):
            c = truth(v)
            self.oblige(f"assert@L{st.lineno}", pc2, c, "assert statement is an obligation of absence of AssertionError")
            outs.append(Outcome("fall", pc2 + [c], env2))
        return outs

    def st_Break(self, st, pc, env):
        return [Outcome("break", pc, env)]

    def st_Continue(self, st, pc, env):
        return [Outcome("continue", pc, env)]

    def st_Global(self, st, pc, env):
        return [Outcome("fall", pc, env)]

    st_Nonlocal = st_Global

    def st_FunctionDef(self, st, pc, env):
        env = dict(env)
        env[st.name] = Closure(st, env)
        return [Outcome("fall", pc, env)]

    def st_AnnAssign(self, st, pc, env):
        if st.value is None:
            return [Outcome("fall", pc, env)]
        outs = []
        for pc2, env2, v in self.eval_fork(st.value, pc, env):
            env3 = self.assign(st.target, v, pc2, env2)
            outs.append(Outcome("fall", pc2, env3))
        return outs

    def st_Assign(self, st, pc, env):
        outs = []
        for pc2, env2, v in self.eval_fork(st.value, pc, env):
            env3 = env2
            for t in st.targets:
                env3 = self.assign(t, v, pc2, env3)
            outs.append(Outcome("fall", pc2, env3))
        return outs

    def st_AugAssign(self, st, pc, env):
        load = copy.copy(st.target)
        load.ctx = ast.Load()
        expr = ast.BinOp(left=load, op=st.op, right=st.value)
        ast.copy_location(expr, st)
        ast.fix_missing_locations(expr)
        outs = []
        for pc2, env2, v in self.eval_fork(expr, pc, env):
            outs.append(Outcome("fall", pc2, self.assign(st.target, v, pc2, env2)))
        return outs

    def assign(self, target, v, pc, env) -> Dict[str, Any]:
        if isinstance(target, ast.Name):
            env = dict(env)
            env[target.id] = v
            if "__bound__" + target.id in env:
                env["__bound__" + target.id] = True
            return env
        if isinstance(target, (ast.Tuple, ast.List)):
            if not isinstance(v, (tuple, list)) or len(v) != len(target.elts):
                raise Unsupported("unpacking of non-tuple value")
            for t, x in zip(target.elts, v):
                env = self.assign(t, x, pc, env)
            return env
        if isinstance(target, ast.Attribute):
            obj = self.eval(target.value, pc, env)
            if isinstance(obj, Record):
                if obj.frozen:
                    raise Unsupported("assignment to frozen record field")
                obj.fields[target.attr] = v
                return env
            h = self.methods.get("setattr:" + type(obj).__name__)
            if h:
                h(self, pc, env, obj, target.attr, v)
                return env
            if hasattr(obj, "hv_setattr"):
                obj.hv_setattr(self, target.attr, v, pc)
                return env
            raise Unsupported(f"attribute assignment on {type(obj).__name__}")
        if isinstance(target, ast.Subscript):
            obj = self.eval(target.value, pc, env)
            idx = self.eval(target.slice, pc, env)
            if isinstance(obj, SymMap):
                obj.set(idx, v)
                return env
            if isinstance(obj, dict):
                if is_sym(idx):
                    raise Unsupported("symbolic key into concrete dict")
                obj[idx] = v
                return env
            if isinstance(obj, list) and isinstance(idx, int):
                obj[idx] = v
                return env
            h = self.methods.get("setitem:" + type(obj).__name__)
            if h:
                h(self, pc, env, obj, idx, v)
                return env
            if hasattr(obj, "hv_setitem"):
                obj.hv_setitem(self, idx, v, pc)
                return env
            raise Unsupported(f"subscript assignment on {type(obj).__name__}")
        raise Unsupported(f"assignment target {type(target).__name__}")

    def st_If(self, st, pc, env):
        outs: List[Outcome] = []
        for pc2, env2, v in self.eval_fork(st.test, pc, env):
            c = truth(v)
            if c is True:
                outs.extend(self.exec_block(st.body, pc2, env2))
            elif c is False:
                outs.extend(self.exec_block(st.orelse, pc2, env2))
            else:
                pt, pf = pc2 + [c], pc2 + [z3.Not(c)]
                ft, ff = self.feasible(pt), self.feasible(pf)
                if ft:
                    outs.extend(self.exec_block(st.body, pt, copy.deepcopy(env2) if ff else env2))
                if ff:
                    outs.extend(self.exec_block(st.orelse, pf, env2))
        return outs

    # loops ------------------------------------------------------------------------------------
    def st_For(self, st, pc, env):
        ordinal = self._loop_ordinal
        self._loop_ordinal += 1
        it = self.eval(st.iter, pc, env)
        spec = self.loop_specs.get(ordinal) or self.loop_specs.get(("line", st.lineno))
        # concrete iteration: unroll
        if isinstance(it, (list, tuple, range)) and spec is None:
            live = [Outcome("fall", pc, env)]
            done: List[Outcome] = []
            for x in it:
                nxt = []
                for o in live:
                    e2 = self.assign(st.target, x, o.pc, o.env)
                    for r in self.exec_block(st.body, o.pc, e2):
                        if r.kind in ("fall", "continue"):
                            nxt.append(Outcome("fall", r.pc, r.env))
                        elif r.kind == "break":
                            done.append(Outcome("fall", r.pc, r.env))
                        else:
                            done.append(r)
                live = nxt
            outs = list(done)
            for o in live:
                outs.extend(self.exec_block(st.orelse, o.pc, o.env) if st.orelse else [o])
            return outs
        if spec is None:
            raise Unsupported(f"loop #{ordinal} at line {st.lineno} over symbolic iterable needs an invariant")
        return spec.apply(self, st, it, pc, env, ordinal)

    def st_While(self, st, pc, env):
        ordinal = self._loop_ordinal
        self._loop_ordinal += 1
        spec = self.loop_specs.get(ordinal)
        if spec is None:
            raise Unsupported(f"while loop #{ordinal} at line {st.lineno} needs an invariant")
        return spec.apply_while(self, st, pc, env, ordinal)

    # ------------------------------------------------------------------ expressions
    def eval_fork(self, node, pc, env) -> List[Tuple[List[Any], Dict[str, Any], Any]]:
        """Evaluate an expression; may fork (conditional expressions over non-mergeable values, raising calls)."""
        try:
            v = self.eval(node, pc, env)
            if isinstance(v, PathValues):
                res = []
                for c, x in v.alts:
                    if not self.feasible(pc + [c]):
                        continue
                    if isinstance(x, Raises):
                        # the raising alternative owns a copy of the state: the other alternatives go on mutating theirs
                        self._pending_raises.append(Outcome("raise", pc + [c], copy.deepcopy(env), None, x.exc))
                    else:
                        # every further alternative owns a copy of the state (mutable lists / maps / sets are changed in place later)
                        res.append((pc + [c], env if not res else copy.deepcopy(env), x))
                return res
            if isinstance(v, Raises):
                self._pending_raises.append(Outcome("raise", pc, env, None, v.exc))
                return []
            return [(pc, env, v)]
        except _Fork as f:
            res = []
            for c, thunk in f.branches:
                p2 = pc + [c]
                if self.feasible(p2):
                    res.append((p2, env if not res else copy.deepcopy(env), thunk()))
            return res

    def eval(self, node, pc, env):
        m = getattr(self, "ex_" + type(node).__name__, None)
        if m is None:
            raise Unsupported(f"expression {type(node).__name__} at line {getattr(node, 'lineno', '?')}")
        return m(node, pc, env)

    def ex_Constant(self, n, pc, env):
        return n.value

    def ex_Name(self, n, pc, env):
        if n.id in env:
            b = env.get("__bound__" + n.id)
            if b is not None and b is not True:
                self.oblige(f"unbound@L{n.lineno}.{n.id}", pc, b, f"UnboundLocalError: `{n.id}` is assigned only inside a loop that may not execute its body")
                env["__bound__" + n.id] = True  # obliged once on this path; later reads of the same binding do not repeat it
                pc.append(to_z3(b))  # the path goes on only where the read succeeded (assert, then assume)
            return env[n.id]
        if n.id in self.consts:
            return self.consts[n.id]
        if n.id in self.classes:
            return self.classes[n.id]
        if n.id in ("True", "False", "None"):
            return {"True": True, "False": False, "None": None}[n.id]
        if n.id in _BUILTINS:
            return Builtin(n.id)
        if n.id in self.intrinsics:
            return Builtin(n.id)
        raise Unsupported(f"unknown name {n.id} at line {n.lineno}")

    def ex_Tuple(self, n, pc, env):
        return tuple(self.eval(e, pc, env) for e in n.elts)

    def ex_List(self, n, pc, env):
        return [self.eval(e, pc, env) for e in n.elts]

    def ex_Set(self, n, pc, env):
        return set(self.eval(e, pc, env) for e in n.elts)

    def ex_Dict(self, n, pc, env):
        if not n.keys and getattr(self, "empty_dict_factory", None) is not None:
            return self.empty_dict_factory()
        d = {}
        for k, v in zip(n.keys, n.values):
            if k is None:
                raise Unsupported("dict unpacking")
            kk = self.eval(k, pc, env)
            if is_sym(kk):
                raise Unsupported("symbolic dict literal key")
            d[kk] = self.eval(v, pc, env)
        return d

    def ex_JoinedStr(self, n, pc, env):
        parts = []
        for v in n.values:
            if isinstance(v, ast.Constant):
                parts.append(v.value)
            elif isinstance(v, ast.FormattedValue):
                x = self.eval(v.value, pc, env)
                if isinstance(x, TemplateStr):
                    parts.append(x)
                elif is_sym(x):
                    if isinstance(x, z3.SeqRef):
                        parts.append(x)
                    else:
                        parts.append(TemplateStr.hole(x))  # a symbolic number rendered into text (e.g. a query string)
                else:
                    parts.append(format(x, "") if v.format_spec is None else str(x))
        if all(isinstance(p, str) for p in parts):
            return "".join(parts)
        if any(isinstance(p, TemplateStr) for p in parts):
            return TemplateStr.join(parts)
        return z3.Concat(*[to_z3(p) for p in parts])

    def ex_UnaryOp(self, n, pc, env):
        v = self.eval(n.operand, pc, env)
        if hasattr(v, "hv_unary"):
            return v.hv_unary(self, n.op)
        if isinstance(n.op, ast.Not):
            return z_not(truth(v))
        if isinstance(n.op, ast.USub):
            return -v
        if isinstance(n.op, ast.UAdd):
            return v
        if isinstance(n.op, ast.Invert):
            if isinstance(v, z3.BoolRef):
                return z3.Not(v)
            if isinstance(v, bool):
                raise Unsupported("~ on python bool")
            return -v - 1
        raise Unsupported("unary op")

    def ex_BoolOp(self, n, pc, env):
        """`a or b or ...` / `a and b and ...` with Python's value semantics: the result is the first decisive operand (truthy for
        `or`, falsy for `and`), else the last one; an operand is evaluated only under the condition that the earlier ones were not
        decisive."""
        is_or = isinstance(n.op, ast.Or)
        vals, ts = [], []
        cur_pc = list(pc)
        for v in n.values:
            x = self.eval(v, cur_pc, env)
            try:
                t = truth(x)
            except Unsupported:
                t = None
            if isinstance(t, bool) and t != is_or and len(vals) + 1 < len(n.values):
                continue  # concretely non-decisive and not the last operand: Python moves on, the operand is never the result
            vals.append(x)
            ts.append(t)
            if isinstance(t, bool) and t == is_or:
                break  # concretely decisive: the remaining operands are not evaluated
            if t is not None and not isinstance(t, bool):
                cur_pc = cur_pc + [z3.Not(t) if is_or else t]
        if len(vals) == 1:
            return vals[0]
        if all(isinstance(v, (bool, z3.BoolRef)) for v in vals):
            return z_or(*ts) if is_or else z_and(*ts)
        if any(t is None for t in ts[:-1]):
            raise Unsupported("and/or over an operand without a modelled truth value")

        def as_value(x):
            if hasattr(x, "hv_truth") and hasattr(x, "val"):  # an optional number (dict.get without default): its value when it is truthy
                return x.val
            if isinstance(x, (int, float, str)) or is_sym(x):
                return x
            raise Unsupported("and/or returning a non-scalar operand under a symbolic condition")

        res = vals[-1]
        if not (isinstance(res, (int, float, str)) or is_sym(res)):
            raise Unsupported("and/or returning a non-scalar operand under a symbolic condition")
        def kind(x):
            if isinstance(x, (bool, z3.BoolRef)):
                return "bool"
            if isinstance(x, (int, float, z3.ArithRef)):
                return "num"
            if isinstance(x, (str, z3.SeqRef)):
                return "str"
            return "other"

        for x, t in zip(reversed(vals[:-1]), reversed(ts[:-1])):
            if kind(as_value(x)) != kind(res) or kind(res) == "other":
                raise Unsupported("and/or over operands of different kinds under a symbolic condition")
            if is_or:
                res = z_ite(t, as_value(x), res)
            else:
                if hasattr(x, "hv_truth") and hasattr(x, "val"):
                    raise Unsupported("`optional and y`: the falsy operand may be None")
                res = z_ite(t, res, as_value(x))
        return res

    def ex_Compare(self, n, pc, env):
        left = self.eval(n.left, pc, env)
        res = []
        for op, rn in zip(n.ops, n.comparators):
            right = self.eval(rn, pc, env)
            res.append(self.compare(op, left, right))
            left = right
        return z_and(*res)

    def compare(self, op, a, b):
        if (isinstance(a, Opaque) or isinstance(b, Opaque)) and isinstance(op, (ast.Lt, ast.LtE, ast.Gt, ast.GtE)):
            raise Unsupported("ordering comparison with an opaque value")
        if hasattr(a, "hv_compare"):
            return a.hv_compare(self, op, b, False)
        if hasattr(b, "hv_compare"):
            return b.hv_compare(self, op, a, True)
        if isinstance(op, (ast.Is, ast.IsNot)):
            if b is None or a is None:
                r = (a is None) and (b is None) if (a is None or b is None) and not (is_sym(a) or is_sym(b)) else None
                if r is None:
                    r = False  # a symbolic scalar is never None
                return r if isinstance(op, ast.Is) else (not r)
            if isinstance(a, bool) or isinstance(b, bool):
                r = self.compare(ast.Eq(), a, b)
                return r if isinstance(op, ast.Is) else z_not(r)
            raise Unsupported("`is` on non-None operands")
        if isinstance(op, (ast.In, ast.NotIn)):
            r = self.contains(b, a)
            return r if isinstance(op, ast.In) else z_not(r)
        if isinstance(op, (ast.Eq, ast.NotEq)) and (isinstance(a, SymList) or isinstance(b, SymList)):
            sl, other = (a, b) if isinstance(a, SymList) else (b, a)
            if isinstance(other, list):
                r = z_and(sl.length == len(other), *[sl.at(i) == to_z3(x) for i, x in enumerate(other)])
            elif isinstance(other, SymList):
                raise Unsupported("equality of two symbolic lists")
            else:
                r = False  # a list never equals a tuple / scalar
            return r if isinstance(op, ast.Eq) else z_not(r)
        if isinstance(a, EnumVal) or isinstance(b, EnumVal):
            if isinstance(a, EnumVal) and isinstance(b, EnumVal):
                r = a.cls == b.cls and a.name == b.name
            else:
                sym, ev = (b, a) if isinstance(a, EnumVal) else (a, b)
                if not is_sym(sym):
                    r = False
                else:
                    r = sym == ev.code
            if isinstance(op, ast.Eq):
                return r
            if isinstance(op, ast.NotEq):
                return z_not(r)
            raise Unsupported("ordering on enum")
        if (a is None) != (b is None):
            if isinstance(op, ast.Eq):
                return False
            if isinstance(op, ast.NotEq):
                return True
        if isinstance(a, bool) and is_sym(b) and z3.is_bool(b):
            a = z3.BoolVal(a)
        if isinstance(b, bool) and is_sym(a) and z3.is_bool(a):
            b = z3.BoolVal(b)
        if isinstance(a, str) and is_sym(b):
            a = z3.StringVal(a)
        if isinstance(b, str) and is_sym(a):
            b = z3.StringVal(b)
        if isinstance(op, ast.Eq):
            return a == b
        if isinstance(op, ast.NotEq):
            return a != b
        if isinstance(op, ast.Lt):
            return a < b
        if isinstance(op, ast.LtE):
            return a <= b
        if isinstance(op, ast.Gt):
            return a > b
        if isinstance(op, ast.GtE):
            return a >= b
        raise Unsupported("comparison operator")

    def contains(self, container, item):
        if hasattr(container, "hv_contains"):
            return container.hv_contains(self, item)
        if isinstance(container, (list, tuple)) and any(isinstance(c, Guarded) for c in container):
            return z_or(*[z_and(c.cond, self.compare(ast.Eq(), item, c.value)) if isinstance(c, Guarded) else self.compare(ast.Eq(), item, c) for c in container])
        if isinstance(container, (list, tuple, set, frozenset)):
            if not is_sym(item) and all(not is_sym(c) and not isinstance(c, EnumVal) for c in container) and not isinstance(item, EnumVal):
                return item in container
            return z_or(*[self.compare(ast.Eq(), item, c) for c in container])
        if isinstance(container, dict):
            if not is_sym(item):
                return item in container
            return z_or(*[self.compare(ast.Eq(), item, c) for c in container.keys()])
        if isinstance(container, SymMap):
            return container.has(item)
        if isinstance(container, SymSet):
            return container.has(item)
        if isinstance(container, SymList):
            i = fresh("mi", z3.IntSort())
            return z3.Exists([i], z3.And(i >= 0, i < container.length, container.at(i) == to_z3(item)))
        if isinstance(container, str) and isinstance(item, str):
            return item in container
        if isinstance(container, (str, z3.SeqRef)) and isinstance(item, (str, z3.SeqRef)):
            return z3.Contains(to_z3(container), to_z3(item))
        raise Unsupported(f"`in` over {type(container).__name__}")

    def ex_BinOp(self, n, pc, env):
        a = self.eval(n.left, pc, env)
        b = self.eval(n.right, pc, env)
        return self.binop(n.op, a, b, pc, n)

    def binop(self, op, a, b, pc, n=None):
        if hasattr(a, "hv_binop"):
            return a.hv_binop(self, op, b, False, pc)
        if hasattr(b, "hv_binop"):
            return b.hv_binop(self, op, a, True, pc)
        if isinstance(a, bool) and not isinstance(b, bool) and not (is_sym(b) and z3.is_bool(b)):
            a = int(a)
        if isinstance(b, bool) and not isinstance(a, bool) and not (is_sym(a) and z3.is_bool(a)):
            b = int(b)
        if isinstance(a, z3.BoolRef) and not isinstance(op, (ast.BitAnd, ast.BitOr, ast.BitXor)):
            a = z3.If(a, 1, 0)
        if isinstance(b, z3.BoolRef) and not isinstance(op, (ast.BitAnd, ast.BitOr, ast.BitXor)):
            b = z3.If(b, 1, 0)
        if isinstance(op, ast.Add):
            if isinstance(a, (tuple, list)) and isinstance(b, (tuple, list)):
                return type(a)(list(a) + list(b))
            if isinstance(a, (str, z3.SeqRef)) and isinstance(b, (str, z3.SeqRef)) and (is_sym(a) or is_sym(b)):
                return z3.Concat(to_z3(a), to_z3(b))
            return a + b
        if isinstance(op, ast.Sub):
            return a - b
        if isinstance(op, ast.Mult):
            return a * b
        if isinstance(op, ast.Div):
            if is_sym(a) or is_sym(b):
                self.oblige(f"div_nonzero@L{getattr(n, 'lineno', 0)}", pc, to_z3(b) != 0, "ZeroDivisionError absence")
                za, zb = to_z3(a), to_z3(b)
                if z3.is_int(za):
                    za = z3.ToReal(za)
                if z3.is_int(zb):
                    zb = z3.ToReal(zb)
                return za / zb
            return a / b
        if isinstance(op, ast.FloorDiv):
            if is_sym(a) or is_sym(b):
                za, zb = to_z3(a), to_z3(b)
                if z3.is_int(za) and z3.is_int(zb) and not is_sym(b) and b > 0:
                    return za / zb  # z3 int division floors for positive divisors
                raise Unsupported("symbolic floor division")
            return a // b
        if isinstance(op, ast.Mod):
            if is_sym(a) and not is_sym(b) and isinstance(b, int) and b > 0:
                return a % b
            if not is_sym(a) and not is_sym(b):
                return a % b
            raise Unsupported("symbolic modulo")
        if isinstance(op, ast.LShift):
            if not is_sym(b):
                return a * (2 ** b)
            raise Unsupported("symbolic shift amount")
        if isinstance(op, (ast.BitAnd, ast.BitOr, ast.BitXor)):
            if isinstance(a, (z3.BoolRef, bool)) and isinstance(b, (z3.BoolRef, bool)):
                if isinstance(op, ast.BitAnd):
                    return z_and(a, b)
                if isinstance(op, ast.BitOr):
                    return z_or(a, b)
                return z3.Xor(to_z3(a), to_z3(b))
            if not is_sym(a) and not is_sym(b):
                return {ast.BitAnd: lambda: a & b, ast.BitOr: lambda: a | b, ast.BitXor: lambda: a ^ b}[type(op)]()
            h = self.intrinsics.get("__bitop__")
            if h:
                return h(self, op, a, b)
            raise Unsupported("symbolic integer bit operation")
        raise Unsupported(f"binary op {type(op).__name__}")

    def ex_IfExp(self, n, pc, env):
        c = truth(self.eval(n.test, pc, env))
        if c is True:
            return self.eval(n.body, pc, env)
        if c is False:
            return self.eval(n.orelse, pc, env)
        a = self.eval(n.body, pc + [c], env)
        b = self.eval(n.orelse, pc + [z3.Not(c)], env)
        try:
            return z_ite(c, a, b)
        except Unsupported:
            raise _Fork([(c, lambda: a), (z3.Not(c), lambda: b)])

    def ex_Subscript(self, n, pc, env):
        obj = self.eval(n.value, pc, env)
        if isinstance(n.slice, ast.Slice):
            if isinstance(obj, (list, tuple, str)):
                lo = self.eval(n.slice.lower, pc, env) if n.slice.lower else None
                hi = self.eval(n.slice.upper, pc, env) if n.slice.upper else None
                if is_sym(lo) or is_sym(hi):
                    raise Unsupported("symbolic slice")
                return obj[lo:hi]
            raise Unsupported("slice of symbolic object")
        idx = self.eval(n.slice, pc, env)
        return self.getitem(obj, idx, pc, n)

    def getitem(self, obj, idx, pc, n=None):
        ln = getattr(n, "lineno", 0)
        if isinstance(obj, (list, tuple)):
            if is_sym(idx):
                raise Unsupported("symbolic index into concrete sequence")
            return obj[idx]
        if isinstance(obj, dict):
            if is_sym(idx):
                # symbolic key over finite dict: chain of ites, with KeyError obligation
                keys = list(obj.keys())
                self.oblige(f"keyerror@L{ln}", pc, z_or(*[idx == to_z3(k) for k in keys]), "KeyError absence")
                res = obj[keys[-1]]
                for k in reversed(keys[:-1]):
                    res = z_ite(idx == to_z3(k), obj[k], res)
                return res
            if isinstance(idx, EnumVal):
                for k, v in obj.items():
                    if isinstance(k, EnumVal) and k.cls == idx.cls and k.name == idx.name:
                        return v
                raise Unsupported("enum key missing in dict")
            if idx not in obj:
                raise Unsupported(f"concrete KeyError {idx!r} at line {ln}")
            return obj[idx]
        if isinstance(obj, Record):
            if isinstance(idx, int):
                return obj.fields[obj.order[idx]]
            raise Unsupported("record subscript")
        if isinstance(obj, SymList):
            if not is_sym(idx) and isinstance(idx, int) and idx < 0:
                self.oblige(f"indexerror@L{ln}", pc, obj.length >= -idx, "IndexError absence")
                return obj.at(obj.length + idx)
            self.oblige(f"indexerror@L{ln}", pc, z3.And(to_z3(idx) >= 0, to_z3(idx) < obj.length), "IndexError absence")
            pc.append(z3.And(to_z3(idx) >= 0, to_z3(idx) < obj.length))  # assert, then assume: the path goes on where the lookup succeeded
            return obj.at(to_z3(idx))
        if isinstance(obj, SymMap):
            self.oblige(f"keyerror@L{ln}", pc, obj.has(idx), "KeyError absence")
            return obj.get(idx)
        h = self.methods.get("getitem:" + type(obj).__name__)
        if h:
            return h(self, pc, obj, idx, n)
        if hasattr(obj, "hv_getitem"):
            return obj.hv_getitem(self, idx, pc)
        raise Unsupported(f"subscript on {type(obj).__name__}")

    def ex_Attribute(self, n, pc, env):
        obj = self.eval(n.value, pc, env)
        if isinstance(obj, Record):
            if n.attr in obj.fields:
                return obj.fields[n.attr]
            return BoundMethod(obj, n.attr)
        if isinstance(obj, EnumCls):
            return obj.member(n.attr)
        if isinstance(obj, EnumVal) and n.attr == "value":
            return obj.value
        if isinstance(obj, EnumVal) and n.attr == "name":
            return obj.name
        if isinstance(obj, Namespace):
            return obj.get(n.attr)
        if hasattr(obj, "hv_getattr"):
            r = obj.hv_getattr(self, n.attr, pc)
            if r is not NotImplemented:
                return r
        return BoundMethod(obj, n.attr)

    def ex_Lambda(self, n, pc, env):
        return Closure(n, env)

    def ex_NamedExpr(self, n, pc, env):
        v = self.eval(n.value, pc, env)
        env[n.target.id] = v  # binds in the enclosing scope (in place: the dict is this scope's environment)
        return v

    def _comp(self, n, pc, env, make):
        if len(n.generators) != 1:
            raise Unsupported("nested comprehension")
        g = n.generators[0]
        it = self.eval(g.iter, pc, env)
        if isinstance(it, dict):
            it = list(it.keys())
        if isinstance(it, SymList) or (isinstance(it, SymEnumerate) and isinstance(it.inner, SymList)):
            return SymComp(self, n, g, it, pc, env)
        if not isinstance(it, (list, tuple, set, range)):
            raise Unsupported(f"comprehension over {type(it).__name__}")
        out = []
        for x in it:
            e2 = self.assign(g.target, x, pc, env)
            keep = True
            for c in g.ifs:
                t = truth(self.eval(c, pc, e2))
                keep = z_and(keep, t)
            if keep is True:
                out.append(make(e2, pc))
            elif keep is not False:
                # element present only under a symbolic condition; obligations raised while evaluating it hold under that condition only
                out.append(Guarded(keep, make(e2, pc + [keep])))
        return out

    def ex_ListComp(self, n, pc, env):
        return self._comp(n, pc, env, lambda e2, pcx: self.eval(n.elt, pcx, e2))

    def ex_SetComp(self, n, pc, env):
        if len(n.generators) == 1 and not n.generators[0].ifs:
            it = self.eval(n.generators[0].iter, pc, env)
            if isinstance(it, SymList):
                return self._image_set(n, it, pc, env)
        return set(self._comp(n, pc, env, lambda e2, pcx: self.eval(n.elt, pcx, e2)))

    def _image_set(self, n, lst: "SymList", pc, env):
        """{f(x) for x in L} for a symbolic list L: the set S with  (forall i in range: f(L[i]) in S)  and
        (forall k in S: 0 <= w(k) < len(L) and f(L[w(k)]) == k)  for a witness function w (facts of every VC)."""
        g = n.generators[0]
        i = fresh("ci", z3.IntSort())
        e2 = self.assign(g.target, lst.at(i), pc, env)
        img = to_z3(self.eval(n.elt, pc, e2))
        res = SymSet(img.sort(), "imgset")
        w = z3.Function(f"imgw_{res.dom}", img.sort(), z3.IntSort())
        k = fresh("ck", img.sort())
        self.facts.append(z3.ForAll([i], z3.Implies(z3.And(i >= 0, i < lst.length), res.has(img)), patterns=[img] if not z3.is_const(img) else []))
        self.facts.append(z3.ForAll([k], z3.Implies(res.has(k), z3.And(w(k) >= 0, w(k) < lst.length, z3.substitute(img, (i, w(k))) == k)), patterns=[res.has(k)]))
        self.facts.append(z3.And(res.card >= 0, res.card <= lst.length))
        return res

    def ex_GeneratorExp(self, n, pc, env):
        return self._comp(n, pc, env, lambda e2, pcx: self.eval(n.elt, pcx, e2))

    def ex_DictComp(self, n, pc, env):
        return dict(self._comp(n, pc, env, lambda e2, pcx: (self.eval(n.key, pcx, e2), self.eval(n.value, pcx, e2))))

    def ex_Call(self, n, pc, env):
        f = self.eval(n.func, pc, env)
        args = []
        for a in n.args:
            if isinstance(a, ast.Starred):
                v = self.eval(a.value, pc, env)
                if not isinstance(v, (list, tuple)):
                    raise Unsupported("starred symbolic argument")
                args.extend(v)
            else:
                args.append(self.eval(a, pc, env))
        kwargs = {}
        for k in n.keywords:
            if k.arg is None:
                raise Unsupported("**kwargs call")
            kwargs[k.arg] = self.eval(k.value, pc, env)
        return self.call(f, args, kwargs, pc, env, n)

    def call(self, f, args, kwargs, pc, env, n=None):
        if isinstance(f, Builtin):
            if f.name in self.intrinsics:
                return self.intrinsics[f.name](self, pc, env, args, kwargs)
            return _BUILTINS[f.name](self, pc, args, kwargs)
        if isinstance(f, Closure):
            return self.call_closure(f, args, kwargs, pc)
        if isinstance(f, BoundMethod):
            return self.call_method(f.obj, f.attr, args, kwargs, pc, env, n)
        if isinstance(f, RecordCtor):
            return f.make(args, kwargs)
        if isinstance(f, ClassModel):
            return f.instantiate(self, args, kwargs, pc)
        if isinstance(f, Record) and f.cls in self.classes:
            return self.classes[f.cls].call_method(self, f, "__call__", args, kwargs, pc)
        if callable(f) and getattr(f, "_hv_intrinsic", False):
            return f(self, pc, env, args, kwargs)
        raise Unsupported(f"call of {type(f).__name__} at line {getattr(n, 'lineno', '?')}")

    def call_closure(self, f: "Closure", args, kwargs, pc):
        node = f.node
        a = node.args
        names = [p.arg for p in a.posonlyargs + a.args]
        env = dict(f.env)
        for nm, v in zip(names, args):
            env[nm] = v
        for k, v in kwargs.items():
            env[k] = v
        defaults = [None] * (len(names) - len(a.defaults)) + list(a.defaults)
        for nm, d in zip(names, defaults):
            if nm not in env or (nm in f.env and nm not in kwargs and names.index(nm) >= len(args)):
                if d is not None:
                    env[nm] = self.eval(d, pc, f.env)
        if isinstance(node, ast.Lambda):
            return self.eval(node.body, pc, env)
        outs = self.exec_block(node.body, pc, env)
        rets = [o for o in outs if o.kind in ("ret", "fall")]
        raises = [o for o in outs if o.kind == "raise"]
        for o in raises:
            self.oblige(f"noraise@L{node.lineno}", o.pc, False, f"callee raises {o.exc}")
        if not rets:
            raise Unsupported("callee never returns")
        if len(rets) == 1:
            return rets[0].value
        # merge return values
        res = rets[-1].value
        for o in reversed(rets[:-1]):
            cond = z_and(*o.pc[len(pc):])
            res = z_ite(cond, o.value, res)
        return res

    def call_method(self, obj, attr, args, kwargs, pc, env, n=None):
        ln = getattr(n, "lineno", 0)
        key = f"{type(obj).__name__}.{attr}"
        if key in self.methods:
            return self.methods[key](self, pc, env, obj, args, kwargs)
        if isinstance(obj, Record):
            k2 = f"{obj.cls}.{attr}"
            if k2 in self.methods:
                return self.methods[k2](self, pc, env, obj, args, kwargs)
            if obj.cls in self.classes and self.classes[obj.cls].find(self, attr) is not None:
                return self.classes[obj.cls].call_method(self, obj, attr, args, kwargs, pc)
        if hasattr(obj, "hv_call_method"):
            r = obj.hv_call_method(self, attr, args, kwargs, pc, env)
            if r is not NotImplemented:
                return r
        if isinstance(obj, SymList):
            if attr == "append":
                obj.append(args[0])
                return None
            if attr == "remove" and len(args) == 1:
                x = to_z3(args[0])
                member = self.contains(obj, x)
                self.oblige(f"valueerror@L{ln}", pc, member, "list.remove(x): x must be in the list")
                p, i = fresh("rm", z3.IntSort()), fresh("ri", z3.IntSort())
                # p is the first position holding x (exists whenever x is a member; guarded so that other paths are not constrained)
                self.facts.append(z3.Implies(member, z3.And(p >= 0, p < obj.length, obj.at(p) == x, z3.ForAll([i], z3.Implies(z3.And(i >= 0, i < p), obj.at(i) != x)))))
                old_arr = obj.arr
                obj.arr = z3.Lambda([i], z3.If(i < p, z3.Select(old_arr, i), z3.Select(old_arr, i + 1)))
                obj.length = obj.length - 1
                return None
            if attr == "pop" and args and not is_sym(args[0]) and args[0] == 0:
                self.oblige(f"indexerror@L{ln}", pc, obj.length > 0, "pop from empty list")
                return obj.pop_first()
            if attr == "pop":
                if args and args[0] != -1:
                    raise Unsupported("pop at other index than -1 / 0")
                self.oblige(f"indexerror@L{ln}", pc, obj.length > 0, "pop from empty list")
                return obj.pop_last()
        if isinstance(obj, SymMap):
            if attr == "get":
                d = args[1] if len(args) > 1 else None
                if d is None:
                    raise Unsupported("SymMap.get with None default")
                return z_ite(obj.has(args[0]), obj.get(args[0]), d)
        if isinstance(obj, SymSet):
            if attr == "add":
                obj.add(args[0])
                return None
        if isinstance(obj, list):
            if attr == "append":
                obj.append(args[0])
                return None
            if attr == "extend":
                obj.extend(args[0])
                return None
        if isinstance(obj, dict):
            if attr == "get":
                k = args[0]
                d = args[1] if len(args) > 1 else None
                if is_sym(k):
                    res = d
                    for kk, vv in reversed(list(obj.items())):
                        res = z_ite(k == to_z3(kk), vv, res)
                    return res
                return obj.get(k, d)
            if attr == "items":
                return list(obj.items())
            if attr == "keys":
                return list(obj.keys())
            if attr == "values":
                return list(obj.values())
        if is_sym(obj) and attr == "item" and not args:
            return obj  # numpy scalar -> Python number: same mathematical value
        if isinstance(obj, (str, z3.SeqRef)):
            if attr == "startswith":
                return z3.PrefixOf(to_z3(args[0]), to_z3(obj)) if (is_sym(obj) or is_sym(args[0])) else obj.startswith(args[0])
            if attr == "endswith":
                return z3.SuffixOf(to_z3(args[0]), to_z3(obj)) if (is_sym(obj) or is_sym(args[0])) else obj.endswith(args[0])
            if attr == "replace" and not is_sym(obj):
                return obj.replace(*args)
            if attr == "join" and not is_sym(obj):
                return obj.join(args[0])
        if isinstance(obj, (set, frozenset, list, tuple, dict, str, int, float)) and _all_concrete(args) and _all_concrete(list(kwargs.values())) and _all_concrete([obj]):
            return getattr(obj, attr)(*args, **kwargs)  # plain Python on concrete data
        raise Unsupported(f"method {type(obj).__name__}.{attr} at line {ln}")


def _all_concrete(xs) -> bool:
    for x in xs:
        if isinstance(x, (str, int, float, bool, type(None))):
            continue
        if isinstance(x, (list, tuple, set, frozenset)):
            if not _all_concrete(list(x)):
                return False
            continue
        if isinstance(x, dict):
            if not _all_concrete(list(x.keys())) or not _all_concrete(list(x.values())):
                return False
            continue
        return False
    return True


class _Fork(Exception):
    def __init__(self, branches):
        self.branches = branches


class Raises:
    """Value of an expression alternative that raises `exc` instead of producing a value (only as a whole statement value)."""

    def __init__(self, exc: str):
        self.exc = exc

    def __deepcopy__(self, memo):
        return self


class Opaque:
    def __init__(self, what: str):
        self.what = what

    def __deepcopy__(self, memo):
        return self


_EXC_PARENTS = {"StopIteration": "Exception", "ValueError": "Exception", "TypeError": "Exception", "KeyError": "LookupError", "IndexError": "LookupError", "LookupError": "Exception",
                "AssertionError": "Exception", "ZeroDivisionError": "ArithmeticError", "ArithmeticError": "Exception", "NetworkXUnfeasible": "NetworkXException",
                "NetworkXException": "Exception", "Exception": "BaseException"}


def _exc_name(t) -> str:
    if isinstance(t, ast.Call):
        t = t.func
    if isinstance(t, ast.Name):
        return t.id
    if isinstance(t, ast.Attribute):
        return t.attr
    raise Unsupported("exception type expression")


def _handler_matches(t, exc: str) -> bool:
    if t is None:
        return True
    names = [_exc_name(e) for e in t.elts] if isinstance(t, ast.Tuple) else [_exc_name(t)]
    cur = exc
    seen = 0
    while cur and seen < 10:
        if cur in names:
            return True
        if cur not in _EXC_PARENTS and cur != "BaseException":
            raise Unsupported(f"exception class {cur} is not in the hierarchy table")
        cur = _EXC_PARENTS.get(cur)
        seen += 1
    return False


class SymIter:
    """iter(<SymList>): a position into the list; next() advances it or raises StopIteration."""

    def __init__(self, lst: "SymList", pos=0):
        self.lst = lst
        self.pos = pos

    def __deepcopy__(self, memo):
        return SymIter(copy.deepcopy(self.lst, memo), self.pos)


# ---------------------------------------------------------------------------------------------- misc value kinds


class TemplateStr:
    """Text with numbered holes standing for symbolic numbers: f"(ts >= {start}) and ..." ."""

    _n = 0

    def __init__(self, text: str, holes: Dict[str, Any]):
        self.text, self.holes = text, dict(holes)

    @classmethod
    def hole(cls, value):
        cls._n += 1
        k = f"__hole_{cls._n}__"
        return cls(k, {k: value})

    @classmethod
    def join(cls, parts):
        text, holes = "", {}
        for p in parts:
            if isinstance(p, TemplateStr):
                text += p.text
                holes.update(p.holes)
            elif isinstance(p, str):
                text += p
            else:
                raise Unsupported("template string mixed with a symbolic string")
        return cls(text, holes)

    def __deepcopy__(self, memo):
        return self

    def hv_binop(self, ex, op, other, reflected, pc):
        if isinstance(op, ast.Add) and isinstance(other, (str, TemplateStr)):
            return TemplateStr.join([other, self] if reflected else [self, other])
        raise Unsupported("operation on a template string")


class Guarded:
    """A list element that is present only when `cond` holds (from a comprehension with a symbolic filter)."""

    def __init__(self, cond, value):
        self.cond, self.value = cond, value

    def __deepcopy__(self, memo):
        return self


class Builtin:
    def __init__(self, name):
        self.name = name


class Closure:
    def __init__(self, node, env):
        self.node = node
        self.env = env

    def __deepcopy__(self, memo):
        return self


class BoundMethod:
    def __init__(self, obj, attr):
        self.obj, self.attr = obj, attr


class Namespace:
    """A module-like bag of names (e.g. `math`, `np`)."""

    def __init__(self, name, members):
        self.name, self.members = name, members

    def get(self, attr):
        if attr not in self.members:
            raise Unsupported(f"{self.name}.{attr}")
        return self.members[attr]

    def __deepcopy__(self, memo):
        return self


class EnumCls:
    def __init__(self, name: str, members: Dict[str, Any]):
        self.name = name
        self.members = members
        self.codes = {m: i for i, m in enumerate(members)}

    def member(self, attr):
        if attr not in self.members:
            raise Unsupported(f"enum member {self.name}.{attr}")
        return EnumVal(self.name, attr, self.codes[attr], self.members[attr])

    def __deepcopy__(self, memo):
        return self

    def domain(self, sym):
        return z3.And(sym >= 0, sym < len(self.members))


class EnumVal:
    def __init__(self, cls, name, code, value):
        self.cls, self.name, self.code, self.value = cls, name, code, value

    def __deepcopy__(self, memo):
        return self

    def __hash__(self):
        return hash((self.cls, self.name))

    def __eq__(self, o):
        return isinstance(o, EnumVal) and (self.cls, self.name) == (o.cls, o.name)

    def __repr__(self):
        return f"{self.cls}.{self.name}"


class RecordCtor:
    def __init__(self, cls: str, fields: List[str], defaults: Optional[Dict[str, Any]] = None, frozen=False):
        self.cls, self.fieldnames, self.defaults, self.frozen = cls, fields, defaults or {}, frozen

    def make(self, args, kwargs):
        vals = dict(self.defaults)
        for nm, v in zip(self.fieldnames, args):
            vals[nm] = v
        vals.update(kwargs)
        missing = [f for f in self.fieldnames if f not in vals]
        if missing:
            raise Unsupported(f"{self.cls}() missing {missing}")
        return Record(self.cls, {f: vals[f] for f in self.fieldnames}, self.frozen, list(self.fieldnames))

    def __deepcopy__(self, memo):
        return self


class SymSet:
    """dom: characteristic array; card: ghost cardinality (exact for sets built from empty() by add(); a fresh set has an
    unconstrained non-negative cardinality unless a contract says more)."""

    def __init__(self, ksort, name="set", dom=None, card=None):
        self.ksort = ksort
        self.dom = dom if dom is not None else fresh(name, z3.ArraySort(ksort, z3.BoolSort()))
        self.card = card if card is not None else fresh(name + "_card", z3.IntSort())

    @staticmethod
    def empty(ksort):
        return SymSet(ksort, dom=z3.K(ksort, z3.BoolVal(False)), card=z3.IntVal(0))

    def __deepcopy__(self, memo):
        return SymSet(self.ksort, dom=self.dom, card=self.card)

    def has(self, k):
        return z3.Select(self.dom, to_z3(k))

    def add(self, k):
        self.card = z3.If(self.has(k), self.card, self.card + 1)
        self.dom = z3.Store(self.dom, to_z3(k), z3.BoolVal(True))


# ---------------------------------------------------------------------------------------------- builtins


def _b_len(ex, pc, args, kw):
    v = args[0]
    if isinstance(v, (list, tuple, dict, set, str)):
        return len(v)
    if isinstance(v, SymList):
        return v.length
    if isinstance(v, z3.SeqRef):
        return z3.Length(v)
    if isinstance(v, SymSet):
        return v.card
    raise Unsupported(f"len of {type(v).__name__}")


def _b_iter(ex, pc, args, kw):
    if len(args) == 1 and isinstance(args[0], SymList):
        return SymIter(args[0], z3.IntVal(0))
    raise Unsupported("iter() of this value")


def _b_next(ex, pc, args, kw):
    if len(args) != 1 or not isinstance(args[0], SymIter):
        raise Unsupported("next() with a default / of this value")
    it = args[0]
    has = z3.And(to_z3(it.pos) >= 0, to_z3(it.pos) < it.lst.length)
    val = it.lst.at(it.pos)
    it.pos = z3.If(has, to_z3(it.pos) + 1, to_z3(it.pos))  # valid on both alternatives
    return PathValues([(has, val), (z3.Not(has), Raises("StopIteration"))])


def _b_minmax(is_max):
    def f(ex, pc, args, kw):
        xs = list(args[0]) if len(args) == 1 and isinstance(args[0], (list, tuple)) else list(args)
        if not any(is_sym(x) for x in xs):
            return max(xs) if is_max else min(xs)
        r = xs[0]
        for x in xs[1:]:
            r = z_ite((to_z3(x) > to_z3(r)) if is_max else (to_z3(x) < to_z3(r)), x, r)
        return r

    return f


def _b_abs(ex, pc, args, kw):
    x = args[0]
    if is_sym(x):
        return z3.If(x >= 0, x, -x)
    return abs(x)


def _b_int(ex, pc, args, kw):
    x = args[0]
    if isinstance(x, z3.BoolRef):
        return z3.If(x, 1, 0)
    if is_sym(x):
        if z3.is_int(x):
            return x
        if z3.is_real(x):
            # int() truncates toward zero
            return z3.If(x >= 0, z3.ToInt(x), -z3.ToInt(-x))
        raise Unsupported("int() of symbolic non-number")
    return int(x)


def _b_float(ex, pc, args, kw):
    x = args[0]
    if is_sym(x):
        return z3.ToReal(x) if z3.is_int(x) else x
    return float(x)


def _b_bool(ex, pc, args, kw):
    return truth(args[0])


def _b_isinstance(ex, pc, args, kw):
    raise Unsupported("isinstance needs a contract-level intrinsic")


def _b_range(ex, pc, args, kw):
    if any(is_sym(a) for a in args):
        return SymRange(*args)
    return range(*args)


def _b_enumerate(ex, pc, args, kw):
    v = args[0]
    if isinstance(v, (list, tuple)):
        return list(enumerate(v))
    return SymEnumerate(v)


def _b_tuple(ex, pc, args, kw):
    return tuple(args[0]) if args else ()


def _b_list(ex, pc, args, kw):
    if not args:
        return []
    if isinstance(args[0], (list, tuple, set, range)):
        return list(args[0])
    raise Unsupported("list() of symbolic")


def _b_set(ex, pc, args, kw):
    if not args:
        return set()
    if isinstance(args[0], (list, tuple, set)):
        return set(args[0])
    raise Unsupported("set() of symbolic")


def _b_hasattr(args):
    obj, attr = args
    if is_sym(obj) and attr == "item":
        return True  # a cell of a numeric column is a numpy scalar
    if isinstance(obj, (int, float, str, bool, list, tuple, dict, set)) and isinstance(attr, str):
        return hasattr(obj, attr)
    if isinstance(obj, Record) and isinstance(attr, str):
        return attr in obj.fields
    raise Unsupported("hasattr on this object")


def _b_str(ex, pc, args, kw):
    if is_sym(args[0]):
        if isinstance(args[0], z3.SeqRef):
            return args[0]
        raise Unsupported("str() of symbolic number")
    return str(args[0])


class SymComp:
    """[elt for target in L if cond] / [... in enumerate(L) ...] over a symbolic list L: kept lazy; supports truthiness
    (some position passes the condition) and membership (some passing position yields the item)."""

    def __init__(self, ex, node, gen, it, pc, env):
        self.ex, self.node, self.gen, self.pc, self.env = ex, node, gen, list(pc), dict(env)
        self.enumerated = isinstance(it, SymEnumerate)
        self.lst = it.inner if self.enumerated else it

    def __deepcopy__(self, memo):
        return self

    def at(self, i):
        x = self.lst.at(i)
        e2 = self.ex.assign(self.gen.target, (i, x) if self.enumerated else x, self.pc, self.env)
        cond = z_and(*[truth(self.ex.eval(c, self.pc, e2)) for c in self.gen.ifs])
        return cond, self.ex.eval(self.node.elt, self.pc, e2)

    def exists(self, body):
        i = fresh("li", z3.IntSort())
        c, e = self.at(i)
        return z3.Exists([i], z3.And(i >= 0, i < self.lst.length, to_z3(c), to_z3(body(e))))

    def hv_truth(self):
        return self.exists(lambda e: True)

    def hv_contains(self, ex, item):
        return self.exists(lambda e: to_z3(e) == to_z3(item))


def _b_sorted(ex, pc, args, kw):
    v = args[0]
    if kw or len(args) != 1:
        raise Unsupported("sorted() with key / reverse")
    if hasattr(v, "hv_sorted"):
        return v.hv_sorted(ex, pc)
    if isinstance(v, (list, tuple, set, frozenset)) and _all_concrete([v]):
        return sorted(v)
    raise Unsupported(f"sorted() of {type(v).__name__}")


class SymRange:
    def __init__(self, *a):
        self.args = a


class SymEnumerate:
    def __init__(self, inner):
        self.inner = inner


_BUILTINS: Dict[str, Callable] = {
    "len": _b_len,
    "max": _b_minmax(True),
    "min": _b_minmax(False),
    "abs": _b_abs,
    "int": _b_int,
    "float": _b_float,
    "bool": _b_bool,
    "isinstance": _b_isinstance,
    "range": _b_range,
    "enumerate": _b_enumerate,
    "tuple": _b_tuple,
    "list": _b_list,
    "set": _b_set,
    "str": _b_str,
    "hasattr": lambda ex, pc, args, kw: _b_hasattr(args),
    "iter": _b_iter,
    "sorted": _b_sorted,
    "next": _b_next,
    "object": lambda ex, pc, args, kw: (_ for _ in ()).throw(Unsupported("object()")),
}


def intrinsic(f):
    f._hv_intrinsic = True
    return f


# ---------------------------------------------------------------------------------------------- loop specs


class LoopSpec:
    """Cut-point treatment of `for x in <seq>` / `while c` with a side-car invariant.

    state_vars : names of the locals the loop body assigns (havocked); fresh_like(name, old_value) -> fresh value
    invariant  : callable(env, k) -> z3 Bool, where k is the number of completed iterations (ghost)
    elem       : callable(iterable, k) -> the k-th element (value bound to the loop target)
    length     : callable(iterable) -> z3 Int number of iterations
    """

    def __init__(self, state_vars: List[str], invariant: Callable, elem: Callable, length: Callable,
                 fresh_like: Optional[Callable] = None, name: str = "loop", elem_assume: Optional[Callable] = None,
                 allow_break: bool = False, unbound: Optional[Dict[str, Callable]] = None):
        self.allow_break = allow_break  # a `break` leaves the loop with the state of that path (sound without further conditions)
        self.unbound = unbound or {}  # state vars that may be unbound on entry: name -> factory of a fresh value of its type
        self.entry_env: Dict[str, Any] = {}
        self.state_vars = state_vars
        self.invariant = invariant
        self.elem = elem
        self.length = length
        self.fresh_like = fresh_like or default_fresh_like
        self.name = name
        self.elem_assume = elem_assume

    def havoc(self, env, count=None):
        env = copy.deepcopy(env)
        for v in self.state_vars:
            if v in env:
                if env.get("__bound__" + v, True) is not True:
                    raise Unsupported(f"loop state variable {v} may already be unbound on entry")
                env[v] = self.fresh_like(v, env[v])
            elif v in self.unbound:
                # not assigned before the loop: bound afterwards exactly when the body ran at least once
                env[v] = self.unbound[v]()
                env["__bound__" + v] = (count > 0) if count is not None else True
        return env

    def apply(self, ex: Exec, st: ast.For, it, pc, env, ordinal) -> List[Outcome]:
        n = self.length(it)
        tag = f"{self.name}#{ordinal}"
        self.entry_env = env
        # base
        env0 = env
        if any(v not in env for v in self.unbound):
            env0 = self.havoc_unbound_only(env)
        ex.oblige(f"{tag}.inv_base", pc, self.invariant(env0, z3.IntVal(0), it), "loop invariant holds on entry")
        # step
        k = fresh("k", z3.IntSort())
        env_h = self.havoc(env, k)
        pc_h = pc + [k >= 0, k < n, self.invariant(env_h, k, it)]
        x = self.elem(it, k)
        if self.elem_assume is not None:
            pc_h = pc_h + [self.elem_assume(it, k, x)]
        env_b = ex.assign(st.target, x, pc_h, env_h)
        outs: List[Outcome] = []
        for r in ex.exec_block(st.body, pc_h, env_b):
            if r.kind in ("fall", "continue"):
                ex.oblige(f"{tag}.inv_step", r.pc, self.invariant(r.env, k + 1, it), "loop invariant preserved by the body")
            elif r.kind == "break":
                if not self.allow_break:
                    raise Unsupported("break inside invariant loop")
                outs.append(Outcome("fall", r.pc, r.env))
            else:
                outs.append(r)
        # exit
        env_e = self.havoc(env, n)
        pc_e = pc + [n >= 0, self.invariant(env_e, n, it)]
        outs.append(Outcome("fall", pc_e, env_e))
        return outs

    def havoc_unbound_only(self, env):
        env = dict(env)
        for v, mk in self.unbound.items():
            if v not in env:
                env[v] = mk()
                env["__bound__" + v] = False
        return env

    def apply_while(self, ex: Exec, st: ast.While, pc, env, ordinal) -> List[Outcome]:
        raise Unsupported("while loops: use WhileSpec")


class WhileSpec:
    """Cut-point treatment of `while c:` with a side-car invariant over the environment; `break` leaves the loop with the
    state of that path, a false test leaves it with invariant and not c.  variant(env) -> z3 Int must be >= 0 under the
    invariant at the loop head and strictly decrease on every path that comes back to it (termination)."""

    def __init__(self, state_vars: List[str], invariant: Callable, variant: Optional[Callable] = None, fresh_like: Optional[Callable] = None, name: str = "while"):
        self.state_vars = state_vars
        self.invariant = invariant
        self.variant = variant
        self.fresh_like = fresh_like or default_fresh_like
        self.name = name

    def apply_while(self, ex: "Exec", st: ast.While, pc, env, ordinal) -> List[Outcome]:
        if st.orelse:
            raise Unsupported("while/else")
        tag = f"{self.name}#{ordinal}"
        ex.oblige(f"{tag}.inv_base", pc, self.invariant(env), "loop invariant holds on entry")
        env_h = copy.deepcopy(env)
        for v in self.state_vars:
            if v in env_h:
                env_h[v] = self.fresh_like(v, env_h[v])
        self.rebind(env_h)
        inv = self.invariant(env_h)
        pc_h = pc + [inv]
        outs: List[Outcome] = []
        v0 = self.variant(env_h) if self.variant else None
        if v0 is not None:
            ex.oblige(f"{tag}.variant_nonneg", pc_h, to_z3(v0) >= 0, "the termination measure is non-negative at the loop head")
        for pc2, env2, t in ex.eval_fork(st.test, pc_h, env_h):
            c = truth(t)
            if c is not True:
                pf = pc2 + [z_not(c)]
                if ex.feasible(pf):
                    outs.append(Outcome("fall", pf, copy.deepcopy(env2)))
            if c is False:
                continue
            pt = pc2 if c is True else pc2 + [c]
            for r in ex.exec_block(st.body, pt, env2):
                if r.kind in ("fall", "continue"):
                    ex.oblige(f"{tag}.inv_step", r.pc, self.invariant(r.env), "loop invariant preserved by the body")
                    if v0 is not None:
                        ex.oblige(f"{tag}.variant_decreases", r.pc, to_z3(self.variant(r.env)) < to_z3(v0), "the termination measure decreases")
                elif r.kind == "break":
                    outs.append(Outcome("fall", r.pc, r.env))
                else:
                    outs.append(r)
        return outs

    def rebind(self, env) -> None:
        """hook: re-establish aliasing between havocked values (e.g. an attribute of self and a local)"""


def default_fresh_like(name, old):
    if isinstance(old, bool):
        return fresh(name, z3.BoolSort())
    if isinstance(old, int):
        return fresh(name, z3.IntSort())
    if isinstance(old, float):
        return fresh(name, z3.RealSort())
    if isinstance(old, z3.ExprRef):
        return fresh(name, old.sort())
    if isinstance(old, SymList):
        return SymList(old.sort, name)
    if isinstance(old, SymMap):
        return SymMap(old.ksort, old.vsort, name)
    if isinstance(old, SymSet):
        return SymSet(old.ksort, name)
    if isinstance(old, SymIter):
        return SymIter(old.lst, fresh(name + "_pos", z3.IntSort()))
    if isinstance(old, Record):
        return Record(old.cls, {k: default_fresh_like(f"{name}_{k}", v) for k, v in old.fields.items()}, old.frozen, list(old.order))
    if isinstance(old, tuple):
        return tuple(default_fresh_like(f"{name}_{i}", v) for i, v in enumerate(old))
    raise Unsupported(f"cannot havoc {name}: {type(old).__name__}")


# ---------------------------------------------------------------------------------------------- result merging


def merged_return(outs: List[Outcome], base_pc_len: int = 0):
    """Merge the 'ret' outcomes of a function into one value (ite chain) plus the condition under which it raises."""
    rets = [o for o in outs if o.kind == "ret"]
    raises = [o for o in outs if o.kind == "raise"]
    raise_cond = z_or(*[z_and(*o.pc[base_pc_len:]) for o in raises]) if raises else False
    if not rets:
        return None, raise_cond
    res = rets[-1].value
    for o in reversed(rets[:-1]):
        res = z_ite(z_and(*o.pc[base_pc_len:]), o.value, res)
    return res, raise_cond


# ---------------------------------------------------------------------------------------------- inlining helper


def inline_function(fn_node: ast.FunctionDef, on_raise: Optional[Callable] = None):
    """Intrinsic that symbolically executes `fn_node` in the caller's Exec (same consts / intrinsics) and merges the
    returned values.  Paths that raise are reported through on_raise(pc, exc) (default: obligation of absence)."""

    @intrinsic
    def _call(ex: Exec, pc, env, args, kwargs):
        names = [p.arg for p in fn_node.args.posonlyargs + fn_node.args.args]
        a = dict(zip(names, args))
        a.update(kwargs)
        saved = ex._loop_ordinal
        outs = ex.run_function(fn_node, a, pc)
        ex._loop_ordinal = saved
        rets = [o for o in outs if o.kind == "ret"]
        for o in outs:
            if o.kind == "raise":
                if on_raise is not None:
                    on_raise(o.pc, o.exc)
                else:
                    ex.oblige(f"noraise:{fn_node.name}", o.pc, False, f"{fn_node.name} raises {o.exc}")
        if not rets:
            raise Unsupported(f"{fn_node.name} never returns")
        res = rets[-1].value
        for o in reversed(rets[:-1]):
            res = z_ite(z_and(*o.pc[len(pc):]), o.value, res)
        return res

    return _call


class ClassModel:
    """A class of the repository, by its AST: instantiation runs __init__ symbolically on a fresh Record; method calls run
    the method body (looked up through the bases that are registered in ex.classes)."""

    def __init__(self, name: str, node: ast.ClassDef):
        self.name = name
        self.node = node
        self.methods = {st.name: st for st in node.body if isinstance(st, ast.FunctionDef)}
        self.bases = [b.id for b in node.bases if isinstance(b, ast.Name)]

    def __deepcopy__(self, memo):
        return self

    def find(self, ex: "Exec", meth: str):
        if meth in self.methods:
            return self.methods[meth]
        for b in self.bases:
            if b in ex.classes:
                r = ex.classes[b].find(ex, meth)
                if r is not None:
                    return r
        return None

    def instantiate(self, ex: "Exec", args, kwargs, pc):
        obj = Record(self.name, {})
        init = self.find(ex, "__init__")
        if init is not None:
            self._run(ex, init, obj, args, kwargs, pc)
        return obj

    def call_method(self, ex: "Exec", obj, meth, args, kwargs, pc):
        fn = self.find(ex, meth)
        if fn is None:
            raise Unsupported(f"{self.name}.{meth} not found")
        return self._run(ex, fn, obj, args, kwargs, pc)

    def _run(self, ex: "Exec", fn, obj, args, kwargs, pc):
        names = [p.arg for p in fn.args.posonlyargs + fn.args.args]
        a = {names[0]: obj}
        for nm, v in zip(names[1:], args):
            a[nm] = v
        a.update(kwargs)
        saved = ex._loop_ordinal
        outs = ex.run_function(fn, a, pc)
        ex._loop_ordinal = saved
        rets = [o for o in outs if o.kind == "ret"]
        for o in outs:
            if o.kind == "raise":
                ex.raised.append((o.pc, o.exc, f"{self.name}.{fn.name}"))
        if not rets:
            raise Unsupported(f"{self.name}.{fn.name} never returns")
        if len(rets) == 1:
            return rets[0].value
        return PathValues([(z_and(*o.pc[len(pc):]), o.value) for o in rets])


class PathValues:
    """Several (condition, value) alternatives of non-mergeable values (e.g. data frames) returned by a callee."""

    def __init__(self, alts):
        self.alts = alts
