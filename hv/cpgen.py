"""Generator of causally consistent traces for the critical-path properties (C08-C10, C19, C20).

Causal consistency: a device activity starts no earlier than its launch call starts; a synchronising host call returns
no earlier than the activities it waits for; activities of one stream do not overlap.  Host events are laminar.
"""
from __future__ import annotations

import random
from typing import Any, Dict, List

from . import synth


def gen_cp_events(seed: int, n_steps: int = 2, n_streams: int = 2, sync_records: bool = True, q: int = 5, base: int = 1_000_000, annotations: bool = False,
                  n_threads: int = 1, frac_kernels: bool = False, python_frames: bool = False, old_nccl: bool = False) -> List[Dict[str, Any]]:
    """n_threads=2 adds a second host thread (larger tid) whose operators run concurrently with the main thread's inside
    every step and launch kernels on a stream of their own; kernels that a device-wide synchronisation of the main thread
    would have to wait for beyond its return are not generated (causal consistency)."""
    import math

    rng = random.Random(seed)
    evs: List[Dict[str, Any]] = []
    corr = [500]
    streams = [7 + 2 * i for i in range(n_streams)]
    free = {s: base for s in streams}
    last_end = {s: base for s in streams}
    kernels: List[Dict[str, Any]] = []

    def nc():
        corr[0] += 1
        return corr[0]

    def region(name, ts, dur):
        if python_frames:
            # a Python stack frame (with_stack=True) instead of a user annotation: also an event without graph nodes; its display name
            # shortens to the empty string / looks like a missing value when written to CSV
            nm = {"my_region": "<built-in method run_backward of torch._C._EngineBase object at 0x7f5c2c1d3a90>", "my_other_region": "None"}.get(name, name)
            return {"ph": "X", "cat": "python_function", "name": nm, "pid": synth.HOST_PID, "tid": 1, "ts": ts, "dur": dur}
        return synth.annotation(name, ts, dur)

    t = base
    evs.append(synth.host_op("aten::first_op", t, q))
    t += q
    for step in range(n_steps):
        s0 = t
        body: List[Dict[str, Any]] = []
        t += q * rng.randint(0, 1)
        for _ in range(rng.randint(2, 4)):
            kind = rng.random()
            if kind < 0.2 and kernels:
                # synchronising call (top level)
                if rng.random() < 0.5:
                    st = rng.choice(streams)
                    wait_end = last_end[st]
                    name, rec, rstream = "cudaStreamSynchronize", "Stream Sync", st
                else:
                    wait_end = max(last_end.values())
                    name, rec, rstream = "cudaDeviceSynchronize", "Context Sync", -1
                end = max(t + q, math.ceil(wait_end) + rng.choice([0, 0, q]))  # timestamps stay whole numbers also when kernel durations are fractional
                c = nc()
                body.append(synth.launch(t, end - t, c, name=name))
                if sync_records:
                    body.append({"ph": "X", "cat": "cuda_sync", "name": rec, "pid": 0, "tid": rstream if rstream > 0 else 0, "ts": t, "dur": end - t,
                                 "args": {"correlation": c, "stream": rstream}})
                t = end + q * rng.randint(0, 1)
                continue
            d = q * rng.randint(3, 8)
            op = synth.host_op(rng.choice(["aten::mm", "aten::add", "aten::linear", "aten::conv2d"]), t, d)
            body.append(op)
            inner_t0, inner_t1 = t + (0 if rng.random() < 0.3 else q), t + d - (0 if rng.random() < 0.3 else q)
            ann_mode = rng.choice(["whole", "first_child_only", "second_child_only", "each_child_its_own"]) if (annotations and rng.random() < 0.6) else None
            if ann_mode == "whole" and inner_t1 - inner_t0 >= 3 * q:
                body.append(region("my_region", inner_t0, inner_t1 - inner_t0))
            if (rng.random() < 0.5 or ann_mode in ("first_child_only", "second_child_only", "each_child_its_own")) and inner_t1 - inner_t0 >= 3 * q:
                mid = inner_t0 + q * rng.randint(1, max(1, (inner_t1 - inner_t0) // q - 2))
                if ann_mode in ("first_child_only", "each_child_its_own"):
                    body.append(region("my_region", inner_t0, mid - inner_t0))  # encloses inner_a only
                body.append(synth.host_op("aten::inner_a", inner_t0, mid - inner_t0))
                launch_zone = (inner_t0, mid)
                b0 = mid + q * rng.randint(0, 1)
                if inner_t1 - b0 >= q and (rng.random() < 0.7 or ann_mode is not None):
                    if ann_mode in ("second_child_only", "each_child_its_own") and inner_t1 - b0 >= 2 * q:
                        # an annotation around the SECOND child only: it starts after the first child has ended, with a gap before it
                        body.append(region("my_other_region", b0 + q, inner_t1 - b0 - q))
                        body.append(synth.host_op("aten::inner_b", b0 + q, inner_t1 - b0 - q))
                    else:
                        body.append(synth.host_op("aten::inner_b", b0, inner_t1 - b0))
            else:
                launch_zone = (inner_t0, inner_t1)
            if launch_zone[1] - launch_zone[0] >= 2 * q and (rng.random() < 0.85 or not kernels):
                lts = launch_zone[0] + q * rng.randint(0, (launch_zone[1] - launch_zone[0]) // q - 2)
                ldur = q * rng.randint(1, 1 + (launch_zone[1] - lts) // q - 1)
                ldur = min(ldur, launch_zone[1] - lts)
                is_cpy = rng.random() < 0.2
                c = nc()
                body.append(synth.launch(lts, ldur, c, name="cudaMemcpyAsync" if is_cpy else "cudaLaunchKernel"))
                st = rng.choice(streams)
                kts = max(free[st], lts + q * rng.randint(0, 3))
                kdur = q * rng.randint(1, 8)
                if frac_kernels and rng.random() < 0.6:
                    kdur -= rng.choice([0.25, 0.5, 0.75])  # whole-number timestamps, fractional durations: the loader rounds nothing
                if is_cpy:
                    k = synth.memcpy("Memcpy HtoD (Pageable -> Device)", kts, kdur, st, c, bw=3.5)
                else:
                    k = synth.kernel(rng.choice(["void gemm_kernel", "ncclKernel_AllReduce_RING_LL_Sum_float", "void elementwise_kernel"] +
                                                (["ncclAllReduceRingLLKernel_sum_f32(ncclColl)", "ncclBroadcastRingLLKernel_copy_i8(ncclColl)", "void ncclKernel_AllReduce_RING_LL_Sum<float, 4>(ncclWork*)"] if old_nccl else [])), kts, kdur, st, c)  # NCCL 2.4-2.7 naming
                kernels.append(k)
                free[st] = math.ceil(kts + kdur) + q * rng.randint(0, 2)
                last_end[st] = kts + kdur
            t += d + q * rng.randint(0, 2)
        e0 = t
        if n_threads > 1 and e0 - s0 >= 8 * q:
            # second host thread: starts inside the step before the main thread's last operator ends
            tid2, st2 = 5, 7 + 2 * n_streams + 4
            free.setdefault(st2, base)
            dev_syncs = [(e["ts"], e["ts"] + e["dur"]) for e in body if e.get("name") == "cudaDeviceSynchronize"]
            t2 = s0 + q * rng.randint(1, 2)
            while t2 + 3 * q <= e0 - q:
                d2 = min(q * rng.randint(3, 6), e0 - q - t2)
                body.append(synth.host_op(rng.choice(["autograd::engine::evaluate_function: MmBackward0", "aten::mul", "aten::sum"]), t2, d2, tid=tid2))
                if rng.random() < 0.7 and d2 >= 3 * q:
                    lts, ldur = t2 + q, q
                    kts = max(free[st2], lts + q * rng.randint(0, 2))
                    kdur = q * rng.randint(1, 4)
                    if not any(lts < b and kts + kdur > b for a, b in dev_syncs):  # launched before the sync returns => must be over when it returns
                        c = nc()
                        body.append(synth.launch(lts, ldur, c, tid=tid2))
                        kernels.append(synth.kernel("void elementwise_kernel", kts, kdur, st2, c))
                        free[st2] = kts + kdur + q * rng.randint(0, 1)
                t2 += d2 + q * rng.randint(0, 2)
        evs.append(synth.profiler_step(20 + step, s0, e0 - s0))
        evs.extend(body)
        t = e0 + q * rng.randint(0, 1)
    for k in kernels:
        evs.insert(rng.randint(1, len(evs)), k)
    if seed % 2 == 0:
        # let an operator with two children be the first event of the file (event id 0), instead of the small leading op
        for i, e in enumerate(evs):
            if e.get("name") == "aten::inner_b":
                owner = max((j for j in range(i) if evs[j].get("cat") == "cpu_op" and evs[j]["name"].startswith("aten::") and not evs[j]["name"].startswith("aten::inner")
                             and evs[j]["ts"] <= e["ts"] and e["ts"] + e["dur"] <= evs[j]["ts"] + evs[j]["dur"]), default=None)
                if owner is not None:
                    op = evs.pop(owner)
                    evs.pop(0)
                    evs.insert(0, op)
                    break
    return evs
