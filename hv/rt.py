"""Run-time helpers for the bounded stand-in: scratch directories, loading through the public API, parallel sweeps."""
from __future__ import annotations

import contextlib
import logging
import multiprocessing as mp
import os
import shutil
import tempfile
import traceback
from typing import Any, Callable, Dict, Iterable, List, Optional

from . import synth


def quiet() -> None:
    logging.disable(logging.CRITICAL)
    import warnings

    warnings.filterwarnings("ignore")
    os.environ.setdefault("PYTHONWARNINGS", "ignore")


@contextlib.contextmanager
def trace_dir(per_rank_events: Dict[int, List[Dict[str, Any]]], gz: bool = False, names: Optional[Dict[int, str]] = None):
    d = tempfile.mkdtemp(prefix="hv_trace_")
    try:
        for rank, events in per_rank_events.items():
            fn = (names or {}).get(rank, f"rank_{rank}.json" + (".gz" if gz else ""))
            synth.write_doc(os.path.join(d, fn), synth.trace_doc(events, rank=rank, world_size=len(per_rank_events)))
        yield d
    finally:
        shutil.rmtree(d, ignore_errors=True)


def load_analysis(d: str, **kw):
    from hta.trace_analysis import TraceAnalysis

    return TraceAnalysis(trace_dir=d, **kw)


def load_trace(d: str, load: bool = True, **kw):
    from hta.common.trace import Trace

    t = Trace(trace_dir=d)
    if load:
        t.load_traces(**kw)
    else:
        t.parse_traces(**{k: v for k, v in kw.items() if k in ("use_multiprocessing", "use_memory_profiling")})
    return t


_FN: Optional[Callable[[Any], Dict[str, Any]]] = None


def _call(arg):
    quiet()
    try:
        import contextlib, io

        with contextlib.redirect_stdout(io.StringIO()):  # the library prints progress text
            return _FN(arg)
    except Exception as e:  # an exception in the harness itself is a checker crash, not a violation
        return {"harness_error": f"{type(e).__name__}: {e}", "trace": traceback.format_exc()[-1500:], "arg": repr(arg)[:300]}


def pmap(fn: Callable[[Any], Dict[str, Any]], args: Iterable[Any], procs: int = 16) -> List[Dict[str, Any]]:
    """fork-based parallel map (fn may be a closure; results must be picklable)."""
    global _FN
    _FN = fn
    args = list(args)
    if not args:
        return []
    if procs <= 1 or os.environ.get("HV_SERIAL"):
        return [_call(a) for a in args]
    # ProcessPoolExecutor workers are not daemonic, so the library under test may start its own process pools
    from concurrent.futures import ProcessPoolExecutor

    with ProcessPoolExecutor(max_workers=min(procs, len(args)), mp_context=mp.get_context("fork")) as pool:
        return list(pool.map(_call, args, chunksize=max(1, len(args) // (procs * 4))))


def summarise(results: List[Dict[str, Any]], what_prefix: str, scope: str, max_fail: int = 5) -> Dict[str, Any]:
    """Fold per-case results {n_checks, fails:[{what,input,observed,expected}], sample, nontrivial} into a bounded-stage record."""
    out = {"evaluations": 0, "distinct": 0, "failures": [], "scope": scope, "samples": [], "contract_evaluations": {}}
    errs = [r for r in results if "harness_error" in r]
    if errs:
        raise RuntimeError("bounded harness error: " + errs[0]["harness_error"] + "\n" + errs[0].get("trace", ""))
    for r in results:
        out["evaluations"] += r.get("n_checks", 1)
        out["distinct"] += 1 if r.get("nontrivial", True) else 0
        for k, v in r.get("clauses", {}).items():
            out["contract_evaluations"][k] = out["contract_evaluations"].get(k, 0) + v
        if r.get("sample") is not None and len(out["samples"]) < 2:
            out["samples"].append(r["sample"])
        for f in r.get("fails", []):
            if len(out["failures"]) < max_fail:
                f = dict(f)
                f["what"] = what_prefix + "." + f.get("what", "clause")
                out["failures"].append(f)
    return out


class LibFailure(Exception):
    pass


def lib(fails: List[Dict[str, Any]], what: str, inp: Any, fn: Callable, *a, **kw):
    """Run a call into the library under test: an exception it raises on a valid input is a property failure (recorded in
    `fails`, LibFailure raised to abandon the case), not a harness error."""
    allow = kw.pop("_allow", ())
    try:
        return fn(*a, **kw)
    except Exception as e:
        if allow and isinstance(e, allow):
            raise
        fails.append({"what": what + ".raises", "input": inp, "observed": f"{type(e).__name__}: {e}", "expected": "no exception on a valid input",
                      "trace": traceback.format_exc()[-800:]})
        raise LibFailure()
