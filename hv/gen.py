"""Seeded generator of small well-formed, causally consistent Kineto-style traces for the bounded stand-in.

Nothing here looks at /repo.  A generated rank is a list of event dicts in file order (event id = position).
Knobs favour the situations unit tests do not sample: equal timestamps, touching spans, identical spans, zero-length
events, missing counterparts, several host threads and streams, events before the first / after the last profiler step.
"""
from __future__ import annotations

import random
from typing import Any, Dict, List, Optional, Tuple

from . import synth

KERNEL_NAMES = [
    "void gemm_kernel_a", "void elementwise_kernel_b", "ncclKernel_AllReduce_RING_LL_Sum_float", "ncclDevKernel_AllGather_RING",
    "void at::native::vectorized_elementwise_kernel", "Memset (Device)", "void softmax_warp_forward",
    "void cutlass::Kernel<cutlass_80_tensorop_s1688gemm_128x128_nn>(cutlass::Params)",  # its short name differs from the long one
]
MEMCPY_NAMES = ["Memcpy HtoD (Pageable -> Device)", "Memcpy DtoH (Device -> Pinned)", "Memcpy DtoD (Device -> Device)"]
OP_NAMES = ["aten::mm", "aten::add", "aten::copy_", "aten::relu", "autograd::engine::evaluate_function: AddBackward0", "aten::linear"]


class Opts:
    def __init__(self, **kw):
        self.n_threads = 1
        self.n_top = 3  # top-level ops per thread per step
        self.max_depth = 3
        self.n_streams = 2
        self.steps = 2  # number of ProfilerStep annotations (0 = none)
        self.grid = 5  # time quantum; coarse => many ties
        self.p_launch = 0.5
        self.p_zero = 0.1  # zero-duration host events
        self.p_zero_kernel = 0.05
        self.p_missing_kernel = 0.05  # launch without kernel
        self.p_orphan_kernel = 0.03  # kernel without launch (correlation without host side)
        self.p_memcpy = 0.15
        self.p_sync = 0.1
        self.p_same_ts_kernel = 0.15  # kernel starts exactly at its launch ts
        self.overlap_streams = True
        self.base = 1_000_000
        self.before_first = True
        self.after_last = True
        self.fractional = False
        self.min_launch_q = 0  # minimal launch-call duration in quanta (0 allows zero-duration runtime calls)
        self.bwd_thread = False
        # knobs added after the second round of seeded changes (inputs the property quantifies over but the generator never drew)
        self.only_kernel_type = None  # "compute" | "comm": every kernel of the rank is of that one type (no copies), overlapping across streams
        self.p_skew = 0.0  # device activity starts BEFORE its launch call (clock skew between host and device timestamps)
        self.p_other_launch = 0.0  # the linked host call is a launch outside the usual names (cudaGraphLaunch, cudaLaunchCooperativeKernel, cudaMemcpy, cudaMemset)
        self.steps_out_of_file_order = False  # ProfilerStep annotations are written after the operators, latest first
        self.n_extra_ops = None  # number of run-specific operator names (None: 0-3); large values give a wide vocabulary
        self.p_dual_cat = 0.0  # an operator name also occurs as a user_annotation (same name, two categories)
        self.corr_zero_index = None  # n: the n-th correlation id handed out on rank 0 is 0
        self.corr_start = 100  # correlation ids are counted from corr_start + 1 (-1: the first pair of the file carries id 0, as runs numbered from 0 do)
        self.main_tid = 1  # thread id of the thread holding the profiler steps
        self.other_tids_below = False  # the other host threads get SMALLER ids than the main thread (their call stacks are then built first)
        self.step_base = 10  # number of the first ProfilerStep annotation (9 makes the numbers cross a digit boundary: 9, 10, 11)
        self.p_orphan_no_corr = 0.0  # an orphan device activity carries no correlation id at all (the loader stores -1)
        self.first_op_in_step = False  # the first event of the file (a host operator) lies inside the first profiler step, so event id 0 carries an iteration number
        self.p_frac_kernel_dur = 0.0  # device activities whose duration is not a whole number while every timestamp is (the loader rounds only files with fractional timestamps)
        self.noncomplete_events = True  # False: every entry of the file has a duration, so the loader stores `dur` (and ids) in the narrowest integer type
        self.distinct_corr_per_rank = True  # False: every rank counts its correlation ids from the same start (per-process counters, as real traces do)
        self.__dict__.update(kw)


def gen_rank(rng: random.Random, o: Opts, rank: int = 0) -> List[Dict[str, Any]]:
    q = o.grid
    evs: List[Dict[str, Any]] = []
    # a few run-specific operator names: they change the iteration order of the symbol set, hence which symbol gets id 0
    extra_ops = [f"aten::op_{rng.randint(0, 10**6)}" for _ in range(rng.randint(0, 3) if o.n_extra_ops is None else o.n_extra_ops)]
    op_names = OP_NAMES + extra_ops
    if o.n_extra_ops and o.n_extra_ops > 20:
        op_names = extra_ops + OP_NAMES  # wide vocabulary: the run-specific names dominate
    kernel_names = KERNEL_NAMES
    if o.only_kernel_type == "compute":
        kernel_names = [k for k in KERNEL_NAMES if not k.startswith("nccl") and not k.startswith("Mem")]
    elif o.only_kernel_type == "comm":
        kernel_names = [k for k in KERNEL_NAMES if k.startswith("nccl")]
    corr = [o.corr_start + (10_000 * rank if o.distinct_corr_per_rank else 0)]
    stream_free = {7 + s: o.base for s in range(o.n_streams)}
    kernels: List[Dict[str, Any]] = []

    ncalls = [0]

    def new_corr():
        ncalls[0] += 1
        if o.corr_zero_index is not None and ncalls[0] == o.corr_zero_index and rank == 0:
            return 0  # one pair somewhere in the middle of the file carries correlation id 0 (ids need not be handed out in time order)
        corr[0] += 1
        return corr[0]

    def maybe_launch(t0: int, t1: int, tid: int, out: List[Dict[str, Any]]):
        """a runtime call inside [t0, t1] plus its device activity"""
        if t1 - t0 < q:
            return
        lts = t0 + q * rng.randint(0, max(0, (t1 - t0) // q - 1))
        ldur = min(q * rng.randint(o.min_launch_q, 2), t1 - lts)
        c = new_corr()
        r = rng.random()
        if r < o.p_sync:
            # a blocking sync call: ends after everything launched so far
            end = max([lts + ldur] + [k["ts"] + k["dur"] for k in kernels])
            end = min(max(end, lts), t1) if end <= t1 else end
            name = rng.choice(["cudaDeviceSynchronize", "cudaStreamSynchronize"])
            out.append(synth.launch(lts, max(0, min(end, t1) - lts), c, tid=tid, name=name))
            return
        is_cpy = rng.random() < o.p_memcpy and o.only_kernel_type is None
        lname = "cudaMemcpyAsync" if is_cpy else rng.choice(["cudaLaunchKernel", "cudaLaunchKernel", "cudaLaunchKernelExC"])
        if rng.random() < o.p_other_launch:
            lname = rng.choice(["cudaMemcpy", "cudaMemset"]) if is_cpy else rng.choice(["cudaGraphLaunch", "cudaLaunchCooperativeKernel"])
        out.append(synth.launch(lts, ldur, c, tid=tid, name=lname))
        if rng.random() < o.p_missing_kernel:
            return
        s = rng.choice(sorted(stream_free))
        kts = max(stream_free[s], lts if rng.random() < o.p_same_ts_kernel else lts + q * rng.randint(0, 3))
        if rng.random() < o.p_skew:
            kts = max(stream_free[s], lts - q * rng.randint(1, 2))  # skewed device clock: may precede the launch call
        kdur = 0 if rng.random() < o.p_zero_kernel else q * rng.randint(1, 6)
        if kdur and rng.random() < o.p_frac_kernel_dur:
            kdur -= rng.choice([0.25, 0.5, 0.75])  # shorter, so that activities of one stream still do not overlap
        if is_cpy:
            k = synth.memcpy(rng.choice(MEMCPY_NAMES), kts, kdur, s, c, nbytes=1024 * rng.randint(1, 64), bw=round(rng.uniform(0.5, 20.0), 3))
        else:
            k = synth.kernel(rng.choice(kernel_names), kts, kdur, s, c)
        kernels.append(k)
        stream_free[s] = -(-(kts + kdur) // 1) + (0 if rng.random() < 0.3 else q * rng.randint(0, 2))  # ceil: timestamps stay whole numbers when a duration is fractional
        if isinstance(stream_free[s], float):
            stream_free[s] = int(stream_free[s])

    def fill(t0: int, t1: int, depth: int, tid: int, out: List[Dict[str, Any]]):
        """laminar children inside [t0, t1]"""
        t = t0
        while t < t1:
            if rng.random() < 0.25:
                t += q * rng.randint(0, 2)
                continue
            if rng.random() < o.p_zero:
                out.append(synth.host_op(rng.choice(op_names), t, 0, tid=tid))
                if rng.random() < 0.5:
                    t += q
                continue
            d = min(q * rng.randint(1, 6), t1 - t)
            if d <= 0:
                break
            op = synth.host_op(rng.choice(op_names), t, d, tid=tid)
            out.append(op)
            if rng.random() < o.p_dual_cat:
                out.append(synth.host_op(op["name"], t, d, tid=tid, cat="user_annotation"))  # same name recorded under a second category
            if depth < o.max_depth and rng.random() < 0.6:
                # children may share start / end with the parent
                c0 = t + (0 if rng.random() < 0.4 else q * rng.randint(0, 1))
                c1 = t + d - (0 if rng.random() < 0.4 else q * rng.randint(0, 1))
                if c1 > c0:
                    fill(c0, c1, depth + 1, tid, out)
            elif rng.random() < o.p_launch:
                maybe_launch(t, t + d, tid, out)
            if rng.random() < 0.2 and depth < o.max_depth:
                out.append(synth.host_op(rng.choice(op_names), t, d, tid=tid))  # identical span, later in file
            t += d  # touching siblings are frequent

    t = o.base
    step_len = q * 12 * max(1, o.n_top)
    main_tid = o.main_tid
    # first event of the file must be a host operator (WF4)
    evs.append(synth.host_op("aten::first_op", t, q, tid=main_tid))
    t += q
    if o.before_first and o.steps > 0 and not o.first_op_in_step:
        fill(t, t + step_len // 2, 1, main_tid, evs)
        t += step_len // 2
    nsteps = max(o.steps, 1)
    for s in range(nsteps):
        start = o.base if (s == 0 and o.first_op_in_step) else t
        end = t + step_len
        if o.steps > 0:
            evs.append(synth.profiler_step(o.step_base + s, start, end - start, tid=main_tid))
        fill(start, end, 1, main_tid, evs)
        for th in range(1, o.n_threads):
            fill(start + q, end - q, 1, (main_tid - th) if o.other_tids_below else (main_tid + th), evs)
        t = end + (0 if rng.random() < 0.5 else q * rng.randint(0, 2))
    if o.after_last and o.steps > 0:
        fill(t, t + step_len // 2, 1, main_tid, evs)
    # orphan kernels (no host side)
    for _ in range(2):
        if rng.random() < o.p_orphan_kernel * 5:
            s = rng.choice(sorted(stream_free))
            kernels.append(synth.kernel(rng.choice(kernel_names), stream_free[s] + q, q * rng.randint(1, 3), s, new_corr()))
            stream_free[s] = kernels[-1]["ts"] + kernels[-1]["dur"]
            if rng.random() < o.p_orphan_no_corr:
                del kernels[-1]["args"]["correlation"]
    if o.steps_out_of_file_order and o.steps > 1:
        steps_ev = [e for e in evs if str(e.get("name", "")).startswith("ProfilerStep#")]
        evs = [e for e in evs if e not in steps_ev] + list(reversed(steps_ev))
    # interleave kernels into the file in a random but stable way (file order != time order)
    for k in kernels:
        pos = rng.randint(1, len(evs))
        evs.insert(pos, k)
    # some non-complete events which must be ignored by the loader
    if o.noncomplete_events:
        evs.insert(rng.randint(1, len(evs)), {"ph": "M", "name": "process_name", "pid": synth.HOST_PID, "tid": 0, "ts": 0, "args": {"name": "python"}})
        evs.insert(rng.randint(1, len(evs)), {"ph": "i", "name": "marker", "pid": synth.HOST_PID, "tid": 1, "ts": o.base + q, "s": "t", "cat": "instant"})
    evs.append({"ph": "X", "cat": "Trace", "name": "PyTorch Profiler (0)", "pid": synth.HOST_PID, "tid": 1, "ts": o.base, "dur": t - o.base})
    if o.fractional:
        for e in evs:
            if "dur" in e:
                e["ts"] = e["ts"] + rng.choice([0.0, 0.25, 0.5, 0.75])
                e["dur"] = e["dur"] + rng.choice([0.0, 0.25, 0.5])
    return evs


def gen_trace_set(seed: int, n_ranks: int = 1, **kw) -> Dict[int, List[Dict[str, Any]]]:
    rng = random.Random(seed)
    o = Opts(**kw)
    if "noncomplete_events" not in kw:
        # every third seed: a file whose entries all carry a duration (the loader then keeps `dur`, ids and links in the
        # narrowest integer types instead of float64 - a different storage class for every analysis)
        o.noncomplete_events = seed % 3 != 0
    if "corr_start" not in kw and "corr_zero_index" not in kw and seed % 5 == 4:
        # every fifth seed: one host call / device activity pair carries correlation id 0 (a legitimate id) - the first pair of the file or a later one
        if seed % 2:
            o.corr_start = -1
        else:
            o.corr_zero_index = 3 + seed % 4
    out = {}
    for r in range(n_ranks):
        o2 = Opts(**dict(o.__dict__))
        o2.base = o.base + r * 137 * o.grid
        out[r] = gen_rank(rng, o2, r)
    return out


def complete_events(events: List[Dict[str, Any]]) -> List[Tuple[int, Dict[str, Any]]]:
    """(file position, event) of the entries the loader must keep: a duration, a category, category != 'Trace'."""
    return [(i, e) for i, e in enumerate(events) if e.get("dur") is not None and e.get("cat") is not None and e.get("cat") != "Trace"]


def wide_narrow_set(seed: int, **kw) -> Dict[int, List[Dict[str, Any]]]:
    """Two ranks of one job whose vocabularies differ in size: rank 0 carries 200 operator names of its own (and launches kernels through
    cudaLaunchKernel only), rank 1 is a small file whose entries all have a duration (the loader then stores its ids in the narrowest integer
    type) and which uses names rank 0 never uses - so rank 1's symbols get trace-wide ids beyond 127 when the ranks are merged."""
    r0 = gen_trace_set(seed, n_ranks=1, **kw)[0]
    t_first = min(e["ts"] for e in r0 if e.get("ph") == "X")
    for k in range(200):
        r0.append(synth.host_op(f"wide::op_{k:04d}", t_first - 3 * (k + 1), 2, tid=77))
    for e in r0:
        if e.get("cat") == "cuda_runtime" and e.get("name") in ("cudaLaunchKernelExC", "cudaMemcpyAsync", "cudaMemsetAsync"):
            e["name"] = "cudaLaunchKernel"
    r1 = gen_trace_set(seed + 1, n_ranks=1, **{**kw, "noncomplete_events": False, "n_extra_ops": 3})[0]
    for e in r1:  # rank 1's device activities carry names of their own (another build of the kernels): they enter the trace-wide table after rank 0's 200 names
        if e.get("cat") in ("kernel", "gpu_memcpy", "gpu_memset") and isinstance(e.get("name"), str):
            e["name"] = e["name"] + "_r1"
    return {0: r0, 1: r1}
