"""Property driver: deductive units -> replay of refutations -> bounded stand-in -> evidence, exit code.

Exit codes: 0 held on everything explored; 1 violation (always with a VIOLATION line); 2 undecided; 3 checker crash.
"""
from __future__ import annotations

import importlib
import json
import os
import sys
import time
import traceback
from dataclasses import dataclass, field
from typing import Any, Callable, Dict, List, Optional

from . import core, extract

ROOT = os.path.dirname(os.path.dirname(os.path.abspath(__file__)))
EVIDENCE_DIR = os.path.join(ROOT, "evidence")
REPLAY_DIR = os.path.join(ROOT, "replays")
FINDINGS_FILE = os.path.join(ROOT, "known_findings.json")

COMMON_TRUSTED = [
    "CPython 3.12 semantics of the translated subset as encoded by hv/pyvc.py (ints mathematical; float/int64 as reals/ints; and/or operands pure)",
    "z3 5.1 / cvc5 1.0.3 soundness",
    "extraction drops: " + "; ".join(extract.DROPPED),
]


@dataclass
class Bounded:
    """A bounded stand-in stage: runs the real code under executable contracts over a finite scope."""

    name: str
    run: Callable[["Ctx"], Dict[str, Any]]  # returns {evaluations, distinct, failures:[{what,input,known?}], scope, samples}


@dataclass
class Spec:
    prop: str
    level: str  # evidence level
    functions: List[Any]  # list of (module, qualname)
    units: Callable[["Ctx"], List[core.Unit]]
    bounded: List[Bounded] = field(default_factory=list)
    replay: Optional[Callable[["Ctx", Dict[str, Any]], Dict[str, Any]]] = None  # refuted record -> {confirmed:bool, input:..., observed:...}
    trusted: List[str] = field(default_factory=list)
    assumptions: List[str] = field(default_factory=list)
    explanation: str = ""
    min_obligations: int = 1
    lean: List[str] = field(default_factory=list)  # files under lean/ whose lemmas this property's argument uses


@dataclass
class Ctx:
    prop: str
    tier: str
    seed: int
    findings: List[Dict[str, Any]]
    procs: int = 16

    @property
    def thorough(self) -> bool:
        return self.tier == "thorough"

    def known(self, obligation: str) -> List[Dict[str, Any]]:
        return [f for f in self.findings if f.get("property") == self.prop and f.get("status") == "known"
                and (f.get("obligation") == obligation or obligation in f.get("obligations", []))]


def _lean_status(files: List[str], rerun: bool) -> Dict[str, str]:
    """quick: compare the sha256 of each Lean file with lean/STATUS.json (written by tools/check_lean.sh); thorough: re-run Lean."""
    import hashlib
    import subprocess

    out: Dict[str, str] = {}
    try:
        status = json.load(open(os.path.join(ROOT, "lean", "STATUS.json")))
    except Exception:
        status = {}
    for fn in files:
        path = os.path.join(ROOT, "lean", fn)
        if not os.path.exists(path):
            out[fn] = "file missing"
            continue
        h = hashlib.sha256(open(path, "rb").read()).hexdigest()
        if rerun:
            try:
                p = subprocess.run(["lean", fn], cwd=os.path.join(ROOT, "lean"), capture_output=True, text=True, timeout=900)
                ok = p.returncode == 0 and "error" not in (p.stdout + p.stderr).lower() and "sorry" not in (p.stdout + p.stderr).lower()
                out[fn] = "checked by Lean in this run" if ok else "Lean reported errors: " + (p.stdout + p.stderr)[-200:]
            except Exception as e:
                out[fn] = f"Lean could not be run: {type(e).__name__}"
        else:
            st = status.get(fn, {})
            out[fn] = "checked (sha256 matches lean/STATUS.json written by tools/check_lean.sh)" if st.get("ok") and st.get("sha256") == h else "not checked: text differs from the recorded status"
    return out


def load_findings() -> List[Dict[str, Any]]:
    if not os.path.exists(FINDINGS_FILE):
        return []
    with open(FINDINGS_FILE) as fh:
        return json.load(fh).get("findings", [])


def _write_json(path: str, obj: Any) -> None:
    os.makedirs(os.path.dirname(path), exist_ok=True)
    tmp = path + ".tmp"
    with open(tmp, "w") as fh:
        json.dump(obj, fh, indent=1, default=str)
    os.replace(tmp, path)


def _safe(name: str) -> str:
    return "".join(c if c.isalnum() or c in "._-" else "_" for c in name)[:150]


def run_property(prop: str, tier: str = "quick", seed: int = 0) -> int:
    t0 = time.time()
    lines: List[str] = []
    evidence_path = os.path.join(EVIDENCE_DIR, f"{prop}.json")
    try:
        mod = importlib.import_module(f"contracts.{prop}")
        spec: Spec = mod.SPEC
    except Exception:
        traceback.print_exc()
        print(f"CHECKER-ERROR property={prop} cannot load contract module")
        return 3
    import shutil
    shutil.rmtree(os.path.join(REPLAY_DIR, prop), ignore_errors=True)
    ctx = Ctx(prop=prop, tier=tier, seed=seed, findings=load_findings(), procs=int(os.environ.get("HV_PROCS", "16")))
    extract.clear_cache()

    fn_infos, fn_errors = [], []
    for modname, qn in spec.functions:
        try:
            fn_infos.append(extract.get_function(modname, qn))
        except extract.ExtractError as e:
            fn_errors.append(str(e))

    # ------------------------------------------------------------------ deductive stage
    timeout = core.THOROUGH_TIMEOUT_MS if ctx.thorough else core.QUICK_TIMEOUT_MS
    results: List[Dict[str, Any]] = []
    crash = False
    try:
        units = spec.units(ctx)
        results = core.run_units(units, timeout, ctx.procs)
    except Exception:
        traceback.print_exc()
        crash = True

    vcs = [r for r in results if r["kind"] == "vc"]
    proved = [r for r in vcs if r["status"] == "proved"]
    refuted = [r for r in vcs if r["status"] == "refuted"]
    undecided = [r for r in results if r["status"] == "undecided" and r["kind"] == "vc"]
    guards_inconclusive = [r["name"] for r in results if r["status"] == "undecided" and r["kind"] != "vc"]
    engine_err = [r for r in results if r["status"] == "engine_error"]
    guards = [r for r in results if r["kind"] in ("canary", "vacuity")]

    violations: List[Dict[str, Any]] = []
    known_hits: List[Dict[str, Any]] = []

    for r in refuted:
        known = ctx.known(r["name"])
        outside = r.get("outside_known_class", {})
        suppressed = False
        if known:
            # every known entry must name a class; the failure is known only if no counterexample lies outside all classes
            ids = [k["id"] for k in known]
            if all(outside.get(i) == "unsat" for i in ids):
                suppressed = True
                for k in known:
                    known_hits.append({"finding": k, "obligation": r["name"]})
        if suppressed:
            continue
        rep: Dict[str, Any] = {"confirmed": False}
        if spec.replay is not None:
            try:
                rep = spec.replay(ctx, r) or {"confirmed": False}
            except Exception as e:
                rep = {"confirmed": False, "replay_error": f"{type(e).__name__}: {e}", "trace": traceback.format_exc()[-1200:]}
        path = os.path.join(REPLAY_DIR, prop, _safe(r["name"]) + ".json")
        _write_json(path, {"property": prop, "obligation": r["name"], "functions": r.get("functions"), "stage": "deductive",
                           "solver": {"backend": r.get("backend"), "result": r.get("solver_result"), "model": r.get("model"),
                                      "model_outside_known": {k: v for k, v in r.items() if k.startswith("model_outside_")}},
                           "replay": rep, "note": r.get("note")})
        violations.append({"obligation": r["name"], "replay": path, "confirmed": bool(rep.get("confirmed"))})

    # ------------------------------------------------------------------ bounded stand-in
    bounded_out: List[Dict[str, Any]] = []
    for b in spec.bounded:
        tb = time.time()
        try:
            out = b.run(ctx)
        except Exception as e:
            traceback.print_exc()
            out = {"error": f"{type(e).__name__}: {e}", "evaluations": 0, "distinct": 0, "failures": []}
            crash = True
        out["name"] = b.name
        out["wall_s"] = round(time.time() - tb, 2)
        if out.get("engine_check") and out.get("failures"):
            # a disagreement between the engine and CPython is a checker defect, never a violation of the repository
            print(f"ENGINE-ERROR {b.name}: " + json.dumps(out["failures"][0], default=str)[:400])
            crash = True
            out["failures"] = []
        for i, f in enumerate(out.get("failures", [])):
            if f.get("known"):
                known_hits.append({"finding": f["known"], "obligation": f.get("what", b.name)})
                continue
            path = os.path.join(REPLAY_DIR, prop, _safe(f"{b.name}.{f.get('what', 'failure')}.{i}") + ".json")
            _write_json(path, {"property": prop, "obligation": f.get("what", b.name), "stage": "bounded:" + b.name,
                               "input": f.get("input"), "observed": f.get("observed"), "expected": f.get("expected"),
                               "replay": {"confirmed": True, "how": f.get("how", "real code run on this input")}})
            violations.append({"obligation": f.get("what", b.name), "replay": path, "confirmed": True})
            if len([v for v in violations if v["confirmed"]]) >= 5:
                break
        out["failures"] = [{k: v for k, v in f.items() if k != "input"} for f in out.get("failures", [])][:10]
        bounded_out.append(out)

    # ------------------------------------------------------------------ report
    seen = set()
    for k in known_hits:
        fid = k["finding"]["id"]
        if fid in seen:
            continue
        seen.add(fid)
        lines.append(f"KNOWN-FINDING: property={prop} {k['finding'].get('what', fid)} [{fid}; obligation {k['obligation']}]")
    for v in violations:
        tail = "" if v["confirmed"] else " no-failing-input-found"
        lines.append(f"VIOLATION property={prop} replay={v['replay']}{tail}")

    n_obl = len(vcs)
    zero_obl = n_obl < spec.min_obligations
    if violations:
        code = 1
    elif crash or engine_err or zero_obl:
        code = 3
    elif undecided or fn_errors:
        code = 2
    else:
        code = 0

    lean_status = _lean_status(spec.lean, ctx.thorough)
    per_backend: Dict[str, int] = {}
    for r in proved:
        per_backend[r.get("backend", "z3")] = per_backend.get(r.get("backend", "z3"), 0) + 1
    solver_time = round(sum(r.get("time_s", 0) for r in results), 3)
    assumptions = list(dict.fromkeys(spec.assumptions + [a for r in results for a in r.get("assumptions", [])]))
    for fn, stt in lean_status.items():
        if not stt.startswith("checked"):
            assumptions.append(f"Lean lemmas of lean/{fn} assumed, not machine-checked in this run ({stt})")
    samples = [{"obligation": r["name"], "status": r["status"], "backend": r.get("backend"), "time_s": r.get("time_s")} for r in vcs[:6]]
    for b in bounded_out:
        for s in b.get("samples", [])[:2]:
            samples.append({"bounded_stage": b["name"], "case": s})
    bounded_eval = sum(b.get("evaluations", 0) for b in bounded_out)
    bounded_distinct = sum(b.get("distinct", 0) for b in bounded_out)
    coverage = {
        "obligations": n_obl,
        "discharged": len(proved),
        "refuted": len(refuted),
        "refuted_known": len(refuted) - len([v for v in violations if v["obligation"] in {r["name"] for r in refuted}]),
        "undecided": [r["name"] + (": " + r.get("error", "") if r.get("error") else "") for r in undecided],
        "engine_errors": [r["name"] + ": " + r.get("error", r.get("solver_result", "")) for r in engine_err],
        "guards": {"total": len(guards), "ok": len([g for g in guards if g["status"] == "ok"]), "inconclusive": guards_inconclusive,
                   "hypotheses_probe": {k: len([r for r in results if r.get("hyps_probe") == k]) for k in ("sat", "unknown", "unsat")},
                   "proved_from_contradictory_hypotheses": [r["name"] for r in results if r.get("hyps_probe") == "unsat"][:60]},
        "by_backend": per_backend,
        "solver_time_s": solver_time,
        "checker_cmd": f"./check {prop} --tier {tier}",
        "trusted_base": COMMON_TRUSTED + spec.trusted,
        "functions_under_contract": extract.describe(fn_infos),
        "functions_missing": fn_errors,
        "obligation_list": [{"name": r["name"], "kind": r["kind"], "status": r["status"], "backend": r.get("backend"),
                             "time_s": r.get("time_s"), "functions": r.get("functions")} for r in results],
        "bounded": bounded_out,
        "lean_lemmas": lean_status,
        "evaluations": max(1, n_obl + bounded_eval),
        "distinct_nontrivial": max(0, len({r["name"] for r in vcs}) + bounded_distinct),
        "rule": "deductive: one evaluation per generated obligation (distinct by name); bounded stages: see bounded[*].scope, "
                "distinct = distinct inputs on which at least one contract clause was exercised non-vacuously",
        "samples": samples,
        "explanation": spec.explanation,
        "known_findings_reported": sorted(seen),
        "exhaustive": False,
    }
    ev = {
        "property_id": prop,
        "tier": tier,
        "seed": seed,
        "level": spec.level,
        "coverage": coverage,
        "assumptions": assumptions,
        "wall_s": round(time.time() - t0, 2),
        "violations": len(violations),
        "exit_code": code,
    }
    _write_json(evidence_path, ev)
    for ln in lines:
        print(ln)
    print(f"[{prop}] tier={tier} obligations={n_obl} proved={len(proved)} refuted={len(refuted)} undecided={len(undecided)} "
          f"engine_errors={len(engine_err)} guards={coverage['guards']['ok']}/{len(guards)} bounded_evals={bounded_eval} "
          f"violations={len(violations)} known={len(seen)} wall={ev['wall_s']}s exit={code}")
    if undecided:
        for r in undecided[:10]:
            print(f"  UNDECIDED {r['name']}: {r.get('error', r.get('z3_reason', ''))}")
    if engine_err:
        for r in engine_err[:10]:
            print(f"  ENGINE-ERROR {r['name']}: {r.get('error', r.get('solver_result', ''))}")
            if r.get("trace"):
                print("    " + r["trace"].replace("\n", "\n    "))
    return code


def main(argv: List[str]) -> int:
    import argparse

    ap = argparse.ArgumentParser()
    ap.add_argument("prop")
    ap.add_argument("--tier", default=os.environ.get("VERIF_TIER", "quick"))
    ap.add_argument("--replay", default=None)
    a = ap.parse_args(argv)
    seed = int(os.environ.get("VERIF_SEED", "0") or 0)
    sys.path.insert(0, ROOT)
    if a.replay:
        from . import replay as rp

        return rp.replay_file(a.prop, a.replay)
    tier = "thorough" if a.tier.startswith("t") else "quick"
    return run_property(a.prop, tier, seed)


if __name__ == "__main__":
    sys.exit(main(sys.argv[1:]))
