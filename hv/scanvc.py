"""ScanVC — prefix-fold induction for pandas scans (shift / cumsum / cummax / cummin / groupby over a run key).

The function under contract is executed symbolically over a TWO-POSITION WINDOW of a sorted frame: every series is the
pair (value at position k-1, value at position k).  Element-wise operations act on both components; each scan operator
is replaced by the one-step recurrence that is its ASSUMED contract and introduces a *state variable* (the operator's
value at k-1) that the side-car invariant talks about.  The generator emits, per function,

    base :  Inv(state after position 0)
    step :  Inv(state at k-1) /\\ row hypotheses  ==>  Inv(state at k)

both quantifier-free.  Ghost folds (e.g. "t is covered by an input interval so far") are accumulators defined by the
contract with their own one-step update; their meaning as finite disjunctions/sums over the prefix is the fold
meta-lemma (DESIGN.md section 3.6, L5).  Anything outside the supported operator set raises Unsupported.
"""
from __future__ import annotations

import ast
from typing import Any, Callable, Dict, List, Optional, Tuple

import z3

from . import pyvc
from .framevc import _assume
from .pyvc import Unsupported, to_z3, z_and, z_ite, z_not, z_or

NULLV = z3.IntVal(0)


class Window:
    """Execution context of one window run.  mode 'base': k = 0 (no previous row); mode 'step': k >= 1."""

    def __init__(self, mode: str, tag: str):
        assert mode in ("base", "step", "last")
        self.mode = mode
        self.tag = tag
        self.counters: Dict[str, int] = {}
        self.state_prev: Dict[str, Any] = {}  # name -> symbol (value at k-1); only in step mode
        self.state_prev_null: Dict[str, Any] = {}
        self.state_cur: Dict[str, Any] = {}  # name -> expr (value at k)
        self.state_cur_null: Dict[str, Any] = {}
        self.obligations: List[Tuple[str, Any, str]] = []
        self.emissions: List[Dict[str, Any]] = []  # run aggregations: {name, emit_cond, values(prev run aggregates), cur aggregates}

    def fresh_name(self, kind: str) -> str:
        i = self.counters.get(kind, 0)
        self.counters[kind] = i + 1
        return f"{kind}#{i}"

    def prev_sym(self, name: str, sort=None):
        if name not in self.state_prev:
            self.state_prev[name] = z3.Const(f"{self.tag}_{name}_prev", sort or z3.IntSort())
            self.state_prev_null[name] = z3.Bool(f"{self.tag}_{name}_prevnull")
        return self.state_prev[name], self.state_prev_null[name]


class WSeries:
    """(prev, cur) values of a column in the window, with null flags (python False = never null)."""

    def __init__(self, w: Window, prev, cur, pnull=False, cnull=False, dtype="int", name=""):
        self.w, self.prev, self.cur, self.pnull, self.cnull, self.dtype, self.name = w, prev, cur, pnull, cnull, dtype, name

    def __deepcopy__(self, memo):
        return self

    def _other(self, o):
        if isinstance(o, WSeries):
            return o.prev, o.cur, o.pnull, o.cnull
        return o, o, False, False

    def _mk(self, prev, cur, pnull, cnull, dtype):
        return WSeries(self.w, prev, cur, pnull, cnull, dtype)

    def hv_binop(self, ex, op, other, reflected, pc):
        op_, oc, opn, ocn = self._other(other)
        if isinstance(op, (ast.BitAnd, ast.BitOr)):
            f = z_and if isinstance(op, ast.BitAnd) else z_or
            return self._mk(f(pyvc.truth(self.prev), pyvc.truth(op_)) if self.w.mode in ("step", "last") and self.prev is not None else None,
                            f(pyvc.truth(self.cur), pyvc.truth(oc)) if self.cur is not None and oc is not None else None, False, False, "bool")
        def ap(a, b):
            return ex.binop(op, b, a, pc) if reflected else ex.binop(op, a, b, pc)
        prev = ap(self.prev, op_) if self.w.mode in ("step", "last") and self.prev is not None and op_ is not None else None
        cur = ap(self.cur, oc) if self.cur is not None and oc is not None else None
        return self._mk(prev, cur, z_or(self.pnull, opn), z_or(self.cnull, ocn), self.dtype)

    def hv_compare(self, ex, op, other, reflected):
        op_, oc, opn, ocn = self._other(other)
        neq = isinstance(op, ast.NotEq)

        def cmp(a, b, an, bn):
            c = ex.compare(op, b, a) if reflected else ex.compare(op, a, b)
            nn = z_or(an, bn)
            if nn is False:
                return c
            return z_or(nn, c) if neq else z_and(z_not(nn), c)  # comparisons with NaN are False (True for !=)

        prev = cmp(self.prev, op_, self.pnull, opn) if self.w.mode in ("step", "last") and self.prev is not None and op_ is not None else None
        cur = cmp(self.cur, oc, self.cnull, ocn) if self.cur is not None and oc is not None else None
        return self._mk(prev, cur, False, False, "bool")

    def hv_unary(self, ex, op):
        if isinstance(op, ast.Invert):
            return self._mk(z_not(pyvc.truth(self.prev)) if self.prev is not None else None, z_not(pyvc.truth(self.cur)) if self.cur is not None else None, False, False, "bool")
        raise Unsupported("unary on window series")

    def hv_call_method(self, ex, attr, args, kwargs, pc, env):
        w = self.w
        cmpops = {"eq": ast.Eq, "ne": ast.NotEq, "gt": ast.Gt, "ge": ast.GtE, "lt": ast.Lt, "le": ast.LtE}
        if attr in cmpops:
            return self.hv_compare(ex, cmpops[attr](), args[0], False)
        if attr == "shift":
            periods = args[0] if args else kwargs.get("periods", 1)
            if periods != 1:
                raise Unsupported("shift(periods != 1) in window mode")
            _assume("pandas Series.shift(1): value of the previous row, NaN in the first row")
            if w.mode == "base":
                return self._mk(None, NULLV, False, True, self.dtype)
            # value at k is the operand at k-1; the shifted series' own previous value is the operand at k-2 (unknown state)
            nm = w.fresh_name("shift")
            p2, p2n = w.prev_sym(nm)
            w.state_cur[nm], w.state_cur_null[nm] = self.prev, self.pnull
            return self._mk(p2, self.prev, p2n, self.pnull, self.dtype)
        if attr in ("cummax", "cummin"):
            _assume(f"pandas Series.{attr}(): running extreme of the non-missing values so far; NaN at NaN positions")
            nm = w.fresh_name(attr)
            x, xn = to_z3(self.cur), self.cnull
            if w.mode == "base":
                run, run_null = x, xn
                prev_out, prev_out_null = None, False
            else:
                rp, rpn = w.prev_sym(nm)  # running extreme up to k-1 (rpn: none seen yet)
                better = (x > rp) if attr == "cummax" else (x < rp)
                run = z_ite(xn, rp, z_ite(rpn, x, z_ite(better, x, rp)))
                run_null = z_and(xn, rpn)
                # output at k-1: running value unless the operand at k-1 was NaN
                prev_out, prev_out_null = rp, z_or(rpn, self.pnull)
            w.state_cur[nm], w.state_cur_null[nm] = run, run_null
            return self._mk(prev_out, run, prev_out_null, z_or(xn, run_null), self.dtype)
        if attr == "cumsum":
            _assume("pandas Series.cumsum(): running sum (True counts 1)")
            nm = w.fresh_name("cumsum")
            x = self.cur if self.cur is not None else 0
            if isinstance(x, (bool, z3.BoolRef)):
                x = z3.If(to_z3(x), 1, 0)
            if self.cnull is not False and w.mode != "last":
                raise Unsupported("cumsum over a nullable series")
            if w.mode == "base":
                cur, prev = to_z3(x), None
            elif w.mode == "last":
                sp, _ = w.prev_sym(nm)
                cur, prev = None, sp
            else:
                sp, _ = w.prev_sym(nm)
                cur, prev = sp + to_z3(x), sp
            w.state_cur[nm], w.state_cur_null[nm] = cur, False
            return self._mk(prev, cur, False, False, "int")
        if attr in ("copy", "astype"):
            return self
        raise Unsupported(f"window Series.{attr}")


class WFrame:
    """A sorted frame seen through the window: columns are WSeries.  `sorted_by` names the sort key (ascending)."""

    def __init__(self, w: Window, cols: Dict[str, WSeries], sorted_by: Optional[str] = None):
        self.w, self.cols, self.sorted_by = w, dict(cols), sorted_by
        self.written: List[str] = []

    def __deepcopy__(self, memo):
        return self

    def hv_getitem(self, ex, idx, pc):
        if isinstance(idx, str):
            if idx not in self.cols:
                raise Unsupported(f"KeyError {idx!r}")
            return self.cols[idx]
        raise Unsupported("window frame subscript")

    def hv_setitem(self, ex, idx, v, pc):
        if not isinstance(idx, str):
            raise Unsupported("window frame assignment")
        if not isinstance(v, WSeries):
            v = WSeries(self.w, v, v)
        self.cols[idx] = v
        self.written.append(idx)

    def hv_getattr(self, ex, attr, pc):
        if attr == "columns":
            return list(self.cols)
        if attr in self.cols:
            return self.cols[attr]
        return NotImplemented

    def hv_call_method(self, ex, attr, args, kwargs, pc, env):
        if attr == "sort_values":
            by = kwargs.get("by", args[0] if args else None)
            if by != self.sorted_by:
                raise Unsupported(f"sort_values(by={by!r}) on a window sorted by {self.sorted_by!r}")
            return None if kwargs.get("inplace") else self
        if attr == "groupby":
            key = args[0] if args else kwargs.get("by")
            if isinstance(key, list) and len(key) == 1:
                key = key[0]
            if not isinstance(key, str):
                raise Unsupported("groupby key")
            return WGroupBy(self, key)
        if attr == "copy":
            return self
        raise Unsupported(f"window DataFrame.{attr}")


class WGroupBy:
    def __init__(self, f: WFrame, key: str):
        self.f, self.key = f, key

    def __deepcopy__(self, memo):
        return self

    def hv_call_method(self, ex, attr, args, kwargs, pc, env):
        if attr != "agg":
            raise Unsupported(f"groupby.{attr} in window mode")
        spec = args[0]
        if not isinstance(spec, dict):
            raise Unsupported("groupby.agg spec")
        _assume("pandas groupby(key).agg({col: min|max|sum}) over a key that is non-decreasing along the frame: one output row per maximal run of "
                "equal keys, in order, holding the aggregate of the run (obligation: the key is non-decreasing)")
        w = self.f.w
        key = self.f.cols[self.key]
        nm = w.fresh_name("runagg")
        out_prev: Dict[str, Any] = {}
        out_cur: Dict[str, Any] = {}
        if w.mode == "base":
            newrun = True
        else:
            newrun = to_z3(key.cur) != to_z3(key.prev)
            w.obligations.append((f"{nm}.key_nondecreasing", to_z3(key.cur) >= to_z3(key.prev), "groupby key must be non-decreasing along the sorted frame for runs = groups"))
        for col, how in spec.items():
            x = self.f.cols[col]
            if x.cnull is not False:
                raise Unsupported("aggregating a nullable column")
            sn = f"{nm}.{col}.{how}"
            if w.mode == "base":
                cur = to_z3(x.cur)
            else:
                ap, _ = w.prev_sym(sn)
                xv = to_z3(x.cur)
                if how == "min":
                    agg = z3.If(xv < ap, xv, ap)
                elif how == "max":
                    agg = z3.If(xv > ap, xv, ap)
                elif how == "sum":
                    agg = ap + xv
                else:
                    raise Unsupported(f"agg {how}")
                cur = z3.If(newrun, xv, agg)
                out_prev[col] = ap
            w.state_cur[sn], w.state_cur_null[sn] = cur, False
            out_cur[col] = cur
        em = {"name": nm, "emit_prev_run": (newrun if w.mode == "step" else False), "prev_values": out_prev, "cur_values": out_cur, "key": self.key}
        w.emissions.append(em)
        return WRunTable(w, em, list(spec))


class WRunTable:
    """Result of a run aggregation: its rows are emitted whenever a run closes (and once more at the end of the frame)."""

    def __init__(self, w: Window, em: Dict[str, Any], cols: List[str]):
        self.w, self.em, self.columns = w, em, cols
        self.dropped: List[str] = []
        self.sorted_by: Optional[str] = None

    def __deepcopy__(self, memo):
        return self

    def hv_call_method(self, ex, attr, args, kwargs, pc, env):
        if attr == "drop":
            cols = args[0] if args else kwargs.get("columns")
            if isinstance(cols, str):
                cols = [cols]
            if "axis" in kwargs and "columns" in kwargs:
                self.w.obligations.append(("drop_axis_and_columns", z3.BoolVal(False), "pandas >= 2 rejects drop(axis=, columns=)"))
            for c in cols:
                if c != self.em["key"] and c not in self.columns:
                    self.w.obligations.append((f"drop_keyerror_{c}", z3.BoolVal(False), f"drop of missing column {c}"))
                self.dropped.append(c)
            return self
        if attr == "sort_values":
            self.sorted_by = kwargs.get("by", args[0] if args else None)
            return self
        if attr == "reset_index":
            return self
        raise Unsupported(f"run table .{attr}")


def window_frame(w: Window, columns: Dict[str, str], sorted_by: str, tag: str) -> Tuple[WFrame, Dict[str, Tuple[Any, Any]]]:
    """Symbolic (prev, cur) values for the base columns; returns the frame and the symbols."""
    syms = {}
    cols = {}
    for c, dt in columns.items():
        p, q = z3.Int(f"{tag}_{c}_prev"), z3.Int(f"{tag}_{c}_cur")
        syms[c] = (p, q)
        cols[c] = WSeries(w, p if w.mode in ("step", "last") else None, q if w.mode != "last" else None, False, False, dt, c)
    return WFrame(w, cols, sorted_by), syms


# ---------------------------------------------------------------------------------------------- forward window (row i, row i+1)
#
# For sweeps the window is read as (row i = prev, row i+1 = cur).  Frame-level shift(-1) exposes the next row's values at
# row i; `dropna()` removes the last row (whose shifted values are NaN); an index merge pairs row i with itself.  `.sum()`
# of a series returns a WSum whose `term` is the summand contributed by row i (the prev component), so that
#       total = sum over i of term(i).
# Mode 'last' (row i = n-1, no next row) exists to show that the last row contributes what the contract says (usually 0).


class WSum:
    """sum over the rows of a window series: per-row summand `term` (value for row i = the prev component; 0 where absent/null)."""

    def __init__(self, w: Window, term):
        self.w, self.term = w, term

    def __deepcopy__(self, memo):
        return self

    def hv_binop(self, ex, op, other, reflected, pc):
        return WExpr(self.w, op, other, self, reflected)


class WExpr:
    def __init__(self, w, op, other, wsum, reflected):
        self.w, self.op, self.other, self.wsum, self.reflected = w, op, other, wsum, reflected

    def __deepcopy__(self, memo):
        return self


class WSel(WFrame):
    """A window frame with a presence mask (rows selected by a boolean series) or shifted columns."""

    def __init__(self, w, cols, present_prev, present_cur, sorted_by=None):
        super().__init__(w, cols, sorted_by)
        self.present_prev, self.present_cur = present_prev, present_cur

    def hv_call_method(self, ex, attr, args, kwargs, pc, env):
        if attr == "merge":
            return _wmerge(self, args[0], kwargs)
        if attr == "dropna":
            return _wdropna(self)
        return super().hv_call_method(ex, attr, args, kwargs, pc, env)


def _presence(f):
    if isinstance(f, WSel):
        return f.present_prev, f.present_cur
    return True, True


def _wselect(f: WFrame, mask: WSeries) -> WSel:
    pp, pc_ = _presence(f)
    return WSel(f.w, f.cols, z_and(pp, pyvc.truth(mask.prev)) if mask.prev is not None else None, z_and(pc_, pyvc.truth(mask.cur)) if mask.cur is not None else None, f.sorted_by)


def _wshift_next(f: WFrame) -> WSel:
    """frame.shift(-1): row i holds the values of row i+1; NaN in the last row."""
    _assume("pandas DataFrame.shift(-1): every column holds the next row's value, NaN in the last row")
    w = f.w
    cols = {}
    for c, s in f.cols.items():
        if w.mode == "last":
            cols[c] = WSeries(w, NULLV, None, True, True, s.dtype, c)
        else:
            nxt = z3.Const(f"{w.tag}_{c}_next2_{w.fresh_name('n')}", z3.IntSort())
            cols[c] = WSeries(w, s.cur, nxt, s.cnull, z3.Bool(f"{w.tag}_{c}_next2null_{w.fresh_name('nn')}"), s.dtype, c)
    pp, pc_ = _presence(f)
    return WSel(w, cols, pp, pc_, f.sorted_by)


def _wdropna(f: WSel) -> WSel:
    _assume("pandas DataFrame.dropna(): removes the rows holding any missing value")
    anyp = z_or(*[s.pnull for s in f.cols.values()])
    anyc = z_or(*[s.cnull for s in f.cols.values() if s.cur is not None]) if f.w.mode != "last" else True
    return WSel(f.w, f.cols, z_and(f.present_prev, z_not(anyp)), z_and(f.present_cur, z_not(anyc)) if f.w.mode != "last" else None, f.sorted_by)


def _wmerge(left: WFrame, right, kwargs) -> WSel:
    if not (kwargs.get("left_index") and kwargs.get("right_index")) or kwargs.get("how", "inner") != "inner":
        raise Unsupported("window merge other than inner on both indexes")
    if not isinstance(right, WFrame) or right.w is not left.w:
        raise Unsupported("window merge operand")
    _assume("pandas merge(left_index=True, right_index=True) on unique labels: one row per label present on both sides; clashing columns get _x / _y")
    cols = {}
    for c, s in left.cols.items():
        cols[c + "_x" if c in right.cols else c] = s
    for c, s in right.cols.items():
        cols[c + "_y" if c in left.cols else c] = s
    lp, lc = _presence(left)
    rp, rc = _presence(right)
    return WSel(left.w, cols, z_and(lp, rp), z_and(lc, rc) if left.w.mode != "last" else None, left.sorted_by)


# extend WFrame with selection / shift / reset_index and WSeries with sum
_old_getitem = WFrame.hv_getitem


def _wf_getitem(self, ex, idx, pc):
    if isinstance(idx, WSeries) and idx.dtype == "bool":
        return _wselect(self, idx)
    return _old_getitem(self, ex, idx, pc)


WFrame.hv_getitem = _wf_getitem
_old_wf_call = WFrame.hv_call_method


def _wf_call(self, ex, attr, args, kwargs, pc, env):
    if attr == "shift":
        periods = args[0] if args else kwargs.get("periods", 1)
        if periods == -1:
            return _wshift_next(self)
        raise Unsupported("frame shift other than -1 in window mode")
    if attr == "reset_index":
        return self
    if attr == "merge":
        return _wmerge(self, args[0], kwargs)
    return _old_wf_call(self, ex, attr, args, kwargs, pc, env)


WFrame.hv_call_method = _wf_call
_old_ws_call = WSeries.hv_call_method


def _ws_call(self, ex, attr, args, kwargs, pc, env):
    if attr == "sum":
        _assume("pandas Series.sum(): sum of the non-missing values of the rows present")
        owner = getattr(self, "owner", None)
        pp = owner.present_prev if isinstance(owner, WSel) else True
        term = z_ite(z_and(pp, z_not(self.pnull)), self.prev, 0) if self.prev is not None else 0
        return WSum(self.w, term)
    return _old_ws_call(self, ex, attr, args, kwargs, pc, env)


WSeries.hv_call_method = _ws_call
_old_sel_getitem = WSel.hv_getitem


def _sel_getitem(self, ex, idx, pc):
    r = _wf_getitem(self, ex, idx, pc)
    if isinstance(r, WSeries):
        r = WSeries(r.w, r.prev, r.cur, r.pnull, r.cnull, r.dtype, r.name)
        r.owner = self
    return r


WSel.hv_getitem = _sel_getitem
_old_binop = WSeries.hv_binop


def _ws_binop(self, ex, op, other, reflected, pc):
    r = _old_binop(self, ex, op, other, reflected, pc)
    own = getattr(self, "owner", None) or (getattr(other, "owner", None) if isinstance(other, WSeries) else None)
    if own is not None:
        r.owner = own
    return r


WSeries.hv_binop = _ws_binop


# ---------------------------------------------------------------------------------------------- loc assignment, group sums


class _WLoc:
    def __init__(self, f: WFrame):
        self.f = f

    def hv_setitem(self, ex, idx, v, pc):
        if not (isinstance(idx, tuple) and len(idx) == 2 and isinstance(idx[0], WSeries) and isinstance(idx[1], str)):
            raise Unsupported("window loc assignment pattern")
        mask, col = idx
        _assume("pandas df.loc[mask, col] = scalar: the column is overwritten exactly on the rows where mask is True")
        if isinstance(v, WSeries):
            raise Unsupported("window loc assignment of a series")
        old = self.f.cols.get(col)
        if old is None:
            raise Unsupported("window loc assignment to a new column")
        prev = z_ite(pyvc.truth(mask.prev), v, old.prev) if (mask.prev is not None and old.prev is not None) else None
        cur = z_ite(pyvc.truth(mask.cur), v, old.cur) if (mask.cur is not None and old.cur is not None) else None
        pn = z_and(z_not(pyvc.truth(mask.prev)), old.pnull) if (mask.prev is not None and old.pnull is not False) else False
        cn = z_and(z_not(pyvc.truth(mask.cur)), old.cnull) if (mask.cur is not None and old.cnull is not False) else False
        self.f.cols[col] = WSeries(self.f.w, prev, cur, pn, cn, old.dtype, col)
        self.f.written.append(col)


def _wf_setattr(self, ex, attr, v, pc):
    if attr in self.cols:
        self.hv_setitem(ex, attr, v, pc)
        return
    raise Unsupported(f"window frame attribute assignment {attr}")


WFrame.hv_setattr = _wf_setattr
_old_wf_getattr = WFrame.hv_getattr


def _wf_getattr(self, ex, attr, pc):
    if attr == "loc":
        return _WLoc(self)
    return _old_wf_getattr(self, ex, attr, pc)


WFrame.hv_getattr = _wf_getattr


class WGroupSum:
    """df.groupby(key)[col].sum(): per key value c, the sum of col over the rows with key == c (missing values skipped).
    `term(c)` is the contribution of the window's current row."""

    def __init__(self, w: Window, key: WSeries, val: WSeries):
        self.w, self.key, self.val = w, key, val

    def __deepcopy__(self, memo):
        return self

    def term(self, c):
        return z_ite(z_and(to_z3(self.key.cur) == c, z_not(self.val.cnull)), self.val.cur, 0)

    def total_term(self):
        return z_ite(z_not(self.val.cnull), self.val.cur, 0)


class _WGroupCol:
    def __init__(self, gb: "WGroupBy", col: str):
        self.gb, self.col = gb, col

    def hv_call_method(self, ex, attr, args, kwargs, pc, env):
        if attr == "sum":
            _assume("pandas groupby(key)[col].sum(): one entry per key value holding the sum of the non-missing col values of its rows")
            return WGroupSum(self.gb.f.w, self.gb.f.cols[self.gb.key], self.gb.f.cols[self.col])
        raise Unsupported(f"groupby column .{attr}")


def _wgb_getattr(self, ex, attr, pc):
    if attr in self.f.cols:
        return _WGroupCol(self, attr)
    return NotImplemented


def _wgb_getitem(self, ex, idx, pc):
    if isinstance(idx, str) and idx in self.f.cols:
        return _WGroupCol(self, idx)
    raise Unsupported("groupby subscript")


WGroupBy.hv_getattr = _wgb_getattr
WGroupBy.hv_getitem = _wgb_getitem
