"""Synthetic Kineto-style trace builder used by replays and the bounded stand-in.

A trace is described by plain Python data (lists of dict events); `write_trace_dir` writes one file per rank
in .json or .json.gz format into a directory.  Nothing here looks at /repo.
"""
from __future__ import annotations

import gzip
import json
import os
from typing import Any, Dict, List, Optional

HOST_PID = 100
DEV_PID = 0


def host_op(name: str, ts, dur, tid: int = 1, cat: str = "cpu_op", pid: int = HOST_PID, **args) -> Dict[str, Any]:
    ev = {"ph": "X", "cat": cat, "name": name, "pid": pid, "tid": tid, "ts": ts, "dur": dur}
    if args:
        ev["args"] = dict(args)
    return ev


def annotation(name: str, ts, dur, tid: int = 1, pid: int = HOST_PID) -> Dict[str, Any]:
    return host_op(name, ts, dur, tid=tid, cat="user_annotation", pid=pid)


def profiler_step(n: int, ts, dur, tid: int = 1, pid: int = HOST_PID) -> Dict[str, Any]:
    return annotation(f"ProfilerStep#{n}", ts, dur, tid=tid, pid=pid)


def launch(ts, dur, correlation: int, tid: int = 1, name: str = "cudaLaunchKernel", pid: int = HOST_PID, **extra) -> Dict[str, Any]:
    a = {"correlation": correlation}
    a.update(extra)
    return {"ph": "X", "cat": "cuda_runtime", "name": name, "pid": pid, "tid": tid, "ts": ts, "dur": dur, "args": a}


def kernel(name: str, ts, dur, stream: int, correlation: int, cat: str = "kernel", pid: int = DEV_PID, **extra) -> Dict[str, Any]:
    a = {"correlation": correlation, "stream": stream}
    a.update(extra)
    return {"ph": "X", "cat": cat, "name": name, "pid": pid, "tid": stream, "ts": ts, "dur": dur, "args": a}


def memcpy(name: str, ts, dur, stream: int, correlation: int, nbytes: int = 1024, bw: float = 1.0, pid: int = DEV_PID) -> Dict[str, Any]:
    return kernel(name, ts, dur, stream, correlation, cat="gpu_memcpy", pid=pid, **{"bytes": nbytes, "memory bandwidth (GB/s)": bw})


def meta_events(pid: int = HOST_PID, tid: int = 1) -> List[Dict[str, Any]]:
    return [
        {"ph": "M", "name": "process_name", "pid": pid, "tid": 0, "ts": 0, "args": {"name": "python"}},
        {"ph": "M", "name": "thread_name", "pid": pid, "tid": tid, "ts": 0, "args": {"name": "thread main"}},
    ]


def trace_doc(events: List[Dict[str, Any]], rank: Optional[int] = 0, world_size: int = 1, extra: Optional[Dict[str, Any]] = None) -> Dict[str, Any]:
    doc: Dict[str, Any] = {"schemaVersion": 1}
    if rank is not None:
        doc["distributedInfo"] = {"backend": "nccl", "rank": rank, "world_size": world_size}
    if extra:
        doc.update(extra)
    doc["traceEvents"] = events
    return doc


def write_doc(path: str, doc: Dict[str, Any]) -> str:
    os.makedirs(os.path.dirname(path), exist_ok=True)
    if path.endswith(".gz"):
        with gzip.open(path, "wt", encoding="utf-8") as fh:
            json.dump(doc, fh, indent=2)
    else:
        with open(path, "w", encoding="utf-8") as fh:
            json.dump(doc, fh, indent=2)
    return path


def write_trace_dir(dirpath: str, per_rank_events: Dict[int, List[Dict[str, Any]]], gz: bool = False) -> str:
    os.makedirs(dirpath, exist_ok=True)
    for rank, events in per_rank_events.items():
        fn = os.path.join(dirpath, f"rank_{rank}.json" + (".gz" if gz else ""))
        write_doc(fn, trace_doc(events, rank=rank, world_size=len(per_rank_events)))
    return dirpath


def basic_training_trace(base: int = 1_000_000, steps: int = 2, rank: int = 0) -> List[Dict[str, Any]]:
    """A small causally-consistent trace: per step one annotation, two ops each launching one kernel, a memcpy and a sync."""
    evs: List[Dict[str, Any]] = []
    corr = 10 + 1000 * rank
    t = base
    ktime = base + 20
    for s in range(steps):
        step_start = t
        body: List[Dict[str, Any]] = []
        t += 2
        for j in range(2):
            op_start = t
            l_ts = t + 3
            body.append(host_op(f"aten::op{j}", op_start, 20))
            body.append(launch(l_ts, 5, corr))
            kts = max(ktime, l_ts + 6)
            kname = "ncclKernel_AllReduce_RING" if j == 1 else f"void gemm_kernel_{j}"
            body.append(kernel(kname, kts, 25 + 5 * j, 7, corr))
            ktime = kts + 25 + 5 * j + 3
            corr += 1
            t += 25
        # memcpy
        body.append(host_op("aten::copy_", t, 15))
        body.append(launch(t + 2, 5, corr, name="cudaMemcpyAsync"))
        kts = max(ktime, t + 8)
        body.append(memcpy("Memcpy HtoD (Pageable -> Device)", kts, 10, 7, corr, nbytes=4096, bw=2.5))
        ktime = kts + 13
        corr += 1
        t += 20
        # sync
        sync_end = max(ktime + 2, t + 5)
        body.append(launch(t, sync_end - t, corr, name="cudaDeviceSynchronize"))
        corr += 1
        t = sync_end + 3
        evs.append(profiler_step(s + 1, step_start, t - step_start))
        evs.extend(body)
        t += 4
    return evs
