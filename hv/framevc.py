"""FrameVC — symbolic tables for pandas pipelines (relational model, DESIGN.md section 3.3).

A DataFrame is a set of rows of a *universe* (rows are tuples of z3 Ints naming rows of the base table(s)), a presence
predicate over that universe and per-column value/null functions.  Selections strengthen the presence predicate,
element-wise operations compose column functions, joins build pair universes.  Every pandas method used is executed
against an ASSUMED contract of that method (the table at the end of this file lists them; they are part of the trusted
base and are differential-tested against the installed pandas by tools/pandas_diff.py).  A method or argument pattern
without a contract raises `Unsupported` => the function's obligations are undecided (never skipped).

Postconditions are proved for a skolem row: `out.present(r) <=> spec(r)` and `out.col(r) == spec_value(r)`.
"""
from __future__ import annotations

import ast
import copy
import itertools
from typing import Any, Callable, Dict, List, Optional, Tuple

import z3

from . import pyvc
from .pyvc import Unsupported, is_sym, to_z3, z_and, z_ite, z_not, z_or

_uid = itertools.count()
ASSUMED: List[str] = []  # contracts of pandas methods exercised in this process (reported as assumptions)


def _assume(txt: str) -> None:
    if txt not in ASSUMED:
        ASSUMED.append(txt)


def _freeze(f):
    """Python evaluates `s.apply(f)` eagerly; our column functions are evaluated lazily, so a closure that reads a frame which
    is mutated later (e.g. `df.loc[m, c] = df[x].apply(lambda v: df.loc[v, c])`) must see the frame as it was at the call."""
    if isinstance(f, pyvc.Closure):
        return pyvc.Closure(f.node, copy.deepcopy(f.env))
    return f


class Universe:
    def __init__(self, name: str, arity: int = 1, parents: Optional[List["Universe"]] = None):
        self.name = f"{name}#{next(_uid)}"
        self.arity = arity
        self.parents = parents or []

    def skolem(self, tag: str = "r") -> Tuple[Any, ...]:
        return tuple(z3.Int(f"{tag}_{self.name}_{i}") for i in range(self.arity))

    def __deepcopy__(self, memo):
        return self


NULL = object()  # python-side marker for a missing value (NaN / None)


class Col:
    def __init__(self, val: Callable, null: Optional[Callable] = None, dtype: str = "int"):
        self.val = val
        self.null = null  # None = never null
        self.dtype = dtype

    def isnull(self, r):
        return self.null(r) if self.null is not None else False

    def __deepcopy__(self, memo):
        return self  # immutable


def _lift_scalar(v):
    """scalar -> (val fn, null fn)"""
    if v is None or v is NULL or (isinstance(v, float) and v != v):
        return (lambda r: z3.IntVal(0)), (lambda r: True)
    return (lambda r, _v=v: _v), None


class SymSeries:
    def __init__(self, uni: Universe, col: Col, present: Callable, name: str = "", label: Optional[Callable] = None):
        self.uni, self.col, self.present, self.name, self.label = uni, col, present, name, label

    def __deepcopy__(self, memo):
        return self  # immutable value

    # -- helpers
    def _other(self, other):
        """returns (val fn, null fn or None) of the other operand aligned with self"""
        if isinstance(other, Extreme):
            return (lambda r, _o=other: _o.M), (lambda r, _o=other: z3.Not(_o.nonempty))
        if isinstance(other, SymSeries):
            if other.uni is not self.uni:
                raise Unsupported("binary operation between series of different universes")
            return other.col.val, other.col.null
        return _lift_scalar(other)

    def _mk(self, val, null, dtype):
        return SymSeries(self.uni, Col(val, null, dtype), self.present, self.name, self.label)

    @staticmethod
    def _nulls(a, b):
        if a is None and b is None:
            return None
        return lambda r: z_or(a(r) if a else False, b(r) if b else False)

    def hv_binop(self, ex, op, other, reflected, pc):
        ov, on = self._other(other)
        sv, sn = self.col.val, self.col.null
        if isinstance(op, (ast.BitAnd, ast.BitOr)):
            f = z_and if isinstance(op, ast.BitAnd) else z_or
            # boolean masks: nulls are treated as False by pandas' comparisons upstream; masks here are never null
            return self._mk(lambda r: f(pyvc.truth(sv(r)), pyvc.truth(ov(r))), None, "bool")
        if reflected:
            val = lambda r: ex.binop(op, ov(r), sv(r), pc)
        else:
            val = lambda r: ex.binop(op, sv(r), ov(r), pc)
        dt = "float" if isinstance(op, ast.Div) else self.col.dtype
        return self._mk(val, self._nulls(sn, on), dt)

    def hv_ite(self, c, other, swapped):
        ov, on = self._other(other)
        sv, sn = self.col.val, self.col.null
        if swapped:
            val = lambda r: z_ite(c, ov(r), sv(r))
            null = (lambda r: z_ite(c, on(r) if on else False, sn(r) if sn else False)) if (on or sn) else None
        else:
            val = lambda r: z_ite(c, sv(r), ov(r))
            null = (lambda r: z_ite(c, sn(r) if sn else False, on(r) if on else False)) if (on or sn) else None
        return self._mk(val, null, self.col.dtype)

    def hv_unary(self, ex, op):
        if isinstance(op, ast.Invert):
            return self._mk(lambda r: z_not(pyvc.truth(self.col.val(r))), None, "bool")
        if isinstance(op, ast.USub):
            return self._mk(lambda r: -self.col.val(r), self.col.null, self.col.dtype)
        raise Unsupported("unary op on series")

    def hv_compare(self, ex, op, other, reflected):
        ov, on = self._other(other)
        sv, sn = self.col.val, self.col.null
        nn = self._nulls(sn, on)
        neq = isinstance(op, ast.NotEq)

        def val(r):
            c = ex.compare(op, ov(r), sv(r)) if reflected else ex.compare(op, sv(r), ov(r))
            if nn is None:
                return c
            # comparisons with NaN are False, except != which is True
            return z_or(nn(r), c) if neq else z_and(z_not(nn(r)), c)

        return self._mk(val, None, "bool")

    def hv_getattr(self, ex, attr, pc):
        if attr == "values":
            return self
        if attr == "str":
            return StrAccessor(self)
        if attr == "dtype":
            return DType(self.col.dtype)
        if attr == "index":
            return IndexOf(self)
        return NotImplemented

    def hv_call_method(self, ex, attr, args, kwargs, pc, env):
        cmpops = {"eq": ast.Eq, "ne": ast.NotEq, "gt": ast.Gt, "ge": ast.GtE, "lt": ast.Lt, "le": ast.LtE}
        if attr in cmpops:
            _assume(f"pandas Series.{attr}(x): element-wise comparison, False where either side is NaN (True for ne)")
            return self.hv_compare(ex, cmpops[attr](), args[0], False)
        if attr in ("isnull", "isna"):
            _assume("pandas Series.isnull/isna: True exactly on missing values")
            return self._mk(lambda r: self.col.isnull(r), None, "bool")
        if attr in ("notnull", "notna"):
            return self._mk(lambda r: z_not(self.col.isnull(r)), None, "bool")
        if attr == "isin":
            _assume("pandas Series.isin(values): element-wise membership; NaN is not a member of a list without NaN")
            vals = args[0]
            if isinstance(vals, SymSeries):
                vals = SeriesValueSet(vals)
            # UnionValues / IdSet / SymSet / lists go through ex.contains
            sv, sn = self.col.val, self.col.null

            def val(r):
                m = ex.contains(vals, sv(r))
                return z_and(z_not(sn(r)), m) if sn else m

            return self._mk(val, None, "bool")
        if attr == "apply":
            _assume("pandas Series.apply(f): f applied to every element, result aligned with the input rows")
            f = _freeze(args[0])
            sv, pres = self.col.val, self.present
            # obligations raised inside f (KeyError, IndexError, ...) are obligations for the rows of the series only
            return self._mk(lambda r: ex.call(f, [sv(r)], {}, pc + [pres(r)], env), self.col.null, kwargs.get("_dtype", self.col.dtype))
        if attr in ("copy", "to_numpy", "tolist", "to_list"):
            return self
        if attr == "astype":
            _assume("pandas Series.astype(int|float|'int64'): value preserving on integer-valued columns, truncation toward zero on real-valued ones; precondition for int: no nulls")
            tgt = args[0] if args else kwargs.get("dtype")
            if tgt in (int, "int", "int64", "int32") or (isinstance(tgt, pyvc.Builtin) and tgt.name == "int"):
                ex.oblige("astype_int_no_null", pc, z3.BoolVal(True), "")
                if self.col.null is not None:
                    r = self.uni.skolem("astype")
                    ex.oblige("astype_int_requires_non_null", pc + [self.present(r)], z_not(self.col.isnull(r)), "astype(int) raises on NaN")
                sv0 = self.col.val

                def trunc(r):  # a Real-valued element is truncated toward zero, as numpy does; Int-valued ones are unchanged
                    v = sv0(r)
                    if z3.is_expr(v) and v.sort() == z3.RealSort():
                        return z3.If(v >= 0, z3.ToInt(v), -z3.ToInt(-v))
                    return v
                return self._mk(trunc, None, "int")
            return self
        if attr == "clip":
            _assume("pandas Series.clip(lower=a, upper=b): element-wise max(a, min(b, x)); NaN stays NaN")
            lo = kwargs.get("lower", args[0] if args else None)
            hi = kwargs.get("upper", args[1] if len(args) > 1 else None)
            sv = self.col.val

            def val(r):
                v = sv(r)
                if lo is not None:
                    v = z_ite(to_z3(v) < to_z3(lo), lo, v)
                if hi is not None:
                    v = z_ite(to_z3(v) > to_z3(hi), hi, v)
                return v

            return self._mk(val, self.col.null, self.col.dtype)
        if attr == "fillna":
            _assume("pandas Series.fillna(v): v where missing, unchanged elsewhere")
            v = args[0] if args else kwargs.get("value")
            sv, sn = self.col.val, self.col.null
            if sn is None:
                return self
            return self._mk(lambda r: z_ite(sn(r), v, sv(r)), None, self.col.dtype)
        if attr == "abs":
            sv = self.col.val
            return self._mk(lambda r: z3.If(to_z3(sv(r)) >= 0, to_z3(sv(r)), -to_z3(sv(r))), self.col.null, self.col.dtype)
        if attr == "sum":
            _assume("pandas Series.sum(): the sum of the non-missing values (kept abstract: one symbol per series)")
            return pyvc.fresh("series_sum", z3.IntSort() if self.col.dtype in ("int", "bool") else z3.RealSort())
        if attr == "unique":
            return SeriesValueSet(self)
        if attr == "cumsum" and not args:
            _assume("pandas Series.cumsum(): running total in row order (kept abstract in the relational model: one uninterpreted column)")
            k = next(_uid)
            sort = z3.IntSort() if self.col.dtype in ("int", "bool") else z3.RealSort()
            fn = z3.Function(f"cumsum{k}", *([z3.IntSort()] * self.uni.arity), sort)
            return self._mk(lambda r, _f=fn: _f(*r), None, "int" if sort == z3.IntSort() else "float")
        if attr == "rank" and not args and self.col.null is None and self.col.dtype in ("int", "float"):
            method = kwargs.get("method", "average")
            asc = kwargs.get("ascending", True)
            if method not in ("min", "max", "average", "dense", "first") or not isinstance(asc, bool) or set(kwargs) - {"method", "ascending"}:
                raise Unsupported("Series.rank arguments")
            _assume("pandas Series.rank(method, ascending): a number in [1, n] per row, strictly monotone in the value (direction by `ascending`), equal for equal values unless method='first' (kept abstract otherwise)")
            k = next(_uid)
            fn = z3.Function(f"rank{k}", *([z3.IntSort()] * self.uni.arity), z3.RealSort())
            a, b = self.uni.skolem(f"ra{k}"), self.uni.skolem(f"rb{k}")
            pa, pb = to_z3(self.present(a)), to_z3(self.present(b))
            va, vb = to_z3(self.col.val(a)), to_z3(self.col.val(b))
            ex.facts.append(z3.ForAll(list(a), z3.Implies(pa, fn(*a) >= 1), patterns=[fn(*a)]))
            ex.facts.append(z3.ForAll(list(a) + list(b), z3.Implies(z3.And(pa, pb, (va < vb) if asc else (va > vb)), fn(*a) < fn(*b)), patterns=[z3.MultiPattern(fn(*a), fn(*b))]))
            if method != "first":
                ex.facts.append(z3.ForAll(list(a) + list(b), z3.Implies(z3.And(pa, pb, va == vb), fn(*a) == fn(*b)), patterns=[z3.MultiPattern(fn(*a), fn(*b))]))
            return self._mk(lambda r, _f=fn: _f(*r), None, "float")
        if attr == "quantile" and len(args) == 1:
            _assume("pandas Series.quantile(q): a number (kept abstract)")
            return pyvc.fresh("quantile", z3.RealSort())
        if attr in ("max", "min"):
            return series_extreme(ex, self, attr == "max", pc)
        if attr == "item":
            raise Unsupported("Series.item()")
        raise Unsupported(f"Series.{attr}")


class SeriesValueSet:
    """The set of (non-null) values a series takes on its present rows: membership needs a witness row (existential)."""

    def __init__(self, s: SymSeries):
        self.s = s

    def __deepcopy__(self, memo):
        return self

    def hv_contains(self, ex, item):
        s = self.s
        w = s.uni.skolem(f"w{next(_uid)}")
        body = z_and(s.present(w), z_not(s.col.isnull(w)), to_z3(s.col.val(w)) == to_z3(item))
        return z3.Exists(list(w), to_z3(body))

    def hv_sorted(self, ex, pc):
        return copy.deepcopy(sorted_unique(ex, self.s).lst)  # the caller may mutate its list (pop, append)

    def hv_call_method(self, ex, attr, args, kwargs, pc, env):
        if attr == "tolist" and not args:
            return copy.deepcopy(enumeration_of_values(ex, self.s, "first_appearance").lst)
        return NotImplemented


class ValueEnumeration:
    """A duplicate-free list of exactly the non-null values a series takes on its present rows; `ordered`: ascending."""

    def __init__(self, lst, pos, wit):
        self.lst, self.pos, self.wit = lst, pos, wit


def enumeration_of_values(ex, s: "SymSeries", order: str) -> ValueEnumeration:
    """ASSUMED contract of Series.unique() (+ sorted()): a functional of the series - the same series gives the same list."""
    cache = ex.__dict__.setdefault("_value_enumerations", {})
    key = (order, s.uni.name, id(s.col), id(s.present))
    if key in cache:
        return cache[key][0]
    _assume("pandas Series.unique(): every non-missing value of the series exactly once" + ("; sorted(): ascending" if order == "sorted" else "; .tolist(): in some order (order of first appearance)"))
    sort = to_z3(s.col.val(s.uni.skolem("srt"))).sort()
    tag = f"{order}_{next(_uid)}"
    lst = pyvc.SymList(sort, f"values_{tag}")
    n = lst.length
    i, j = z3.Ints(f"vi_{tag} vj_{tag}")
    pos = z3.Function(f"position_{tag}", sort, z3.IntSort())
    wit = [z3.Function(f"witness_{tag}_{k}", z3.IntSort(), z3.IntSort()) for k in range(s.uni.arity)]
    w = tuple(f(i) for f in wit)
    rel = (lst.at(i) < lst.at(j)) if order == "sorted" else (lst.at(i) != lst.at(j))
    ex.facts.append(n >= 0)
    ex.facts.append(z3.ForAll([i, j], z3.Implies(z3.And(i >= 0, i < j, j < n), rel), patterns=[z3.MultiPattern(lst.at(i), lst.at(j))]))
    ex.facts.append(z3.ForAll([i], z3.Implies(z3.And(i >= 0, i < n), to_z3(z_and(s.present(w), z_not(s.col.isnull(w)), to_z3(s.col.val(w)) == lst.at(i)))), patterns=[lst.at(i)]))
    r = s.uni.skolem(f"er_{tag}")
    v = to_z3(s.col.val(r))
    body = z3.Implies(to_z3(z_and(s.present(r), z_not(s.col.isnull(r)))), z3.And(pos(v) >= 0, pos(v) < n, lst.at(pos(v)) == v))
    ex.facts.append(z3.ForAll(list(r), body, patterns=[pos(v)] if not z3.is_const(v) else []))
    res = ValueEnumeration(lst, pos, wit)
    cache[key] = (res, s)  # keeps the series alive: ids stay unique
    return res


def sorted_unique(ex, s: "SymSeries") -> ValueEnumeration:
    return enumeration_of_values(ex, s, "sorted")


class DType:
    def __init__(self, tag):
        self.tag = tag

    def hv_getattr(self, ex, attr, pc):
        if attr == "kind":
            return {"int": "i", "float": "f", "bool": "b", "str": "O", "object": "O"}[self.tag]
        return NotImplemented

    def hv_compare(self, ex, op, other, reflected):
        # pandas 3 dtype-tag contract: string columns have dtype `str` (kind "O") which is NOT equal to "object"/object;
        # only genuine object columns compare equal to "object"
        _assume("pandas 3 dtype tags: a string column has dtype str (kind 'O'), unequal to 'object'; int64 kind 'i'; float64 kind 'f'")
        if isinstance(other, pyvc.Builtin) and other.name == "object":
            other = "object"
        if not isinstance(other, str):
            raise Unsupported("dtype comparison with a non-string")
        names = {"int": ("int64", "int"), "float": ("float64", "float"), "bool": ("bool",), "str": ("str", "string"), "object": ("object", "O")}
        eq = other in names.get(self.tag, ())
        if isinstance(op, ast.Eq):
            return eq
        if isinstance(op, ast.NotEq):
            return not eq
        raise Unsupported("dtype ordering")


class IndexUnion:
    def __init__(self, parts):
        self.parts = parts

    def __deepcopy__(self, memo):
        return self


class IndexOf:
    def __init__(self, owner):
        self.owner = owner

    def hv_call_method(self, ex, attr, args, kwargs, pc, env):
        if attr == "union" and isinstance(args[0], IndexOf):
            _assume("pandas Index.union: the labels of either index")
            return IndexUnion([self.owner, args[0].owner])
        return NotImplemented

    def hv_compare(self, ex, op, other, reflected):
        o = self.owner
        if getattr(o, "label", None) is None or isinstance(other, (SymSeries, IndexOf)):
            raise Unsupported("comparison of an index with unknown labels / with another index")
        _assume("pandas Index compared with a scalar: element-wise over the labels")
        lab = o.label
        return SymSeries(o.uni, Col((lambda r: ex.compare(op, other, lab(r)) if reflected else ex.compare(op, lab(r), other)), None, "bool"), o.present, "index_cmp", o.label)

    def hv_setattr(self, ex, attr, v, pc):
        if attr in ("names", "name"):
            return  # naming the index does not change rows, labels or contents
        raise Unsupported(f"assignment to index.{attr}")

    def __deepcopy__(self, memo):
        return self


class StrAccessor:
    def __init__(self, s: SymSeries):
        self.s = s

    def hv_call_method(self, ex, attr, args, kwargs, pc, env):
        s = self.s
        if attr in ("match", "contains", "startswith", "fullmatch"):
            _assume(f"pandas Series.str.{attr}(pat): element-wise; the matching predicate is an uninterpreted function of (pattern, string) shared by every use")
            pat = args[0]
            pred = str_pred(attr, pat)
            return s._mk(lambda r: pred(s.col.val(r)), None, "bool")
        raise Unsupported(f"Series.str.{attr}")


_str_preds: Dict[Tuple[str, str], Any] = {}


def str_pred(kind: str, pat) -> Callable:
    """Uninterpreted predicate String-id/String -> Bool for a regex/substring test with a concrete or symbolic pattern."""
    if kind == "startswith" and isinstance(pat, str):
        return lambda v: z3.PrefixOf(z3.StringVal(pat), to_z3(v)) if z3.is_string(to_z3(v)) else _upred(kind, pat)(v)
    return _upred(kind, pat)


def _upred(kind, pat):
    key = (kind, str(pat))
    def f(v):
        zv = to_z3(v)
        k = (kind, str(pat), str(zv.sort()))
        if k not in _str_preds:
            _str_preds[k] = z3.Function(f"str_{kind}_{abs(hash(str(pat))) % 10**6}", zv.sort(), z3.BoolSort())
        return _str_preds[k](zv)
    return f


def series_extreme(ex, s: SymSeries, is_max: bool, pc):
    """max()/min() of a series: a fresh constant M with  (forall present non-null r: val(r) <= M)  and a witness row."""
    _assume("pandas Series.max()/min(): the extreme of the non-null values (NaN when there is none)")
    sort = z3.IntSort()
    M = pyvc.fresh("smax" if is_max else "smin", sort)
    r = s.uni.skolem(f"q{next(_uid)}")
    w = s.uni.skolem(f"wit{next(_uid)}")
    inb = z_and(s.present(r), z_not(s.col.isnull(r)))
    bound = z3.ForAll(list(r), z3.Implies(to_z3(inb), (to_z3(s.col.val(r)) <= M) if is_max else (to_z3(s.col.val(r)) >= M)))
    nonempty = pyvc.fresh("nonempty", z3.BoolSort())
    wit = z3.Implies(nonempty, z3.And(to_z3(z_and(s.present(w), z_not(s.col.isnull(w)))), to_z3(s.col.val(w)) == M))
    empty = z3.Implies(z3.Not(nonempty), z3.ForAll(list(r), z3.Not(to_z3(inb))))
    ex.facts.extend([bound, wit, empty])
    return Extreme(M, nonempty, w)


class Extreme:
    """Result of max()/min(): value M, defined iff `nonempty` (NaN otherwise); comparisons with NaN are False."""

    def __init__(self, M, nonempty, witness):
        self.M, self.nonempty, self.witness = M, nonempty, witness

    def __deepcopy__(self, memo):
        return self


class SymGroupBy:
    """df.groupby(key) kept abstract: contracts that iterate over it run the loop body on a window over one group;
    groupby(key)[col].agg([...]) gives an aggregate table (agg_table)."""

    def __init__(self, df, key):
        self.df, self.key = df, key

    def __deepcopy__(self, memo):
        return self

    def hv_getitem(self, ex, idx, pc):
        if isinstance(idx, str):
            return GroupCol(self, idx)
        raise Unsupported("groupby(...)[<non-string>]")


class GroupCol:
    def __init__(self, gb: SymGroupBy, col: str):
        self.gb, self.col = gb, col

    def __deepcopy__(self, memo):
        return self

    def hv_call_method(self, ex, attr, args, kwargs, pc, env):
        if attr == "agg" and len(args) == 1 and isinstance(args[0], list) and all(isinstance(f, str) for f in args[0]):
            return agg_table(ex, self.gb.df, self.gb.key, self.col, args[0])
        return NotImplemented


AGG_FUNCS = ("sum", "max", "min", "mean", "std", "count")


def agg_table(ex, df: "SymDF", key, col: str, funcs: List[str]) -> "SymDF":
    """df.groupby(by=[k])[col].agg([f1, f2, ...]): one row per distinct non-missing key value among the rows of df, labelled
    by the key, columns f1, f2, ... holding that group's aggregate of `col`.

    Model: the table lives on df's own universe - a group is represented by ONE of its rows, chosen by a function REP of
    the key value; the aggregates are uninterpreted functions of (this table, key value).  What each aggregate IS (the sum /
    max / ... of the group's values) is the assumed pandas contract; contracts state their postconditions in terms of the
    `agg_of` accessors of the table."""
    if isinstance(key, list):
        if len(key) != 1:
            raise Unsupported("groupby over several keys")
        key = key[0]
    if not isinstance(key, str) or key not in df.cols or col not in df.cols:
        raise Unsupported("groupby key / column")
    bad = [f for f in funcs if f not in AGG_FUNCS]
    if bad:
        raise Unsupported(f"aggregate functions {bad}")
    _assume("pandas groupby(by=[k])[c].agg([...]): one row per distinct non-missing key, labelled by the key, in key order; each column is that group's aggregate of c "
            "(std: sample standard deviation, missing for a one-row group)")
    k = next(_uid)
    kc, vc = df.cols[key], df.cols[col]
    probe = to_z3(kc.val(df.uni.skolem("ak")))
    ksort = probe.sort()
    rep = [z3.Function(f"agg{k}_rep{i}", ksort, z3.IntSort()) for i in range(df.uni.arity)]
    pres = df.present

    def REP(v):
        return tuple(f(v) for f in rep)

    r = df.uni.skolem(f"ar{k}")
    kv = to_z3(kc.val(r))
    member = to_z3(z_and(pres(r), z_not(kc.isnull(r))))
    w = REP(kv)
    ex.facts.append(z3.ForAll(list(r), z3.Implies(member, to_z3(z_and(pres(w), z_not(kc.isnull(w)), to_z3(kc.val(w)) == kv))), patterns=[rep[0](kv)] if (z3.is_app(kv) and not z3.is_const(kv) and kv.decl().kind() == z3.Z3_OP_UNINTERPRETED) else []))

    def present(rr):
        v = to_z3(kc.val(rr))
        return z_and(pres(rr), z_not(kc.isnull(rr)), *[REP(v)[i] == rr[i] for i in range(df.uni.arity)])

    num_sort = z3.IntSort() if vc.dtype in ("int", "bool") else z3.RealSort()
    cols: Dict[str, Col] = {}
    aggs = {}
    for f in funcs:
        sort = z3.RealSort() if f in ("mean", "std") else (z3.IntSort() if f == "count" else num_sort)
        fn = z3.Function(f"agg{k}_{f}", ksort, sort)
        aggs[f] = fn
        if f == "std":
            nf = z3.Function(f"agg{k}_std_isnull", ksort, z3.BoolSort())
            cols[f] = Col((lambda rr, _fn=fn: _fn(to_z3(kc.val(rr)))), (lambda rr, _nf=nf: _nf(to_z3(kc.val(rr)))), "float")
        else:
            cols[f] = Col((lambda rr, _fn=fn: _fn(to_z3(kc.val(rr)))), None, "float" if sort == z3.RealSort() else "int")
    out = SymDF(df.uni, cols, present, lambda rr: kc.val(rr), f"agg_{key}_{col}", ("groupby", k, key))
    out.label_name = key
    out.label_col = Col(kc.val, None, kc.dtype)
    out.agg_of = aggs  # f -> function of the key value
    out.agg_source = (df, key, col)
    ex.__dict__.setdefault("_agg_tables", []).append(out)
    return out


class RowView:
    """One row of a frame as seen by a row-wise lambda: row["col"] / row.col."""

    def __init__(self, cols, r):
        self.cols, self.r = cols, r

    def __deepcopy__(self, memo):
        return self

    def hv_getitem(self, ex, idx, pc):
        if idx not in self.cols:
            raise Unsupported(f"row has no column {idx!r}")
        return self.cols[idx].val(self.r)

    def hv_getattr(self, ex, attr, pc):
        if attr in self.cols:
            return self.cols[attr].val(self.r)
        return NotImplemented


class FrameArray:
    """df.to_numpy(): row i / column j of the frame; `dtype_object` is True iff some column is not numeric."""

    def __init__(self, df: "SymDF"):
        self.df = df
        self.columns = list(df.cols)
        self.dtype_object = any(k.dtype in ("str", "object") for k in df.cols.values())

    def __deepcopy__(self, memo):
        return self


class Loc:
    def __init__(self, df: "SymDF"):
        self.df = df

    def __deepcopy__(self, memo):
        return Loc(copy.deepcopy(self.df, memo))

    def hv_getitem(self, ex, idx, pc):
        df = self.df
        if isinstance(idx, tuple) and len(idx) == 2 and isinstance(idx[1], str) and not isinstance(idx[0], (SymSeries, slice)) and idx[0] is not ALL:
            return df.scalar_at_label(ex, idx[0], idx[1], pc)
        if isinstance(idx, tuple) and len(idx) == 2 and isinstance(idx[0], SymSeries) and idx[0].col.dtype != "bool" and isinstance(idx[1], str):
            return df.series_at_labels(ex, idx[0], idx[1], pc)
        if isinstance(idx, tuple) and len(idx) == 2:
            rows, cols = idx
            sub = df.select(rows) if not (isinstance(rows, slice) or rows is Ellipsis or rows is ALL) else df
            if isinstance(cols, str):
                return sub.series(cols)
            if isinstance(cols, list):
                return sub.project(cols)
            raise Unsupported("loc column selector")
        if isinstance(idx, SymSeries):
            if idx.col.dtype == "bool":
                return df.select(idx)
            return df.select_labels(ex, idx)
        if isinstance(idx, IndexUnion):
            # labels of sub-frames of this very frame (same universe, labels untouched, unique): the rows of either part
            parts = idx.parts
            if not all(isinstance(p_, SymDF) and p_.uni is df.uni and p_.label is df.label for p_ in parts):
                raise Unsupported("df.loc[index union] of frames that are not label-preserving sub-frames of df")
            _assume("pandas df.loc[labels] with unique labels: the rows carrying those labels")
            pres = df.present
            return SymDF(df.uni, df.cols, lambda r: z_and(pres(r), z_or(*[p_.present(r) for p_ in parts])), df.label, df.name + "_locu", df.order)
        raise Unsupported("loc row selector")

    def hv_setitem(self, ex, idx, v, pc):
        df = self.df
        if isinstance(idx, tuple) and len(idx) == 2 and isinstance(idx[1], list) and len(idx[1]) == 1 and isinstance(idx[1][0], str):
            idx = (idx[0], idx[1][0])
        if isinstance(idx, tuple) and len(idx) == 2 and isinstance(idx[1], str):
            rows, col = idx
            if rows is ALL:
                df.assign_col(col, v, None)
                return
            if isinstance(rows, SymSeries) and rows.col.dtype == "bool":
                df.assign_col(col, v, rows)
                return
            if isinstance(rows, SymSeries) and isinstance(v, SymSeries) and v.uni is rows.uni:
                df.scatter(ex, col, rows, v)
                return
        raise Unsupported("loc assignment pattern")


ALL = object()


class SymDF:
    def __init__(self, uni: Universe, cols: Dict[str, Col], present: Callable, label: Optional[Callable] = None, name: str = "df", order=None):
        self.uni, self.cols, self.present, self.label, self.name = uni, dict(cols), present, label, name
        self.written: List[str] = []  # columns assigned through this object (frame condition)
        self.inplace_row_changes = 0
        self.order = order if order is not None else ("base", uni.name)  # row order tag: selections keep it, sorts replace it

    def __deepcopy__(self, memo):
        d = SymDF(self.uni, dict(self.cols), self.present, self.label, self.name, self.order)
        d.written = list(self.written)
        d.inplace_row_changes = self.inplace_row_changes
        memo[id(self)] = d
        return d

    # -- construction helpers for contracts
    @staticmethod
    def base(name: str, columns: Dict[str, Tuple[Any, bool, str]], nrows=None) -> "SymDF":
        """columns: name -> (z3 sort, nullable, dtype tag).  Row i of the base universe is position i of the frame."""
        uni = Universe(name)
        cols = {}
        for c, (sort, nullable, dt) in columns.items():
            f = z3.Function(f"{name}_{c}", z3.IntSort(), sort)
            nf = z3.Function(f"{name}_{c}_isnull", z3.IntSort(), z3.BoolSort()) if nullable else None
            cols[c] = Col((lambda r, _f=f: _f(r[0])), (lambda r, _n=nf: _n(r[0])) if nf is not None else None, dt)
        n = nrows if nrows is not None else z3.Int(f"{name}_nrows")
        return SymDF(uni, cols, lambda r, _n=n: z3.And(r[0] >= 0, r[0] < _n), None, name)

    def nrows(self, ex):
        """the number of rows as one symbol per (universe, presence predicate)"""
        cache = ex.__dict__.setdefault("_nrows", {})
        key = (self.uni.name, id(self.present))
        if key not in cache:
            n = pyvc.fresh("nrows", z3.IntSort())
            w = self.uni.skolem(f"nw{next(_uid)}")
            ex.facts.append(n >= 0)
            ex.facts.append(z3.Implies(n > 0, to_z3(self.present(w))))
            r = self.uni.skolem(f"nr{next(_uid)}")
            pr = to_z3(self.present(r))
            ex.facts.append(z3.ForAll(list(r), z3.Implies(pr, n > 0)))
            cache[key] = (n, self.present)
        return cache[key][0]

    # -- core ops
    def series(self, col: str) -> SymSeries:
        if col not in self.cols:
            raise Unsupported(f"KeyError: column {col!r} not in frame {self.name} (columns {list(self.cols)})")
        return SymSeries(self.uni, self.cols[col], self.present, col, self.label)

    def select(self, mask) -> "SymDF":
        if not isinstance(mask, SymSeries) or mask.uni is not self.uni:
            raise Unsupported("row selection needs a boolean series of the same universe")
        _assume("pandas df[mask] / df.loc[mask]: the rows where mask is True, in order, contents and labels unchanged; the result is a copy (pandas 3 copy-on-write)")
        mv, pres = mask.col.val, self.present
        out = SymDF(self.uni, self.cols, lambda r: z_and(pres(r), pyvc.truth(mv(r))), self.label, self.name + "_sel", self.order)
        return out

    def scalar_at_label(self, ex, label, col: str, pc):
        """df.loc[label, col] for a scalar label: the value of `col` in the row carrying that label (KeyError obligation)."""
        _assume("pandas df.loc[label, col] (unique labels): the cell of the row carrying the label; KeyError if there is none")
        if self.label is None:
            raise Unsupported("scalar label look-up on a frame with unknown labels")
        if not hasattr(self, "_label_wit"):
            k = next(_uid)
            self._label_wit = [z3.Function(f"lab{k}_w{i}", z3.IntSort(), z3.IntSort()) for i in range(self.uni.arity)]
            r = self.uni.skolem(f"lw{k}")
            x = z3.Int(f"lx{k}")
            lab, pres, wit = self.label, self.present, self._label_wit
            ex.facts.append(z3.ForAll(list(r), z3.Implies(to_z3(pres(r)), z3.And(to_z3(pres(tuple(f(to_z3(lab(r))) for f in wit))),
                                                                           *[f(to_z3(lab(r))) == ri for f, ri in zip(wit, r)])),
                                      patterns=[to_z3(pres(r))] if z3.is_app(to_z3(pres(r))) and False else []))
            # the instance needed at use sites: for the label looked up, if some row carries it, the witness is that row
            self._label_wit_axiom = lambda row: z3.Implies(to_z3(pres(row)), z3.And(*[f(to_z3(lab(row))) == ri for f, ri in zip(wit, row)]))
        w = tuple(f(to_z3(label)) for f in self._label_wit)
        ex.oblige(f"loc_scalar_keyerror_{col}", pc + list(ex.facts), z3.And(to_z3(self.present(w)), to_z3(self.label(w)) == to_z3(label)), "KeyError absence on df.loc[label, col]")
        return self.cols[col].val(w)

    def series_at_labels(self, ex, labels: SymSeries, col: str, pc) -> SymSeries:
        """df.loc[label_series, col]: positionally aligned with the label series - element m is the cell of `col` in the row
        carrying label labels(m) (KeyError obligation; unique labels)."""
        _assume("pandas df.loc[label_series, col] (unique labels): one value per element of the label series, the cell of the row carrying that label; KeyError if missing")
        if col not in self.cols:
            raise Unsupported(f"KeyError: column {col!r}")
        m = labels.uni.skolem(f"sl{next(_uid)}")
        # reuse the label-witness machinery of scalar look-ups (creates the witness functions and their axiom on first use)
        probe_pc = list(pc) + [to_z3(labels.present(m))]
        self.scalar_at_label(ex, labels.col.val(m), col, probe_pc)
        wit, kc = self._label_wit, self.cols[col]

        def val(r):
            return kc.val(tuple(f(to_z3(labels.col.val(r))) for f in wit))

        nullf = (lambda r: kc.null(tuple(f(to_z3(labels.col.val(r))) for f in wit))) if kc.null is not None else None
        return SymSeries(labels.uni, Col(val, nullf, kc.dtype), labels.present, col, labels.label)

    def select_labels(self, ex, labels: SymSeries) -> "SymDF":
        """df.loc[label_series]: the rows whose label occurs in the series (KeyError obligation for labels not in the frame).
        Order and multiplicity follow the label series; for a duplicate-free series taken in frame order (the only use in
        the anchored code) that is the frame's own order."""
        _assume("pandas df.loc[label_series]: the rows carrying those labels, in the order of the series (KeyError if a label is missing)")
        if self.label is None:
            raise Unsupported("label selection on a frame with unknown labels")
        lab, pres = self.label, self.present
        lp, lv, ln = labels.present, labels.col.val, labels.col.null
        k = next(_uid)
        w = labels.uni.skolem(f"lw{k}")

        def present(r):
            return z_and(pres(r), z3.Exists(list(w), to_z3(z_and(lp(w), to_z3(lv(w)) == to_z3(lab(r))))))

        m2 = labels.uni.skolem(f"lk{k}")
        r2 = self.uni.skolem(f"lkr{k}")
        ex.oblige(f"loc_labels_keyerror_{k}", [to_z3(lp(m2))], z3.Exists(list(r2), z3.And(to_z3(pres(r2)), to_z3(lab(r2)) == to_z3(lv(m2)))),
                  "every selected label exists in the frame (KeyError absence)")
        return SymDF(self.uni, self.cols, present, self.label, self.name + "_loclab", self.order)

    def project(self, cols: List[str]) -> "SymDF":
        for c in cols:
            if c not in self.cols:
                raise Unsupported(f"KeyError: column {c!r}")
        return SymDF(self.uni, {c: self.cols[c] for c in cols}, self.present, self.label, self.name + "_proj", self.order)

    def assign_col(self, col: str, v, mask: Optional[SymSeries]) -> None:
        _assume("pandas df[col] = v / df.loc[mask, col] = v: assigns the column on the selected rows, aligning a Series operand on (unique) index labels; other columns and rows unchanged")
        old = self.cols.get(col)
        if isinstance(v, SymSeries):
            if v.uni is not self.uni:
                raise Unsupported("assignment from a series of another universe")
            nv, nn, dt = v.col.val, v.col.null, v.col.dtype
            vp = v.present
            # alignment: rows of self not present in v receive NaN
            val_new = nv
            null_new = (lambda r: z_or(z_not(vp(r)), nn(r) if nn else False))
            if vp is self.present:
                null_new = nn
        elif isinstance(v, Extreme):
            raise Unsupported("assigning an aggregate")
        else:
            val_new, null_new = _lift_scalar(v)
            dt = "str" if isinstance(v, str) else ("float" if isinstance(v, float) else ("bool" if isinstance(v, bool) else "int"))
        if mask is None:
            self.cols[col] = Col(val_new, null_new, dt)
        else:
            if mask.uni is not self.uni:
                raise Unsupported("mask of another universe")
            mv = mask.col.val
            if old is None:
                ov, on = (lambda r: z3.IntVal(0)), (lambda r: True)
            else:
                ov, on = old.val, old.null
            def val(r):
                return z_ite(pyvc.truth(mv(r)), val_new(r), ov(r))
            if null_new is None and on is None:
                null = None
            else:
                def null(r):
                    return z_ite(pyvc.truth(mv(r)), null_new(r) if null_new else False, on(r) if on else False)
            self.cols[col] = Col(val, null, dt if old is None else old.dtype)
        if col not in self.written:
            self.written.append(col)

    def scatter(self, ex, col: str, labels: SymSeries, values: SymSeries) -> None:
        """df.loc[labels, col] = values  (positional pairing of a label series and a value array of one source table).

        Assumed contract: for every source row m, the row(s) of df whose label equals labels(m) receive values(m); when
        several source rows name the same label one of them wins (modelled as an arbitrary one); a label that is not in
        the frame raises KeyError (obligation).  Requires the frame's labels to be known (self.label)."""
        _assume("pandas df.loc[label_series, col] = array: positional pairing; each named label receives its value (an arbitrary one of several "
                "for duplicate labels); KeyError for a label not in the index")
        if self.label is None:
            raise Unsupported("label scatter into a frame with unknown labels")
        src = labels.uni
        k = next(_uid)
        wit = [z3.Function(f"scat{k}_w{i}", *([z3.IntSort()] * self.uni.arity), z3.IntSort()) for i in range(src.arity)]
        lab, lp, lv, vv = self.label, labels.present, labels.col.val, values.col.val
        old = self.cols.get(col)
        if old is None:
            raise Unsupported("scatter into a new column")

        def w(r):
            return tuple(f(*r) for f in wit)

        # choice axiom: if some source row names label(r), then w(r) is such a row
        r = self.uni.skolem(f"sr{k}")
        m = src.skolem(f"sm{k}")
        ex.facts.append(z3.ForAll(list(r) + list(m), z3.Implies(z3.And(to_z3(lp(m)), to_z3(lv(m)) == to_z3(lab(r))),
                                                               z3.And(to_z3(lp(w(r))), to_z3(lv(w(r))) == to_z3(lab(r))))))
        # KeyError absence: every label named exists in the frame
        m2 = src.skolem(f"sk{k}")
        r2 = self.uni.skolem(f"skr{k}")
        ex.oblige(f"scatter_keyerror_{col}_{k}", [to_z3(lp(m2))], z3.Exists(list(r2), z3.And(to_z3(self.present(r2)), to_z3(lab(r2)) == to_z3(lv(m2)))),
                  "every scattered label exists in the frame (KeyError absence)")
        ov, on = old.val, old.null

        def hit(rr):
            return z_and(lp(w(rr)), to_z3(lv(w(rr))) == to_z3(lab(rr)))

        self.cols[col] = Col(lambda rr: z_ite(hit(rr), vv(w(rr)), ov(rr)), (lambda rr: z_and(z_not(hit(rr)), on(rr))) if on else None, old.dtype)
        if col not in self.written:
            self.written.append(col)
        self.last_scatter_witness = w

    # -- python protocol hooks used by PyVC
    def hv_getitem(self, ex, idx, pc):
        if isinstance(idx, str):
            return self.series(idx)
        if isinstance(idx, list):
            return self.project(idx)
        if isinstance(idx, SymSeries):
            return self.select(idx)
        raise Unsupported("DataFrame subscript")

    def hv_setitem(self, ex, idx, v, pc):
        if isinstance(idx, str):
            self.assign_col(idx, v, None)
            return
        raise Unsupported("DataFrame item assignment")

    def hv_getattr(self, ex, attr, pc):
        if attr == "loc":
            return Loc(self)
        if attr == "columns":
            return list(self.cols)
        if attr == "index":
            return IndexOf(self)
        if attr == "dtypes":
            return {c: DType(k.dtype) for c, k in self.cols.items()}
        if attr == "shape":
            _assume("pandas DataFrame.shape: (number of rows, number of columns)")
            return (self.nrows(ex), len(self.cols))
        if attr == "empty":
            _assume("pandas DataFrame.empty: True iff the frame has no rows")
            e = pyvc.fresh("df_empty", z3.BoolSort())
            r = self.uni.skolem(f"e{next(_uid)}")
            w = self.uni.skolem(f"ew{next(_uid)}")
            ex.facts.append(z3.Implies(e, z3.ForAll(list(r), z3.Not(to_z3(self.present(r))))))
            ex.facts.append(z3.Implies(z3.Not(e), to_z3(self.present(w))))
            return e
        if attr in self.cols and attr not in _DF_METHODS:
            return self.series(attr)
        return NotImplemented

    def hv_setattr(self, ex, attr, v, pc):
        if attr in self.cols:
            self.assign_col(attr, v, None)
            return
        raise Unsupported(f"DataFrame attribute assignment {attr}")

    def hv_call_method(self, ex, attr, args, kwargs, pc, env):
        if attr == "copy":
            _assume("pandas DataFrame.copy(): an independent frame with the same rows, columns and labels")
            return SymDF(self.uni, self.cols, self.present, self.label, self.name + "_copy", self.order)
        if attr == "query":
            _assume("pandas DataFrame.query(expr): df[mask] for the boolean expression over column names (and/or/not, comparisons, in)")
            return self.select(query_mask(ex, self, args[0], env, pc))
        if attr == "drop":
            inplace = kwargs.get("inplace", False)
            cols = kwargs.get("columns")
            if cols is None and args and kwargs.get("axis") == 1:
                cols = args[0]
            if cols is None and len(args) == 1 and isinstance(args[0], IndexOf) and "axis" not in kwargs and "index" not in kwargs:
                sub = args[0].owner
                if not (isinstance(sub, SymDF) and sub.uni is self.uni and sub.label is self.label):
                    raise Unsupported("DataFrame.drop(labels) with the index of a frame over other rows / other labels")
                _assume("pandas DataFrame.drop(sub.index) for a row selection `sub` of the same frame with unique labels (a fresh RangeIndex): removes exactly the rows of `sub`; contents of the other rows unchanged")
                pres, sp = self.present, sub.present
                newp = lambda r: z_and(pres(r), z_not(sp(r)))
                if inplace:
                    self.present = newp
                    self.inplace_row_changes += 1
                    return None
                return SymDF(self.uni, self.cols, newp, self.label, self.name + "_dropr", self.order)
            if cols is None:
                raise Unsupported("DataFrame.drop of rows")
            if "axis" in kwargs and "columns" in kwargs:
                ex.oblige("pandas_drop_axis_and_columns", pc, False, "pandas >= 2: drop() raises ValueError when both axis and columns are given")
            if isinstance(cols, str):
                cols = [cols]
            _assume("pandas DataFrame.drop(columns=[...]): removes exactly those columns (KeyError if absent unless errors='ignore'); rows unchanged")
            for c in cols:
                if c not in self.cols and kwargs.get("errors") != "ignore":
                    ex.oblige(f"drop_keyerror_{c}", pc, False, f"column {c} missing in drop")
            newcols = {c: k for c, k in self.cols.items() if c not in cols}
            if inplace:
                self.cols = newcols
                return None
            return SymDF(self.uni, newcols, self.present, self.label, self.name + "_drop", self.order)
        if attr == "rename":
            m = kwargs.get("columns")
            if m is None:
                raise Unsupported("rename without columns=")
            _assume("pandas DataFrame.rename(columns=m): renames columns, contents unchanged")
            newcols = {m.get(c, c): k for c, k in self.cols.items()}
            if kwargs.get("inplace"):
                self.cols = newcols
                return None
            return SymDF(self.uni, newcols, self.present, self.label, self.name + "_ren", self.order)
        if attr == "dropna":
            _assume("pandas DataFrame.dropna(subset=cols): removes exactly the rows with a missing value in one of cols")
            subset = kwargs.get("subset") or list(self.cols)
            pres, cols = self.present, [self.cols[c] for c in subset]
            newp = lambda r: z_and(pres(r), *[z_not(c.isnull(r)) for c in cols])
            newcols = {}
            for c, k in self.cols.items():
                newcols[c] = Col(k.val, None, k.dtype) if c in subset else k
            if kwargs.get("inplace"):
                self.present, self.cols = newp, newcols
                self.inplace_row_changes += 1
                return None
            return SymDF(self.uni, newcols, newp, self.label, self.name + "_dropna", self.order)
        if attr == "reset_index":
            _assume("pandas DataFrame.reset_index(drop=True): rows and contents unchanged, labels become 0..n-1")
            if kwargs.get("drop"):
                if kwargs.get("inplace"):
                    self.label = None
                    return None
                out = SymDF(self.uni, self.cols, self.present, None, self.name + "_ri", self.order)
                for extra in ("concat_parts", "melt_values"):
                    if hasattr(self, extra):
                        setattr(out, extra, getattr(self, extra))
                return out
            if getattr(self, "label_name", None) and getattr(self, "label_col", None) is not None and self.label_name not in self.cols:
                _assume("pandas DataFrame.reset_index(): the named index becomes the first column, labels become 0..n-1")
                newcols = {self.label_name: self.label_col}
                newcols.update(self.cols)
                if kwargs.get("inplace"):
                    self.cols, self.label, self.label_name = newcols, None, None
                    return None
                out = SymDF(self.uni, newcols, self.present, None, self.name + "_ri", self.order)
                for extra in ("agg_of", "agg_source"):
                    if hasattr(self, extra):
                        setattr(out, extra, getattr(self, extra))
                return out
            raise Unsupported("reset_index(drop=False)")
        if attr == "set_index":
            _assume("pandas DataFrame.set_index(col, drop=False): rows and contents unchanged, labels become the column's values")
            col = args[0]
            lab = self.cols[col].val
            newcols = self.cols if kwargs.get("drop") is False else {c: k for c, k in self.cols.items() if c != col}
            out = SymDF(self.uni, newcols, self.present, lambda r: lab(r), self.name + "_si", self.order)
            out.label_name = col
            for extra in ("concat_parts", "melt_values"):
                if hasattr(self, extra):
                    setattr(out, extra, getattr(self, extra))
            return out
        if attr == "apply" and kwargs.get("axis") == 1:
            _assume("pandas DataFrame.apply(f, axis=1): f applied to every row (a mapping column -> value), result aligned with the rows")
            f = _freeze(args[0])
            cols, pres = self.cols, self.present
            def val(r):
                return ex.call(f, [RowView(cols, r)], {}, pc + [pres(r)], env)
            return SymSeries(self.uni, Col(val, None, kwargs.get("_dtype", "object")), self.present, "", self.label)
        if attr == "melt":
            _assume("pandas DataFrame.melt(id_vars, value_vars, var_name, value_name): one output row per (input row, value column), the id columns "
                    "repeated, var_name = the value column's name (dtype str), value_name = its value; blocks ordered by value column")
            idv, vv = kwargs.get("id_vars") or [], kwargs.get("value_vars") or [c for c in self.cols if c not in (kwargs.get("id_vars") or [])]
            vn, valn = kwargs.get("var_name", "variable"), kwargs.get("value_name", "value")
            if not isinstance(idv, list) or not isinstance(vv, list):
                raise Unsupported("melt arguments")
            uni = Universe("melt", self.uni.arity + 1, [self.uni])
            a = self.uni.arity
            pres = self.present
            cols: Dict[str, Col] = {}
            for c in idv:
                k = self.cols[c]
                cols[c] = Col((lambda r, _k=k: _k.val(r[:a])), (lambda r, _k=k: _k.null(r[:a])) if k.null else None, k.dtype)
            def varval(r):
                res = z3.StringVal(vv[-1])
                for i in range(len(vv) - 2, -1, -1):
                    res = z3.If(r[a] == i, z3.StringVal(vv[i]), res)
                return res
            cols[vn] = Col(varval, None, "str")
            vcols = [self.cols[c] for c in vv]
            def valval(r):
                res = to_z3(vcols[-1].val(r[:a]))
                for i in range(len(vv) - 2, -1, -1):
                    res = z3.If(r[a] == i, to_z3(vcols[i].val(r[:a])), res)
                return res
            cols[valn] = Col(valval, None, vcols[0].dtype)
            out = SymDF(uni, cols, lambda r: z_and(pres(r[:a]), r[a] >= 0, r[a] < len(vv)), None, "melted", ("melt", self.order))
            out.melt_values = {vn: list(vv)}
            return out
        if attr == "replace":
            _assume("pandas DataFrame.replace({old: new}): every cell equal to a key is replaced by its value; on pandas 3 a str column whose values are "
                    "replaced by ints becomes dtype object")
            mp_ = args[0]
            if not isinstance(mp_, dict) or not all(isinstance(k, str) for k in mp_):
                raise Unsupported("replace with non string keys")
            cols = {}
            for c, k in self.cols.items():
                if k.dtype != "str":
                    cols[c] = k
                    continue
                known = getattr(self, "melt_values", {}).get(c)
                if known is None or not all(v in mp_ for v in known) or not all(isinstance(mp_[v], int) for v in known):
                    raise Unsupported("replace on a string column whose value set is not fully mapped to ints")
                def val(r, _k=k):
                    v = _k.val(r)
                    res = z3.IntVal(mp_[known[-1]])
                    for kv in known[:-1][::-1]:
                        res = z3.If(v == z3.StringVal(kv), z3.IntVal(mp_[kv]), res)
                    return res
                cols[c] = Col(val, k.null, "object")
            return SymDF(self.uni, cols, self.present, self.label, self.name + "_repl", self.order)
        if attr == "astype":
            _assume("pandas DataFrame.astype({col: 'int64'}): values unchanged, dtype tag updated")
            m = args[0] if args else kwargs.get("dtype")
            if not isinstance(m, dict):
                raise Unsupported("DataFrame.astype of a non-dict")
            cols = dict(self.cols)
            for c, t in m.items():
                if c not in cols:
                    ex.oblige(f"astype_keyerror_{c}", pc, False, "astype names a missing column")
                    continue
                tag = {"int64": "int", "int": "int", "float64": "float", "float": "float"}.get(t if isinstance(t, str) else getattr(t, "name", ""), None)
                if tag is None:
                    raise Unsupported(f"astype target {t!r}")
                cols[c] = Col(cols[c].val, cols[c].null, tag)
            return SymDF(self.uni, cols, self.present, self.label, self.name + "_astype", self.order)
        if attr == "to_numpy":
            _assume("pandas DataFrame.to_numpy(): 2-d array, one row per frame row, columns in frame order; dtype object unless all columns are numeric")
            return FrameArray(self)
        if attr == "groupby":
            key = args[0] if args else kwargs.get("by")
            return SymGroupBy(self, key)
        if attr == "fillna" and len(args) == 1 and isinstance(args[0], dict) and not (set(kwargs) - {"inplace"}):
            _assume("pandas DataFrame.fillna({col: v}): missing cells of the named columns become v, everything else unchanged")
            newcols = dict(self.cols)
            for c, v in args[0].items():
                if c not in newcols:
                    continue
                k0 = newcols[c]
                if k0.null is None:
                    continue
                newcols[c] = Col((lambda r, _k=k0, _v=v: z_ite(_k.null(r), _v, _k.val(r))), None, k0.dtype)
            if kwargs.get("inplace"):
                self.cols = newcols
                return None
            return SymDF(self.uni, newcols, self.present, self.label, self.name + "_fillna", self.order)
        if attr == "merge":
            return merge(ex, self, args[0], kwargs, pc)
        if attr == "join":
            return join(ex, self, args[0], kwargs, pc)
        if attr == "sort_values":
            _assume("pandas DataFrame.sort_values(...): a permutation of the rows (contents and labels travel with the rows)")
            if kwargs.get("inplace"):
                return None
            by = kwargs.get("by", args[0] if args else None)
            asc = kwargs.get("ascending", True)
            out = SymDF(self.uni, self.cols, self.present, self.label, self.name + "_sorted", ("sorted", next(_uid), by if isinstance(by, str) else tuple(by or ()), str(asc)))
            for extra in ("concat_parts", "melt_values", "agg_of", "agg_source"):
                if hasattr(self, extra):
                    setattr(out, extra, getattr(self, extra))
            if kwargs.get("ignore_index"):
                _assume("pandas sort_values(by=c, ascending=a, ignore_index=True): labels become the positions 0..n-1 in sorted order")
                k = next(_uid)
                posf = z3.Function(f"pos{k}", *([z3.IntSort()] * self.uni.arity), z3.IntSort())
                out.label = lambda r, _f=posf: _f(*r)
                n = out.nrows(ex)
                a, b = self.uni.skolem(f"pa{k}"), self.uni.skolem(f"pb{k}")
                pa, pb = to_z3(self.present(a)), to_z3(self.present(b))
                ex.facts.append(z3.ForAll(list(a), z3.Implies(pa, z3.And(posf(*a) >= 0, posf(*a) < n)), patterns=[posf(*a)]))
                ex.facts.append(z3.ForAll(list(a) + list(b), z3.Implies(z3.And(pa, pb, posf(*a) == posf(*b)), z3.And(*[x == y for x, y in zip(a, b)])),
                                          patterns=[z3.MultiPattern(posf(*a), posf(*b))]))
                bys = [by] if isinstance(by, str) else list(by or [])
                if len(bys) == 1 and bys[0] in self.cols and self.cols[bys[0]].dtype in ("int", "float") and self.cols[bys[0]].null is None and isinstance(asc, bool):
                    cv = self.cols[bys[0]].val
                    rel = (to_z3(cv(a)) <= to_z3(cv(b))) if asc else (to_z3(cv(a)) >= to_z3(cv(b)))
                    ex.facts.append(z3.ForAll(list(a) + list(b), z3.Implies(z3.And(pa, pb, posf(*a) < posf(*b)), rel), patterns=[z3.MultiPattern(posf(*a), posf(*b))]))
                out.position = out.label
            return out
        raise Unsupported(f"DataFrame.{attr}")


_DF_METHODS = {"copy", "query", "drop", "rename", "dropna", "merge", "join", "index", "columns", "loc", "iloc", "shape", "values", "empty", "size"}


def merge(ex, left: SymDF, right, kwargs, pc) -> SymDF:
    """inner merge on one key column: pair universe, suffixes _x/_y for clashing non-key columns."""
    how = kwargs.get("how", "inner")
    on = kwargs.get("on")
    if how != "inner" or not isinstance(on, str):
        raise Unsupported(f"merge(how={how!r}, on={on!r})")
    if isinstance(right, SymSeries):
        right = SymDF(right.uni, {right.name: right.col}, right.present, right.label, "rs")
    if not isinstance(right, SymDF):
        raise Unsupported("merge operand")
    _assume("pandas DataFrame.merge(other, on=k, how='inner'): one output row per pair (l, r) of rows with equal non-null key, columns of both sides "
            "(clashing names suffixed _x/_y), pairs ordered by the left rows")
    uni = Universe("merge", left.uni.arity + right.uni.arity, [left.uni, right.uni])
    la = left.uni.arity
    lk, rk = left.cols[on], right.cols[on]

    def present(r):
        a, b = r[:la], r[la:]
        return z_and(left.present(a), right.present(b), z_not(lk.isnull(a)), z_not(rk.isnull(b)), to_z3(lk.val(a)) == to_z3(rk.val(b)))

    cols: Dict[str, Col] = {}
    for c, k in left.cols.items():
        nm = c if (c == on or c not in right.cols) else c + "_x"
        cols[nm] = Col((lambda r, _k=k: _k.val(r[:la])), (lambda r, _k=k: _k.null(r[:la])) if k.null else None, k.dtype)
    for c, k in right.cols.items():
        if c == on:
            continue
        nm = c if c not in left.cols else c + "_y"
        cols[nm] = Col((lambda r, _k=k: _k.val(r[la:])), (lambda r, _k=k: _k.null(r[la:])) if k.null else None, k.dtype)
    return SymDF(uni, cols, present, None, "merged")


def join(ex, left: SymDF, right: SymDF, kwargs, pc) -> SymDF:
    """left.join(right, on=key, rsuffix=...): LEFT join of left[key] against right's index labels.

    Assumed contract (right labels unique - an obligation): every left row is kept once, in order; the columns of right
    (suffixed where they clash) hold the values of the right row whose label equals left[key], missing where there is none."""
    on = kwargs.get("on")
    rsuffix = kwargs.get("rsuffix", "")
    how = kwargs.get("how", "left")
    if (on is not None and not isinstance(on, str)) or how != "left" or not isinstance(right, SymDF):
        raise Unsupported("join pattern")
    if right.label is None:
        raise Unsupported("join against a frame with unknown labels")
    _assume("pandas DataFrame.join(other, on=key) (left join, unique labels in other): rows of the left frame unchanged and in order; other's columns looked "
            "up by label == key, NaN where no label matches")
    k = next(_uid)
    # the key may be the left frame's index (set_index(key) was applied before) or a column
    if on is None:
        if left.label is None:
            raise Unsupported("index join from a frame with unknown labels")
        keyv = left.label
    elif on in left.cols:
        keyv = left.cols[on].val
    elif getattr(left, "label_name", None) == on and left.label is not None:
        keyv = left.label
    else:
        raise Unsupported(f"join key {on!r} is neither a column nor the index name")
    wit = [z3.Function(f"join{k}_w{i}", *([z3.IntSort()] * left.uni.arity), z3.IntSort()) for i in range(right.uni.arity)]
    w = lambda r: tuple(f(*r) for f in wit)
    rl, rp = right.label, right.present
    r = left.uni.skolem(f"jr{k}")
    m = right.uni.skolem(f"jm{k}")
    m2 = right.uni.skolem(f"jn{k}")
    ex.facts.append(z3.ForAll(list(r) + list(m), z3.Implies(z3.And(to_z3(rp(m)), to_z3(rl(m)) == to_z3(keyv(r))),
                                                           z3.And(to_z3(rp(w(r))), to_z3(rl(w(r))) == to_z3(keyv(r))))))
    lr = left.uni.skolem(f"jl{k}")
    ex.oblige(f"join_right_labels_unique_{k}", [to_z3(rp(m)), to_z3(rp(m2)), to_z3(rl(m)) == to_z3(rl(m2)), to_z3(left.present(lr)), to_z3(keyv(lr)) == to_z3(rl(m))] + list(ex.facts),
              z3.And(*[a == b for a, b in zip(m, m2)]), "labels of the joined frame that are matched by a left row must be unique (otherwise join duplicates left rows)")

    def hit(rr):
        return z_and(rp(w(rr)), to_z3(rl(w(rr))) == to_z3(keyv(rr)))

    cols = dict(left.cols)
    for c, kc in right.cols.items():
        nm = c + rsuffix if c in left.cols else c
        if nm in cols:
            ex.oblige(f"join_column_clash_{c}", pc, False, "columns overlap but no suffix specified")
        cols[nm] = Col((lambda rr, _k=kc: _k.val(w(rr))), (lambda rr, _k=kc: z_or(z_not(hit(rr)), _k.isnull(w(rr)))), "float" if kc.dtype == "int" else kc.dtype)
    out = SymDF(left.uni, cols, left.present, left.label, "joined", left.order)
    out.label_name = getattr(left, "label_name", None)
    out.join_witness, out.join_hit = w, hit
    return out


# ---------------------------------------------------------------------------------------------- query strings


def query_mask(ex, df: SymDF, expr: str, env, pc) -> SymSeries:
    holes: Dict[str, Any] = {}
    if isinstance(expr, pyvc.TemplateStr):
        holes, expr = expr.holes, expr.text
    if not isinstance(expr, str):
        raise Unsupported("query with a symbolic / non-literal string")
    src = expr.replace("@", "__at__")
    try:
        tree = ast.parse(src, mode="eval").body
    except SyntaxError as e:
        raise Unsupported(f"query string does not parse: {e}")

    def ev(n, r):
        if isinstance(n, ast.BoolOp):
            vs = [pyvc.truth(ev(v, r)) for v in n.values]
            return z_and(*vs) if isinstance(n.op, ast.And) else z_or(*vs)
        if isinstance(n, ast.UnaryOp) and isinstance(n.op, ast.Not):
            return z_not(pyvc.truth(ev(n.operand, r)))
        if isinstance(n, ast.UnaryOp) and isinstance(n.op, ast.USub):
            return -ev(n.operand, r)
        if isinstance(n, ast.Compare):
            left = ev(n.left, r)
            res = []
            for op, rn in zip(n.ops, n.comparators):
                right = ev(rn, r)
                res.append(_cmp_null(ex, op, left, right))
                left = right
            return z_and(*res)
        if isinstance(n, ast.Name):
            if n.id in holes:
                return holes[n.id]
            if n.id.startswith("__at__"):
                nm = n.id[len("__at__"):]
                if nm not in env:
                    raise Unsupported(f"query: unknown variable @{nm}")
                return env[nm]
            if n.id in df.cols:
                c = df.cols[n.id]
                return _Cell(c.val(r), c.isnull(r))
            raise Unsupported(f"query: unknown column {n.id}")
        if isinstance(n, ast.Constant):
            return n.value
        if isinstance(n, (ast.List, ast.Tuple)):
            return [ev(e, r) for e in n.elts]
        if isinstance(n, ast.BinOp):
            a, b = ev(n.left, r), ev(n.right, r)
            if isinstance(a, _Cell) or isinstance(b, _Cell):
                av = a.v if isinstance(a, _Cell) else a
                bv = b.v if isinstance(b, _Cell) else b
                nl = z_or(a.null if isinstance(a, _Cell) else False, b.null if isinstance(b, _Cell) else False)
                return _Cell(ex.binop(n.op, av, bv, pc), nl)
            return ex.binop(n.op, a, b, pc)
        raise Unsupported(f"query expression node {type(n).__name__}")

    return SymSeries(df.uni, Col(lambda r: pyvc.truth(ev(tree, r)), None, "bool"), df.present, "query", df.label)


class _Cell:
    def __init__(self, v, null):
        self.v, self.null = v, null


def _cmp_null(ex, op, a, b):
    an = a.null if isinstance(a, _Cell) else False
    bn = b.null if isinstance(b, _Cell) else False
    av = a.v if isinstance(a, _Cell) else a
    bv = b.v if isinstance(b, _Cell) else b
    if isinstance(op, (ast.In, ast.NotIn)):
        c = ex.contains(bv, av)
        c = z_and(z_not(an), c)
        return c if isinstance(op, ast.In) else z_not(c)
    c = ex.compare(op, av, bv)
    nn = z_or(an, bn)
    if nn is False:
        return c
    return z_or(nn, c) if isinstance(op, ast.NotEq) else z_and(z_not(nn), c)


# ---------------------------------------------------------------------------------------------- numpy namespace


def np_namespace() -> pyvc.Namespace:
    @pyvc.intrinsic
    def np_minmax_factory(is_max):
        pass

    def mk(is_max):
        @pyvc.intrinsic
        def f(ex, pc, env, args, kwargs):
            _assume("numpy.minimum/maximum(a, b): element-wise; NaN propagates")
            a, b = args
            if isinstance(b, SymSeries) and not isinstance(a, SymSeries):
                a, b = b, a
            if isinstance(a, SymSeries):
                bv, bn = a._other(b)
                av = a.col.val
                def val(r):
                    x, y = to_z3(av(r)), to_z3(bv(r))
                    return z3.If((x > y) if is_max else (x < y), x, y)
                return a._mk(val, SymSeries._nulls(a.col.null, bn), a.col.dtype)
            return pyvc._BUILTINS["max" if is_max else "min"](ex, pc, [a, b], {})
        return f

    return pyvc.Namespace("np", {"minimum": mk(False), "maximum": mk(True)})


def pd_namespace() -> pyvc.Namespace:
    @pyvc.intrinsic
    def to_numeric(ex, pc, env, args, kwargs):
        _assume("pandas.to_numeric(s, downcast=...): values unchanged (only the storage width changes)")
        return args[0]

    @pyvc.intrinsic
    def dataframe(ex, pc, env, args, kwargs):
        if args or kwargs:
            raise Unsupported("pd.DataFrame(...) with arguments")
        _assume("pandas.DataFrame(): a frame with no rows and no columns")
        d = SymDF(Universe("empty"), {}, lambda r: False, None, "empty")
        d.is_empty_ctor = True
        return d

    @pyvc.intrinsic
    def concat(ex, pc, env, args, kwargs):
        frames = args[0]
        if kwargs.get("axis", 0) == 0 and isinstance(frames, list) and frames and all(isinstance(f, SymSeries) for f in frames):
            _assume("pandas.concat of series (axis 0): the values of all parts")
            return UnionValues(frames)
        if kwargs.get("axis", 0) != 0 or not isinstance(frames, list) or not all(isinstance(f, SymDF) for f in frames):
            raise Unsupported("pd.concat pattern")
        _assume("pandas.concat([a, b, ...]) (axis 0): the rows of a, then b, ...; columns by name")
        names = list(frames[0].cols)
        for f in frames[1:]:
            if set(f.cols) != set(names):
                raise Unsupported("concat of frames with different columns")
        ar = max(f.uni.arity for f in frames)
        uni = Universe("concat", ar + 1, [f.uni for f in frames])
        def present(r):
            return z_or(*[z_and(r[0] == i, f.present(r[1:1 + f.uni.arity])) for i, f in enumerate(frames)])
        cols = {}
        for c in names:
            def val(r, _c=c):
                res = to_z3(frames[-1].cols[_c].val(r[1:1 + frames[-1].uni.arity]))
                for i in range(len(frames) - 2, -1, -1):
                    res = z3.If(r[0] == i, to_z3(frames[i].cols[_c].val(r[1:1 + frames[i].uni.arity])), res)
                return res
            dts = {f.cols[c].dtype for f in frames}
            nullf = None
            if any(f.cols[c].null is not None for f in frames):
                def nullf(r, _c=c):
                    res = frames[-1].cols[_c].isnull(r[1:1 + frames[-1].uni.arity])
                    for i in range(len(frames) - 2, -1, -1):
                        res = z_ite(r[0] == i, frames[i].cols[_c].isnull(r[1:1 + frames[i].uni.arity]), res)
                    return res
            cols[c] = Col(val, nullf, dts.pop() if len(dts) == 1 else "object")
        out = SymDF(uni, cols, present, None, "concat", ("concat", next(_uid)))
        out.concat_parts = frames
        return out

    @pyvc.intrinsic
    def pd_merge(ex, pc, env, args, kwargs):
        return merge(ex, args[0], args[1], kwargs, pc)

    return pyvc.Namespace("pd", {"to_numeric": to_numeric, "DataFrame": dataframe, "concat": concat, "merge": pd_merge})


def install(ex: pyvc.Exec) -> None:
    ex.consts.setdefault("np", np_namespace())
    ex.consts.setdefault("pd", pd_namespace())
    if not hasattr(ex, "facts"):
        ex.facts = []


def skolem_equal_cols(out: SymDF, r, spec: Dict[str, Any]) -> Any:
    return z_and(*[to_z3(out.cols[c].val(r)) == to_z3(v) for c, v in spec.items()])


# ---------------------------------------------------------------------------------------------- symbol table model


class SymTab:
    """TraceSymbolTable as a bijection  id <-> string  over ids 0..n-1 (the contract C11 establishes for add_symbols).

    sym(i): String, idof(s): Int, has(s): Bool.  `axioms(strings, ids)` instantiates the bijection for the given terms.
    """

    def __init__(self, name: str = "st"):
        self.n = z3.Int(f"{name}_n")
        self.sym = z3.Function(f"{name}_sym", z3.IntSort(), z3.StringSort())
        self.idof = z3.Function(f"{name}_idof", z3.StringSort(), z3.IntSort())
        self.has = z3.Function(f"{name}_has", z3.StringSort(), z3.BoolSort())
        self.used_strings: List[Any] = []
        self.used_ids: List[Any] = []

    def __deepcopy__(self, memo):
        return self

    def valid(self, i):
        return z3.And(to_z3(i) >= 0, to_z3(i) < self.n)

    def hv_truth(self):
        return True  # TraceSymbolTable defines neither __bool__ nor __len__

    def axioms(self, ids: List[Any] = (), strings: List[Any] = ()) -> List[Any]:
        ax = [self.n >= 0]
        for s in list(strings) + self.used_strings:
            s = to_z3(s)
            ax.append(z3.Implies(self.has(s), z3.And(self.valid(self.idof(s)), self.sym(self.idof(s)) == s)))
        for i in list(ids) + self.used_ids:
            i = to_z3(i)
            ax.append(z3.Implies(self.valid(i), z3.And(self.has(self.sym(i)), self.idof(self.sym(i)) == i)))
        return ax

    def hv_getattr(self, ex, attr, pc):
        if attr == "sym_index":
            return SymIndexDict(self)
        if attr == "sym_table":
            return SymTableList(self)
        if attr == "NULL":
            from . import extract as _ex
            try:
                return _ex.enum_members("hta.common.trace_symbol_table", "TraceSymbolTable")["NULL"]
            except Exception:
                raise Unsupported("TraceSymbolTable.NULL is not a literal class constant")
        return NotImplemented

    def hv_call_method(self, ex, attr, args, kwargs, pc, env):
        if attr in ("get_sym_id_map", "get_sym_index"):
            return SymIndexDict(self)
        if attr == "get_sym_table":
            return SymTableList(self)
        if attr == "get_runtime_launch_events_query" and not args and not kwargs:
            # the real method, executed from its AST against this table model (f-string with symbolic ids -> query template)
            from . import extract as _ex
            f = _ex.get_function("hta.common.trace_symbol_table", "TraceSymbolTable.get_runtime_launch_events_query")
            saved = ex._loop_ordinal
            outs = ex.run_function(_ex.stripped(f), {"self": self}, pc)
            ex._loop_ordinal = saved
            rets = [o for o in outs if o.kind == "ret"]
            if len(rets) != 1:
                raise Unsupported("get_runtime_launch_events_query: expected one return path")
            return rets[0].value
        return NotImplemented


class SymIndexDict:
    def __init__(self, st: SymTab):
        self.st = st

    def __deepcopy__(self, memo):
        return self

    def hv_contains(self, ex, item):
        s = to_z3(item)
        self.st.used_strings.append(s)
        return self.st.has(s)

    def hv_getitem(self, ex, idx, pc):
        s = to_z3(idx)
        self.st.used_strings.append(s)
        ex.oblige("symtab_keyerror", pc, self.st.has(s), "KeyError absence on sym_index[...]")
        return self.st.idof(s)

    def hv_call_method(self, ex, attr, args, kwargs, pc, env):
        if attr == "get":
            s = to_z3(args[0])
            self.st.used_strings.append(s)
            d = args[1] if len(args) > 1 else None
            if d is None:
                return OptVal(self.st.has(s), self.st.idof(s))
            return z3.If(self.st.has(s), self.st.idof(s), to_z3(d))
        return NotImplemented


class SymTableList:
    def __init__(self, st: SymTab):
        self.st = st

    def __deepcopy__(self, memo):
        return self

    def hv_getitem(self, ex, idx, pc):
        i = to_z3(idx)
        self.st.used_ids.append(i)
        ex.oblige("symtab_indexerror", pc, self.st.valid(i), "IndexError absence on sym_table[...]")
        return self.st.sym(i)


class OptVal:
    """`dict.get(key)` with default None: the value when present, else None (which equals no number)."""

    def __init__(self, has, val):
        self.has, self.val = has, val

    def __deepcopy__(self, memo):
        return self

    def hv_compare(self, ex, op, other, reflected):
        if other is None:
            r = z3.Not(self.has)
        elif isinstance(other, OptVal):
            r = z3.Or(z3.And(z3.Not(self.has), z3.Not(other.has)), z3.And(self.has, other.has, self.val == other.val))
        else:
            r = z3.And(self.has, to_z3(other) == self.val)
        if isinstance(op, (ast.Eq, ast.Is)):
            return r
        if isinstance(op, (ast.NotEq, ast.IsNot)):
            return z3.Not(r)
        raise Unsupported("ordering comparison with an optional value")

    def hv_truth(self):
        return z3.And(self.has, self.val != 0)  # None and 0 are both falsy


class UnionValues:
    """pd.concat of several series, used only as a set of values."""

    def __init__(self, parts):
        self.parts = parts

    def __deepcopy__(self, memo):
        return self

    def hv_contains(self, ex, item):
        return z_or(*[SeriesValueSet(p).hv_contains(ex, item) for p in self.parts])


class SymIndexSeries:
    """pd.Series(symbol_table.sym_index): index = strings, values = ids."""

    def __init__(self, st: SymTab, pred: Optional[Callable] = None):
        self.st, self.pred = st, pred  # pred(string) restricts the entries

    def __deepcopy__(self, memo):
        return self

    def hv_getattr(self, ex, attr, pc):
        if attr == "index":
            return SymIndexSeriesIndex(self)
        if attr == "loc":
            return self
        if attr == "values":
            return IdSet(self.st, self.pred)
        return NotImplemented

    def hv_getitem(self, ex, idx, pc):
        if isinstance(idx, StringMask):
            old = self.pred
            return SymIndexSeries(self.st, (lambda s: z_and(old(s), idx.pred(s))) if old else idx.pred)
        raise Unsupported("sym_index series subscript")


class SymIndexSeriesIndex:
    def __init__(self, owner: SymIndexSeries):
        self.owner = owner

    def hv_getattr(self, ex, attr, pc):
        if attr == "str":
            return self
        return NotImplemented

    def hv_call_method(self, ex, attr, args, kwargs, pc, env):
        if attr in ("match", "contains", "startswith"):
            p = str_pred(attr, args[0])
            return StringMask(lambda s: p(s))
        return NotImplemented


class StringMask:
    def __init__(self, pred):
        self.pred = pred


class IdSet:
    """{ id | valid(id) and pred(sym(id)) }"""

    def __init__(self, st: SymTab, pred):
        self.st, self.pred = st, pred

    def __deepcopy__(self, memo):
        return self

    def hv_contains(self, ex, item):
        i = to_z3(item)
        self.st.used_ids.append(i)
        return z_and(self.st.valid(i), self.pred(self.st.sym(i)) if self.pred else True)


def install_symtab(ex: pyvc.Exec) -> None:
    pd = ex.consts.get("pd")

    @pyvc.intrinsic
    def series_ctor(exq, pc, env, args, kwargs):
        if args and isinstance(args[0], SymIndexDict):
            _assume("pandas.Series(dict): index = keys, values = values")
            return SymIndexSeries(args[0].st)
        raise Unsupported("pd.Series(...) of this argument")

    pd.members["Series"] = series_ctor
    old_set = pyvc._BUILTINS["set"]

    @pyvc.intrinsic
    def my_set(exq, pc, env, args, kwargs):
        if args and isinstance(args[0], IdSet):
            return args[0]
        return old_set(exq, pc, args, kwargs)

    ex.intrinsics["set"] = my_set
