"""Obligations, the solver pool (z3 first, cvc5 for z3's unknowns), result records."""
from __future__ import annotations

import multiprocessing as mp
import os
import subprocess
import tempfile
import time
import traceback
from dataclasses import dataclass, field
from typing import Any, Callable, Dict, List, Optional

import z3

QUICK_TIMEOUT_MS = 20_000
THOROUGH_TIMEOUT_MS = 120_000


@dataclass
class VC:
    """One verification condition: valid iff  hyps ∧ ¬goal  is unsatisfiable.

    kind: 'vc'      – must be valid (proved); sat ⇒ refuted with a model
          'canary'  – must NOT be valid (a deliberately false goal behind the same hypotheses): guards against vacuity
          'vacuity' – hyps alone must be satisfiable (goal ignored)
    """

    name: str
    hyps: List[Any]
    goal: Any
    kind: str = "vc"
    functions: List[str] = field(default_factory=list)
    model_vars: Dict[str, Any] = field(default_factory=dict)  # label -> z3 expr, evaluated in a counter-model
    known_classes: Dict[str, Any] = field(default_factory=dict)  # finding id -> z3 predicate describing the known failing class
    note: str = ""
    assumptions: List[str] = field(default_factory=list)  # assumed (library) contracts this VC relies on


@dataclass
class Unit:
    """A group of VCs generated together (typically: one function under contract). `gen` runs inside a worker."""

    name: str
    gen: Callable[[], List[VC]]
    functions: List[str] = field(default_factory=list)


def _val(v):
    try:
        if z3.is_int_value(v):
            return v.as_long()
        if z3.is_rational_value(v):
            n, d = v.numerator_as_long(), v.denominator_as_long()
            return n / d if d != 1 else n
        if z3.is_true(v):
            return True
        if z3.is_false(v):
            return False
        if z3.is_string_value(v):
            return v.as_string()
    except Exception:
        pass
    return str(v)


def _cvc5(smt2: str, timeout_s: int) -> str:
    with tempfile.NamedTemporaryFile("w", suffix=".smt2", delete=False) as fh:
        fh.write("(set-logic ALL)\n" + smt2 + "\n")
        path = fh.name
    try:
        p = subprocess.run(
            ["/usr/bin/cvc5", "--strings-exp", f"--tlimit={timeout_s * 1000}", path],
            capture_output=True,
            text=True,
            timeout=timeout_s + 5,
        )
        out = p.stdout.strip().splitlines()
        return out[0] if out else "unknown"
    except Exception:
        return "unknown"
    finally:
        os.unlink(path)


def solve_vc(vc: VC, timeout_ms: int, known_open: Optional[List[str]] = None) -> Dict[str, Any]:
    t0 = time.time()
    rec: Dict[str, Any] = {
        "name": vc.name,
        "kind": vc.kind,
        "functions": vc.functions,
        "note": vc.note,
        "assumptions": vc.assumptions,
        "backend": "z3",
    }
    s = z3.Solver()
    if vc.kind != "vc":
        timeout_ms = min(timeout_ms, 5000)  # guards are cheap or inconclusive
    s.set("timeout", timeout_ms)
    for h in vc.hyps:
        s.add(h)
    if vc.kind != "vacuity":
        s.add(z3.Not(vc.goal))
    r = s.check()
    res = str(r)
    if res == "unknown":
        rec["z3_reason"] = s.reason_unknown()
    if res == "unknown" and vc.kind == "vc":  # guards stay inconclusive rather than spending a second solver's budget on them
        c = _cvc5(s.to_smt2().replace("(check-sat)", "") + "(check-sat)\n", max(10, timeout_ms // 1000))
        if c in ("sat", "unsat"):
            res = c
            rec["backend"] = "cvc5"
    rec["solver_result"] = res
    rec["time_s"] = round(time.time() - t0, 4)
    if vc.kind == "vc":
        rec["status"] = {"unsat": "proved", "sat": "refuted"}.get(res, "undecided")
    elif vc.kind == "canary":
        rec["status"] = {"sat": "ok", "unsat": "engine_error"}.get(res, "undecided")
    else:
        rec["status"] = {"sat": "ok", "unsat": "engine_error"}.get(res, "undecided")
    if vc.kind == "vc" and res == "unsat" and vc.hyps:
        # vacuity probe: a proof from contradictory hypotheses proves nothing (harmless for an explored-but-infeasible path,
        # fatal when it happens to every obligation of a unit: see _run_unit)
        key = hash(tuple(h.get_id() if hasattr(h, "get_id") else id(h) for h in vc.hyps))
        if key not in _PROBE:
            sp = z3.Solver()
            sp.set("timeout", 1500)
            for h in vc.hyps:
                sp.add(h)
            _PROBE[key] = str(sp.check())
        rec["hyps_probe"] = _PROBE[key]
    if res == "sat" and rec["backend"] == "z3" and vc.kind == "vc":
        m = s.model()
        rec["model"] = {k: (_val(m.eval(e, model_completion=True)) if isinstance(e, z3.ExprRef) else e) for k, e in vc.model_vars.items()}
        # known-finding classes: is there a counterexample outside each recorded class?
        outside = {}
        for fid, pred in vc.known_classes.items():
            s2 = z3.Solver()
            s2.set("timeout", timeout_ms)
            for h in vc.hyps:
                s2.add(h)
            s2.add(z3.Not(vc.goal))
            s2.add(z3.Not(pred))
            r2 = str(s2.check())
            outside[fid] = r2
            if r2 == "sat":
                m2 = s2.model()
                rec["model_outside_" + fid] = {k: (_val(m2.eval(e, model_completion=True)) if isinstance(e, z3.ExprRef) else e) for k, e in vc.model_vars.items()}
        rec["outside_known_class"] = outside
    return rec


_UNITS: List[Unit] = []
_PROBE: Dict[int, str] = {}


def _run_unit(args) -> List[Dict[str, Any]]:
    idx, timeout_ms = args
    u = _UNITS[idx]
    t0 = time.time()
    try:
        vcs = u.gen()
    except Exception as e:
        kind = type(e).__name__
        status = "undecided" if kind in ("Unsupported", "ExtractError") else "engine_error"
        return [
            {
                "name": u.name + ".<generate>",
                "kind": "vc",
                "functions": u.functions,
                "status": status,
                "error": f"{kind}: {e}",
                "trace": traceback.format_exc()[-1500:],
                "time_s": round(time.time() - t0, 4),
                "backend": "generator",
            }
        ]
    try:
        from . import framevc as _fv
        lib_assumed = list(_fv.ASSUMED)
    except Exception:
        lib_assumed = []
    out = []
    for vc in vcs:
        if not vc.functions:
            vc.functions = u.functions
        if lib_assumed and not vc.assumptions:
            vc.assumptions = ["assumed library contract: " + a for a in lib_assumed]
        try:
            out.append(solve_vc(vc, timeout_ms))
        except Exception as e:
            out.append(
                {
                    "name": vc.name,
                    "kind": vc.kind,
                    "functions": vc.functions,
                    "status": "engine_error",
                    "error": f"{type(e).__name__}: {e}",
                    "trace": traceback.format_exc()[-1500:],
                    "time_s": 0.0,
                    "backend": "z3",
                }
            )
    probed = [r for r in out if r.get("kind") == "vc" and r.get("status") == "proved" and "hyps_probe" in r]
    if probed and all(r["hyps_probe"] == "unsat" for r in probed):
        out.append({"name": u.name + ".<vacuity>", "kind": "vacuity", "functions": u.functions, "status": "engine_error",
                    "error": f"every proved obligation of this unit with hypotheses ({len(probed)}) has contradictory hypotheses", "time_s": 0.0, "backend": "z3"})
    if not vcs:
        out.append({"name": u.name + ".<generate>", "kind": "vc", "functions": u.functions, "status": "engine_error",
                    "error": "unit generated zero obligations", "time_s": 0.0, "backend": "generator"})
    return out


def run_units(units: List[Unit], timeout_ms: int, procs: int = 16) -> List[Dict[str, Any]]:
    global _UNITS
    _UNITS = units
    if not units:
        return []
    ctx = mp.get_context("fork")
    n = max(1, min(procs, len(units)))
    results: List[Dict[str, Any]] = []
    if n == 1 or os.environ.get("HV_SERIAL"):
        for i in range(len(units)):
            results.extend(_run_unit((i, timeout_ms)))
        return results
    with ctx.Pool(n) as pool:
        for r in pool.imap(_run_unit, [(i, timeout_ms) for i in range(len(units))]):
            results.extend(r)
    return results
