"""Locate the functions under contract in /repo's working tree, by qualified name, on every run.

No repository code is copied into /verif: the generators consume the `ast` produced here.
What extraction drops is listed in DROPPED (DESIGN.md section 3.1); everything else reaches the VC generators,
which either translate a statement or declare the function undecided.
"""
from __future__ import annotations

import ast
import hashlib
import os
from dataclasses import dataclass, field
from typing import Any, Dict, List, Optional, Tuple

REPO = os.environ.get("HV_REPO", "/repo")

DROPPED = [
    "logger.* / logging.* calls (and the f-strings inside them)",
    "perf_counter()/time.* timing variables that are only read by logging calls",
    "docstrings and bare string/constant expression statements",
    "type annotations",
    "`if visualize:` blocks (plotting only, marked pragma: no cover)",
    "@timeit / @lru_cache decorators (treated as identity)",
    "tracemalloc calls",
]


class ExtractError(Exception):
    pass


@dataclass
class FuncInfo:
    module: str  # dotted module name, e.g. hta.common.trace
    qualname: str  # e.g. Trace._align_all_ranks or TraceAnalysis.generate_trace_with_counters.add_time_series
    path: str
    node: ast.AST
    source: str
    sha256: str
    lineno: int
    end_lineno: int
    module_ast: ast.Module = field(repr=False, default=None)

    @property
    def fq(self) -> str:
        return f"{self.module}.{self.qualname}"


_module_cache: Dict[str, Tuple[str, ast.Module]] = {}


def module_path(module: str) -> str:
    return os.path.join(REPO, *module.split(".")) + ".py"


def load_module(module: str) -> Tuple[str, ast.Module]:
    if module not in _module_cache:
        p = module_path(module)
        if not os.path.exists(p):
            raise ExtractError(f"module file missing: {p}")
        with open(p, "r", encoding="utf-8") as fh:
            src = fh.read()
        try:
            tree = ast.parse(src, filename=p)
        except SyntaxError as e:  # a tree that does not compile is not ours to judge
            raise ExtractError(f"syntax error in {p}: {e}")
        _module_cache[module] = (src, tree)
    return _module_cache[module]


def clear_cache() -> None:
    _module_cache.clear()


def _find(body: List[ast.stmt], parts: List[str]) -> Optional[ast.AST]:
    head, rest = parts[0], parts[1:]
    for st in body:
        if isinstance(st, (ast.FunctionDef, ast.AsyncFunctionDef, ast.ClassDef)) and st.name == head:
            if not rest:
                return st
            return _find_nested(st, rest)
    return None


def _find_nested(node: ast.AST, parts: List[str]) -> Optional[ast.AST]:
    # nested defs may sit inside if/for/with blocks of the enclosing function: search all statements
    head, rest = parts[0], parts[1:]
    for sub in ast.walk(node):
        if sub is node:
            continue
        if isinstance(sub, (ast.FunctionDef, ast.AsyncFunctionDef, ast.ClassDef)) and sub.name == head:
            if not rest:
                return sub
            r = _find_nested(sub, rest)
            if r is not None:
                return r
    return None


def get_function(module: str, qualname: str) -> FuncInfo:
    src, tree = load_module(module)
    node = _find(tree.body, qualname.split("."))
    if node is None:
        raise ExtractError(f"{module}.{qualname} not found in {module_path(module)}")
    seg = ast.get_source_segment(src, node) or ""
    return FuncInfo(
        module=module,
        qualname=qualname,
        path=module_path(module),
        node=node,
        source=seg,
        sha256=hashlib.sha256(seg.encode()).hexdigest(),
        lineno=node.lineno,
        end_lineno=getattr(node, "end_lineno", node.lineno),
        module_ast=tree,
    )


def module_constants(module: str) -> Dict[str, Any]:
    """Module-level NAME = <literal> / NAME: T = <literal> bindings (ints, strs, floats, bools, None, negative numbers,
    and tuples/lists of those)."""
    _, tree = load_module(module)
    out: Dict[str, Any] = {}
    for st in tree.body:
        tgt = None
        val = None
        if isinstance(st, ast.Assign) and len(st.targets) == 1 and isinstance(st.targets[0], ast.Name):
            tgt, val = st.targets[0].id, st.value
        elif isinstance(st, ast.AnnAssign) and isinstance(st.target, ast.Name) and st.value is not None:
            tgt, val = st.target.id, st.value
        if tgt is None:
            continue
        try:
            out[tgt] = ast.literal_eval(val)
        except Exception:
            continue
    return out


def enum_members(module: str, classname: str) -> Dict[str, Any]:
    """Members NAME = <literal> of an Enum-like class body."""
    _, tree = load_module(module)
    for st in tree.body:
        if isinstance(st, ast.ClassDef) and st.name == classname:
            out = {}
            for s in st.body:
                if isinstance(s, ast.Assign) and len(s.targets) == 1 and isinstance(s.targets[0], ast.Name):
                    try:
                        out[s.targets[0].id] = ast.literal_eval(s.value)
                    except Exception:
                        pass
                elif isinstance(s, ast.AnnAssign) and isinstance(s.target, ast.Name) and s.value is not None:
                    try:
                        out[s.target.id] = ast.literal_eval(s.value)
                    except Exception:
                        pass
            return out
    raise ExtractError(f"enum {module}.{classname} not found")


# ------------------------------------------------------------------------------------------------ normalisation

_LOG_ROOTS = {"logger", "logging", "tracemalloc", "warnings"}


def _is_dropped_call(call: ast.AST) -> bool:
    if not isinstance(call, ast.Call):
        return False
    f = call.func
    # logger.info(...), logging.debug(...), tracemalloc.start()
    while isinstance(f, ast.Attribute):
        f = f.value
    return isinstance(f, ast.Name) and f.id in _LOG_ROOTS


def _is_timing_assign(st: ast.stmt) -> bool:
    if isinstance(st, ast.Assign) and isinstance(st.value, ast.Call):
        f = st.value.func
        name = f.attr if isinstance(f, ast.Attribute) else (f.id if isinstance(f, ast.Name) else "")
        return name in ("perf_counter", "perf_counter_ns", "time") and not st.value.args
    return False


class _Stripper(ast.NodeTransformer):
    def _clean(self, body: List[ast.stmt]) -> List[ast.stmt]:
        out: List[ast.stmt] = []
        for st in body:
            if isinstance(st, ast.Expr) and isinstance(st.value, ast.Constant):
                continue  # docstring / bare constant
            if isinstance(st, ast.Expr) and _is_dropped_call(st.value):
                continue
            if _is_timing_assign(st):
                continue
            if isinstance(st, ast.If) and isinstance(st.test, ast.Name) and st.test.id == "visualize":
                continue
            if isinstance(st, ast.If) and isinstance(st.test, ast.Call) and _is_dropped_call(st.test):
                continue  # if logger.isEnabledFor(...)
            st = self.visit(st)
            if st is None:
                continue
            if isinstance(st, ast.If) and not st.orelse and all(isinstance(b, ast.Pass) for b in st.body) and any(_is_dropped_call(n) for n in ast.walk(st.test)):
                continue  # `if <cond> and logger.isEnabledFor(...): logger.debug(...)` with nothing left in its body
            out.append(st)
        return out

    def generic_visit(self, node):
        for fld in ("body", "orelse", "finalbody"):
            if hasattr(node, fld) and isinstance(getattr(node, fld), list):
                cleaned = self._clean(getattr(node, fld))
                if fld == "body" and not cleaned:
                    cleaned = [ast.Pass()]
                setattr(node, fld, cleaned)
        for h in getattr(node, "handlers", []) or []:
            self.generic_visit(h)
        return node


def stripped(fn: FuncInfo) -> ast.AST:
    """Deep copy of the function AST with the DROPPED statement kinds removed."""
    import copy

    node = copy.deepcopy(fn.node)
    _Stripper().generic_visit(node)
    ast.fix_missing_locations(node)
    return node


def describe(fns: List[FuncInfo]) -> List[Dict[str, Any]]:
    return [
        {"function": f.fq, "file": os.path.relpath(f.path, REPO), "lines": [f.lineno, f.end_lineno], "sha256": f.sha256}
        for f in fns
    ]
