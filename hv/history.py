"""History independence (bounded stand-in shared by the getter properties).

Every property of a TraceAnalysis getter states its result as a function of the trace and of the options.  Hence, on ONE
analysis object, the result must not depend on which other analyses ran before it or on having been computed before.
This stage drives the real library through such
histories and compares the target's result with the one a freshly loaded object gives.  It knows nothing about what the
result should be (the per-property oracles do that); it only detects state that leaks between calls: memo tables keyed
too coarsely, frames shared and modified in place.  (State that leaks between DIFFERENT traces through module-level caches
is not visible to a same-process comparison; the per-property stages, whose workers analyse many traces in one process
against independent oracles, cover that.)
"""
from __future__ import annotations

import math
import os
import random
from typing import Any, Callable, Dict, List


def canon(x: Any) -> Any:
    """a comparable, order-insensitive-where-appropriate plain value"""
    import numpy as np
    import pandas as pd

    if isinstance(x, pd.DataFrame):
        cols = list(x.columns)
        recs = [tuple(canon(v) for v in row) for row in x.itertuples(index=False, name=None)]
        return ("frame", tuple(str(c) for c in cols), tuple(sorted(recs, key=repr)))
    if isinstance(x, pd.Series):
        return ("series", tuple(canon(v) for v in x.tolist()))
    if isinstance(x, dict):
        return ("dict", tuple(sorted(((repr(k), canon(v)) for k, v in x.items()), key=repr)))
    if isinstance(x, (list, tuple)):
        return ("seq", tuple(canon(v) for v in x))
    if isinstance(x, (np.integer,)):
        return int(x)
    if isinstance(x, (float, np.floating)):
        f = float(x)
        return "nan" if math.isnan(f) else round(f, 9)
    if isinstance(x, (int, str, bool)) or x is None:
        return x
    if hasattr(x, "edges") and hasattr(x, "node_list"):  # CPGraph
        return ("graph", tuple(sorted((int(u), int(v), canon(x.edges[u, v]["weight"]), x.edges[u, v]["object"].type.name) for u, v in x.edges)),
                tuple(int(n) for n in getattr(x, "critical_path_nodes", [])))
    return repr(x)


def _quiet(f: Callable, *a, **kw):
    try:
        return f(*a, **kw)
    except Exception:  # noqa: BLE001  (a neighbour analysis that fails on this trace is not what is being checked here)
        return None


def menu(outdir: str) -> Dict[str, Callable]:
    """the analyses that may run before the target (all with visualize=False)"""
    return {
        "temporal": lambda ta: ta.get_temporal_breakdown(visualize=False),
        "kernel_breakdown": lambda ta: ta.get_gpu_kernel_breakdown(visualize=False, num_kernels=2),
        "idle": lambda ta: ta.get_idle_time_breakdown(ranks=[0], visualize=False, show_idle_interval_stats=False),
        "overlap": lambda ta: ta.get_comm_comp_overlap(visualize=False),
        "launch_stats": lambda ta: ta.get_cuda_kernel_launch_stats(ranks=[0], visualize=False),
        "queue": lambda ta: ta.get_queue_length_time_series(ranks=[0]),
        "membw": lambda ta: ta.get_memory_bw_time_series(ranks=[0]),
        "sequences": lambda ta: ta.get_frequent_cuda_kernel_sequences(operator_name="aten::", output_dir=outdir, min_pattern_len=1, rank=0, top_k=3, visualize=False),
        "critical_path": lambda ta: ta.critical_path_analysis(rank=0, annotation="ProfilerStep", instance_id=0),
        "critical_path_other_window": lambda ta: ta.critical_path_analysis(rank=0, annotation="ProfilerStep", instance_id=(0, 1)),
    }


def history_case(arg) -> Dict[str, Any]:
    """arg = (seed, target name, generator: 'gen' | 'cp')"""
    import shutil
    import tempfile

    from . import cpgen, gen, rt

    seed, target, which = arg
    rng = random.Random(seed * 31 + 5)
    if which == "cp":
        sets = [{0: cpgen.gen_cp_events(seed + k, n_steps=3, n_streams=1 + (seed + k) % 3, annotations=bool((seed + k) % 2))} for k in range(2)]
    else:
        sets = [gen.gen_trace_set(seed + 1000 * k, n_ranks=1 + (seed + k) % 2, steps=3, n_streams=2, p_launch=0.8, p_memcpy=0.25, n_top=3,
                                  only_kernel_type=("compute" if k == 0 and seed % 2 else None)) for k in range(2)]
    outdir = tempfile.mkdtemp(prefix="hv_hist_")
    fails: List[Dict[str, Any]] = []
    n = 0
    try:
        m = menu(outdir)
        tgt = m[target]
        others = [k for k in m if k != target]
        for k, per_rank in enumerate(sets):
            inp = {"seed": seed, "target": target, "trace_set": k, "events": per_rank}
            with rt.trace_dir(per_rank) as d:
                try:
                    fresh_obj = rt.load_analysis(d)
                    fresh = canon(tgt(fresh_obj))
                except Exception:  # noqa: BLE001  the target itself fails on a fresh object: not a history question (the property's own stage judges it)
                    continue
                ta = rt.load_analysis(d)
                before = rng.sample(others, k=min(len(others), 2 + seed % 3))
                for o in before:
                    _quiet(m[o], ta)
                try:
                    after_history = canon(tgt(ta))
                    again = canon(tgt(ta))
                except Exception as e:  # noqa: BLE001
                    fails.append({"what": f"history.{target}.raises_after_other_analyses", "input": {**inp, "ran_before": before}, "observed": f"{type(e).__name__}: {e}",
                                  "expected": "the same result as on a freshly loaded object"})
                    continue
                n += 2
                if after_history != fresh:
                    fails.append({"what": f"history.{target}.depends_on_earlier_analyses", "input": {**inp, "ran_before": before}, "observed": repr(after_history)[:600], "expected": repr(fresh)[:600]})
                elif again != fresh:
                    fails.append({"what": f"history.{target}.second_call_differs", "input": inp, "observed": repr(again)[:600], "expected": repr(fresh)[:600]})
    finally:
        shutil.rmtree(outdir, ignore_errors=True)
    return {"n_checks": n, "fails": fails, "nontrivial": n > 0, "sample": {"seed": seed, "target": target}}


def stage(prop: str, target: str, which: str = "gen"):
    """a Bounded-stage callable for contracts/Cxx.py"""

    def run(ctx):
        from . import rt

        k = 6 if not ctx.thorough else 60
        res = rt.pmap(history_case, [(ctx.seed * 7 + 4000 + i, target, which) for i in range(k)], ctx.procs)
        return rt.summarise(res, f"{prop}.history", f"{k} x 2 generated trace sets: `{target}` on a fresh analysis object vs. after 2-4 other analyses on the same object, and called twice; "
                            "two different trace sets per case")

    return run
