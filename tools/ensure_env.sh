#!/usr/bin/env bash
# Idempotent, offline: builds /verif/.venv = python3.12 overlay of /venv (pandas, hta editable) + z3, icontract, deal, crosshair.
set -euo pipefail
HERE="$(cd "$(dirname "${BASH_SOURCE[0]}")/.." && pwd)"
VENV="$HERE/.venv"
STAMP="$VENV/.ok"
[ -f "$STAMP" ] && exit 0
exec 9>"$HERE/.venv.lock"
flock 9
[ -f "$STAMP" ] && exit 0
rm -rf "$VENV"
/venv/bin/python -m venv "$VENV" >/dev/null
SP="$VENV/lib/python3.12/site-packages"
echo "import site; site.addsitedir('/venv/lib/python3.12/site-packages')" > "$SP/_overlay.pth"
PIP_NO_INDEX=1 "$VENV/bin/python" -m pip install -q --no-index --find-links /opt/veriftools/wheels z3-solver icontract deal crosshair-tool jsonschema >/dev/null 2>&1 \
  || PIP_NO_INDEX=1 "$VENV/bin/python" -m pip install -q --no-index --find-links /opt/veriftools/wheels z3-solver icontract jsonschema >/dev/null
"$VENV/bin/python" -c "import z3, pandas, hta, icontract" 
touch "$STAMP"
