#!/usr/bin/env bash
# Compiles every lean/*.lean file with Lean 4 + Mathlib and records the result (keyed by sha256) in lean/STATUS.json.
cd "$(dirname "$0")/../lean" || exit 3
rc=0
echo "{" > STATUS.json.tmp
first=1
for f in *.lean; do
  h=$(sha256sum "$f" | cut -d' ' -f1)
  out=$(lean "$f" 2>&1); code=$?
  ok=false; [ $code -eq 0 ] && [ -z "$(echo "$out" | grep -i 'error\|sorry')" ] && ok=true
  $ok || rc=1
  [ $first -eq 1 ] || echo "," >> STATUS.json.tmp; first=0
  printf ' "%s": {"sha256": "%s", "ok": %s}' "$f" "$h" "$ok" >> STATUS.json.tmp
  echo "$f: ok=$ok"
done
echo "" >> STATUS.json.tmp; echo "}" >> STATUS.json.tmp
mv STATUS.json.tmp STATUS.json
exit $rc
