#!/usr/bin/env bash
# usage: tools/try_mutant.sh <Cxx> <file-relative-to-repo> <python-regex-or-literal old> <new>   (applies to /repo, runs check, reverts)
set -u
P="$1"; F="$2"; OLD="$3"; NEW="$4"
cd /repo
if [ -n "$(git status --porcelain -- hta)" ]; then echo "repo dirty"; exit 9; fi
/venv/bin/python - "$F" "$OLD" "$NEW" <<'PY'
import sys
f,old,new=sys.argv[1:4]
s=open(f).read()
n=s.count(old)
if n<1: print("PATTERN NOT FOUND"); sys.exit(5)
s=s.replace(old,new,1)
open(f,'w').write(s)
PY
rc=$?
if [ $rc -eq 0 ]; then (cd /verif && ./check "$P" 2>&1 | grep -v "^WARNING conda" | tail -${TAILN:-6}); fi
git checkout -- hta
