#!/usr/bin/env python3
"""Regenerates MANIFEST.json from tools/manifest_src.py (single source: which properties are claimed, their level and notes)."""
import json, os, sys
HERE = os.path.dirname(os.path.dirname(os.path.abspath(__file__)))
sys.path.insert(0, HERE)
from tools.manifest_src import CHECKS, NOT_APPLICABLE, NOTES  # noqa

BASE = "cd /repo && /venv/bin/python -m pytest -ra -q -p no:cacheprovider --timeout=900 --continue-on-collection-errors"
m = {
    "version": 1,
    "setup_cmd": "tools/ensure_env.sh",
    "hooks": {
        "guard": "HTA_VERIF",
        "enable": "none needed: contracts are side-car files under /verif/contracts, run-time wrappers are installed by monkey-patching inside the check process; /repo carries no instrumentation",
        "baseline_off_cmd": BASE,
        "source_commits": [],
        "add_only": True,
    },
    "engines": [
        {"name": "PyVC", "path": "hv/pyvc.py", "serves_properties": sorted({c["property_id"] for c in CHECKS}),
         "kind_free_text": "weakest-precondition style symbolic execution of the ast of the real functions into z3 obligations; cvc5 takes z3's unknowns"},
        {"name": "bounded", "path": "contracts/*.py (Bounded stages)", "serves_properties": sorted({c["property_id"] for c in CHECKS}),
         "kind_free_text": "real code under executable contracts on an enumerated small scope; labelled bounded, never counted as proved"},
    ],
    "checks": [],
    "notes": NOTES,
    "not_applicable": NOT_APPLICABLE,
}
for c in CHECKS:
    pid = c["property_id"]
    m["checks"].append({
        "property_id": pid,
        "quick_cmd": f"./check {pid} --tier quick",
        "thorough_cmd": f"./check {pid} --tier thorough",
        "evidence_file": f"evidence/{pid}.json",
        "replay_cmd_template": f"./check {pid} --replay {{path}}",
        "engine": "PyVC",
        "level_claimed": {"category": c["category"], "text": c["text"], "design_ref": c.get("design_ref", f"DESIGN.md section 5/{pid}")},
        "level_note": c["note"],
        "technique": c["technique"],
    })
json.dump(m, open(os.path.join(HERE, "MANIFEST.json"), "w"), indent=1)
print("checks:", [c["property_id"] for c in CHECKS], "n/a:", [n["property_id"] for n in NOT_APPLICABLE])
