#!/usr/bin/env python3
"""tools/make_seed_prompts.py <variant> <wtroot>: writes <wtroot>/<Cxx>.prompt.txt for every property from tools/seed_prompt.tmpl.
A prompt holds the property's statement and quantifier and, as a hint, one line per change already stored under seeded/ for that
property (file, function, title of the sub-agent's own README) so that the new change differs in kind. Nothing else from /verif."""
import glob, json, os, re, sys

V, ROOT = sys.argv[1], sys.argv[2]
here = os.path.dirname(os.path.abspath(__file__))
tmpl = open(os.path.join(here, "seed_prompt.tmpl")).read()
os.makedirs(ROOT, exist_ok=True)
for line in open(os.path.join(here, "..", "properties.jsonl")):
    p = json.loads(line)
    pid = p["id"]
    prop = f'{p["title"]}\n\n{p["statement"]}\n\nIt is meant to hold {p["quantifier"]["text"]}.'
    prev = []
    for d in sorted(glob.glob(os.path.join(here, "..", "seeded", f"{pid}-*"))):
        diff = open(os.path.join(d, "patch.diff")).read()
        files = sorted(set(re.findall(r"^\+\+\+ b/(\S+)", diff, re.M)))
        funcs = sorted(set(m.strip() for m in re.findall(r"^@@ .*? @@ (?:def |class |async def )?(.*)$", diff, re.M) if m.strip()))[:4]
        title = ""
        rp = os.path.join(d, "README.agent.md")
        if os.path.exists(rp):
            for ln in open(rp):
                if ln.strip():
                    title = ln.strip().lstrip("# ").strip()
                    break
        prev.append(f" - {', '.join(files)} ({'; '.join(funcs)[:160]}): {title[:200]}")
    hint = ""
    if prev:
        hint = ("\nChanges of the following kinds have ALREADY been made by others for this property; yours must differ in kind (another function or another "
                "mechanism, another input class needed to show it) — in particular look at helpers and callers further away from the obvious function, at state "
                "kept between calls or between traces, at options and environment switches, at pandas / numpy typing and alignment semantics, and at inputs that "
                "are legal but rare:\n" + "\n".join(prev) + "\n")
    wt = os.path.join(ROOT, pid)
    txt = tmpl.replace("__WT__", wt).replace("__PROP__", prop).replace("__HINT__", hint).replace("__V__", V)
    open(os.path.join(ROOT, f"{pid}.prompt.txt"), "w").write(txt)
print("prompts written to", ROOT)
