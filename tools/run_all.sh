#!/usr/bin/env bash
# Runs every registered quick check on the current tree, validates MANIFEST and evidence files. Usage: tools/run_all.sh [quick|thorough]
cd "$(dirname "$0")/.."
TIER="${1:-quick}"
tools/ensure_env.sh || exit 3
rc=0
# the acceptance run exports VERIF_SEED=1: run every check under that seed first (results discarded), then under the default seed (evidence kept)
if [ "$TIER" = "quick" ] && [ -z "${SKIP_SEED1:-}" ]; then
  for p in $(.venv/bin/python -c "import json;print(' '.join(c['property_id'] for c in json.load(open('MANIFEST.json'))['checks']))"); do
    out=$(VERIF_SEED=1 ./check "$p" --tier quick 2>&1 | grep -v "conda\|^Caused by\|^$" | tail -1)
    case "$out" in *"exit=0") ;; *) echo "VERIF_SEED=1: $out"; rc=1;; esac
  done
fi
for p in $(.venv/bin/python -c "import json;print(' '.join(c['property_id'] for c in json.load(open('MANIFEST.json'))['checks']))"); do
  out=$(./check "$p" --tier "$TIER" 2>&1 | grep -v "conda\|^Caused by\|^$" | tail -1)
  echo "$out"
  case "$out" in *"exit=0") ;; *) rc=1;; esac
done
.venv/bin/python - <<'PY' || rc=1
import json, jsonschema, sys
m = json.load(open('MANIFEST.json'))
jsonschema.validate(m, json.load(open('/root/.vp/MANIFEST.schema.json')))
sch = json.load(open('/root/.vp/EVIDENCE.schema.json'))
bad = 0
for c in m['checks']:
    e = json.load(open(c['evidence_file']))
    jsonschema.validate(e, sch)
    cov = e['coverage']
    if e['level'] == 'proof' and cov['obligations'] != cov['discharged']:
        print('EVIDENCE MISMATCH', c['property_id'], cov['obligations'], cov['discharged']); bad = 1
    if e.get('exit_code') != 0:
        print('EVIDENCE exit_code != 0', c['property_id']); bad = 1
ids = {c['property_id'] for c in m['checks']} | {n['property_id'] for n in m.get('not_applicable', [])}
missing = [f"C{i:02d}" for i in range(1, 21) if f"C{i:02d}" not in ids]
if missing: print('properties neither claimed nor not_applicable:', missing); bad = 1
print('manifest + evidence valid' if not bad else 'PROBLEMS')
sys.exit(bad)
PY
exit $rc
