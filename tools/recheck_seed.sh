#!/usr/bin/env bash
# tools/recheck_seed.sh <Cxx-V> : does the stored seeded change still break its property on the CURRENT /repo HEAD?
# (scratch worktree, patch applied with 3-way merge, the seed's own demo; exit code of the demo is printed)
set -u
S="$1"; D=/verif/seeded/$S; WT=/tmp/recheck_$S
git -C /repo worktree add --detach "$WT" HEAD -q 2>/dev/null || { echo "$S: cannot create worktree"; exit 2; }
cd "$WT"
if git apply --3way "$D/patch.diff" >/dev/null 2>&1; then
  mkdir -p seed/X && cp "$D/demo.py" seed/X/demo.py
  PYTHONPATH=$WT timeout 600 /venv/bin/python seed/X/demo.py >/dev/null 2>&1; rc=$?
  echo "$S: demo_with_patch_exit=$rc"
else
  echo "$S: patch does not apply"
fi
cd /; git -C /repo worktree remove --force "$WT"
