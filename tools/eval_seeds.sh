#!/usr/bin/env bash
# For every confirmed seeded change under /verif/seeded/<Cxx-V>/: rebase the patch onto /repo's current tree, run the property's
# quick check with the change applied, record what caught it in meta.json, undo the change.
cd /verif
for d in seeded/*/; do
  id=$(basename "$d"); P=${id%%-*}; V=${id##*-}
  [ -n "${ONLY:-}" ] && [ "$ONLY" != "$id" ] && continue
  [ -n "${ONLY_RE:-}" ] && ! [[ $id =~ $ONLY_RE ]] && continue
  touched="${touched:-} $P"
  if grep -q '"obsolete"' "/verif/$d/meta.json" 2>/dev/null; then echo "$id obsolete (no longer breaks the property on the current tree, see meta.json)"; continue; fi
  cd /repo
  [ -n "$(git status --porcelain -- hta)" ] && { echo "repo dirty"; exit 9; }
  src="/tmp/wt/$P/seed/$V/patch.diff"; [ -f "$src" ] || src="/verif/$d/patch.diff"
  if ! git apply "/verif/$d/patch.diff" 2>/dev/null; then
    patch -p1 --fuzz=3 -s < "$src" >/dev/null 2>&1 || { echo "$id: patch does not apply"; git checkout -- hta; find hta -name '*.orig' -delete -o -name '*.rej' -delete; continue; }
    find hta -name '*.orig' -delete -o -name '*.rej' -delete
    git diff -- hta > "/verif/$d/patch.diff"
  fi
  out=$(cd /verif && ./check "$P" 2>&1 | grep -v "conda\|^Caused by\|^$")
  git checkout -- hta
  viol=$(echo "$out" | grep -c "^VIOLATION")
  summary=$(echo "$out" | tail -1)
  /verif/.venv/bin/python - "$id" "$viol" "$summary" <<PY
import json, sys, glob, os
id_, viol, summary = sys.argv[1:4]
p = f"/verif/seeded/{id_}/meta.json"
m = json.load(open(p))
ev = json.load(open(f"/verif/evidence/{id_.split('-')[0]}.json"))
refuted = [o["name"] for o in ev["coverage"]["obligation_list"] if o["status"] == "refuted"]
bounded = [f.get("what") for b in ev["coverage"]["bounded"] for f in b.get("failures", []) if not f.get("known")]
m["detected_by"] = {"violations": int(viol), "deductive_obligations_refuted": refuted, "bounded_clauses_failed": sorted(set(bounded)), "summary": summary}
m["ran"] = f"git -C /repo apply seeded/{id_}/patch.diff && ./check {id_.split('-')[0]} && git -C /repo checkout -- ."
json.dump(m, open(p, "w"), indent=1)
print(id_, "violations:", viol, "| deductive:", len(refuted), "| bounded:", len(set(bounded)))
PY
done
cd /verif; for P in $(echo ${touched:-} | tr ' ' '\n' | sort -u); do ./check "$P" >/dev/null 2>&1; done   # restore evidence of the clean tree
