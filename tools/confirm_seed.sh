#!/usr/bin/env bash
# tools/confirm_seed.sh <Cxx> <A|B>  — confirms a sub-agent's seeded change in its scratch worktree /tmp/wt/<Cxx> and,
# when all three facts hold (demo passes clean, demo fails changed, 87 stable tests pass changed), stores it under /verif/seeded/<Cxx>-<A|B>/
set -u
P="$1"; V="$2"; WT=${WTROOT:-/tmp/wt}/$P; S=$WT/seed/$V
[ -f "$S/patch.diff" ] || { echo "$P-$V: no patch"; exit 2; }
cd "$WT" && git checkout -q -- hta && git apply --check "$S/patch.diff" || { echo "$P-$V: patch does not apply"; exit 2; }
run_demo() { (cd "$WT" && PYTHONPATH=$WT timeout 300 /venv/bin/python "$S/demo.py" >/dev/null 2>&1; echo $?); }
clean=$(run_demo)
git apply "$S/patch.diff"
changed=$(run_demo)
(cd "$WT" && PYTHONPATH=$WT /venv/bin/python -m pytest -q -p no:cacheprovider --timeout=900 --continue-on-collection-errors --junitxml=${WTROOT:-/tmp/wt}/junit_$P$V.xml >/dev/null 2>&1)
missing=$(/venv/bin/python - "$P$V" "${WTROOT:-/tmp/wt}" <<'PY'
import json, sys, xml.etree.ElementTree as ET
b=json.load(open('/root/.vp/BASELINE.json'))
t=ET.parse(f'{sys.argv[2]}/junit_{sys.argv[1]}.xml').getroot()
res={}
for tc in t.iter('testcase'):
    res[f"{tc.get('classname')}::{tc.get('name')}"]= not any(c.tag in('failure','error','skipped') for c in tc)
print(len([s for s in b['stable_pass'] if not res.get(s)]))
PY
)
git checkout -q -- hta
rm -f ${WTROOT:-/tmp/wt}/junit_$P$V.xml
echo "$P-$V: demo_clean_exit=$clean demo_changed_exit=$changed stable_tests_failing=$missing"
if [ "$clean" = "0" ] && [ "$changed" != "0" ] && [ "$missing" = "0" ]; then
  D=/verif/seeded/$P-$V; mkdir -p "$D"; cp "$S/patch.diff" "$D/patch.diff"; cp "$S/demo.py" "$D/demo.py"; cp "$S/README.md" "$D/README.agent.md" 2>/dev/null
  /venv/bin/python - "$P" "$V" "$clean" "$changed" <<'PY'
import json, sys
p,v,c,ch=sys.argv[1:5]
json.dump({"property":p,"variant":v,"breaks":"see README.agent.md (written by the independent sub-agent)","needs_to_manifest":"see README.agent.md",
 "confirmed_by":"tools/confirm_seed.sh in scratch worktree <wtroot>/%s: demo exit %s on clean tree, exit %s with patch, 0 of 87 stable tests failing with patch"%(p,c,ch),
 "detected_by": None}, open(f"/verif/seeded/{p}-{v}/meta.json","w"), indent=1)
PY
  echo "$P-$V: KEPT"
else
  echo "$P-$V: REJECTED"
fi
