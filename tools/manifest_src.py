TECH = "contract-based deductive verification: VCs generated from the ast of the real functions, discharged by z3/cvc5; bounded stand-in (real code under executable contracts, enumerated scope) for the clauses named in the level note"
CHECKS = [
    {"property_id": "C03", "category": "other",
     "text": "Order obligations of both endpoint comparators (totality, asymmetry, transitivity, T0/R1/R2/R3/R5), one iteration of both builder loops against the push/pop transition function, and _add_edge of both builders against its contract are generated from /repo's AST on every run and discharged by z3 for all inputs. Not 'proof': one obligation (transitivity) is refuted on the pinned tree (known finding D4), and the composition into the tree statement rests on the bracket lemma, validated exhaustively (all laminar families within the stated grid scope) on the real builders.",
     "note": "assumed: sorted/cmp_to_key contract; bracket lemma L6 (bounded validation only); endpoint-array construction covered only by the bounded stage; integers for timestamps",
     "technique": TECH},
    {"property_id": "C18", "category": "proof",
     "text": "Every filter's __call__ (Iteration, Rank, TimeRange, Name via symbol table / decoded column / s_name column, GPU/CPU side with and without symbol table, MemCopy, Query/ZeroDuration, Composite in several orders) is executed symbolically from /repo's AST over a symbolic event frame; for an arbitrary (skolem) row z3 proves kept <=> documented predicate, contents / labels / order unchanged and the input not written, for all frames and all parameter values. IterationIndexFilter, constructors and whole-frame purity are covered by the bounded stage only.",
     "note": "assumed: pandas contracts of selection / isin / comparisons / query / str.match (uninterpreted, shared by encoded and decoded paths) / dtype tags (listed in evidence.assumptions, differential-tested by the bounded stage); symbol table bijection (C11); regex semantics not interpreted",
     "technique": TECH},
    {"property_id": "C02", "category": "proof",
     "text": "transform_correlation_to_index (with the real CPUOperatorFilter / GPUKernelFilter / device-side predicate executed from /repo's AST) is run over a symbolic frame; z3 proves for an arbitrary row: no correlation id => -1, absent counterpart => 0, otherwise the link is the id of the unique opposite-side event with the same correlation id, links are mutual, a positive link never names another id or the same side, only index_correlation is assigned; get_cpu_gpu_correlation = the linked (device, host) pairs.",
     "note": "assumed: pandas contracts (selection, inner merge, label scatter, np.minimum, listed in evidence); preconditions WF2/WF5/WF6 (unique ids = labels, one event per side per correlation id); JSON decoding and _compress_df covered by the bounded stage only",
     "technique": TECH},
    {"property_id": "C04", "category": "proof",
     "text": "merge_kernel_intervals is proved by prefix-fold induction over its own pandas scans (shift/cummax/cumsum/groupby run aggregation, glue inferred Houdini-style): sorted+separated rows, same covered points, extent; _get_idle_time_for_kernels and the nested idle_time_per_rank are executed against that contract: device rows = stream != -1, computation rows by kernel type, kernel_time = max end - min ts, idle = span - busy, the three asserts never fire, parts >= 0 and sum to kernel_time; percentage tail checked statement by statement.",
     "note": "assumed: Lean lemmas L1/L2 (sum of lengths of separated intervals = measure of the union; monotone) linking the sums to Lebesgue measure; fold meta-lemma for ghost accumulators; pandas scan contracts (shift/cummax/cumsum/groupby over a non-decreasing key/sort_values); get_kernel_type uninterpreted; floats as reals",
     "technique": TECH},
]
_PENDING = "check not built yet in this round (planned, see DESIGN.md section 5); not claimed until its obligations are generated and discharged"
NOT_APPLICABLE = [{"property_id": f"C{i:02d}", "reason": _PENDING} for i in range(1, 21) if f"C{i:02d}" not in {c["property_id"] for c in CHECKS}]
NOTES = "Exit codes of every check: 0 held, 1 violation (with VIOLATION line), 2 undecided, 3 checker crash. known_findings.json lists recorded/fixed defects."
