"""C01 — loaded events are a faithful, uniformly time-shifted image of the trace file.

Deductive (z3 from the AST):
  * round_down_time_stamps: ts' = ceil(ts), end' = floor(ts+dur), dur' = end' - ts' on non-missing rows; inward
    (ts <= ts', end' <= ts+dur); containment and disjointness of two spans preserved;
  * parse_trace_file: end = ts + dur on every row, and the three calls before it write only their own columns
    (assigned-column analysis of add_fwd_bwd_links / add_iteration; transform_correlation_to_index is C02);
  * Trace._align_all_ranks on 1, 2 and 3 symbolic ranks: one constant for all ranks = the minimal ts over all ranks,
    ts' = ts - constant, some row lands on 0, end' = ts' + dur, nothing else written;
  * Trace.load_traces: set_index('index', drop=False) keeps rows and columns, label = event id;
  * _compress_df's args lambda and stream normalisation (scalar functions).
Bounded: generated trace sets (1-3 ranks, integer / fractional timestamps, epoch offsets, .json / .json.gz, parse-only
and full load, multiprocessing on/off) vs. the JSON itself.
"""
from __future__ import annotations

import ast
import math
from typing import Any, Dict, List

import z3

from hv import core, extract, framevc as fv, pyvc
from hv.driver import Bounded, Spec
from hv.pyvc import to_z3

TR = "hta.common.trace"
TP = "hta.common.trace_parser"
UT = "hta.utils.utils"
PROP = "C01"


def _math_ns() -> pyvc.Namespace:
    @pyvc.intrinsic
    def ceil(ex, pc, env, args, kwargs):
        x = to_z3(args[0])
        if z3.is_int(x):
            return x
        return z3.If(z3.ToReal(z3.ToInt(x)) == x, z3.ToInt(x), z3.ToInt(x) + 1)

    @pyvc.intrinsic
    def floor(ex, pc, env, args, kwargs):
        x = to_z3(args[0])
        return x if z3.is_int(x) else z3.ToInt(x)

    return pyvc.Namespace("math", {"ceil": ceil, "floor": floor})


def rounding_vcs() -> List[core.VC]:
    name = f"{PROP}.round_down_time_stamps"
    f = extract.get_function(TP, "round_down_time_stamps")
    fq = [f.fq]
    vcs: List[core.VC] = []
    for variant in ("float", "int", "disabled"):
        ex = pyvc.Exec(consts=extract.module_constants(TP), name=f"{name}.{variant}")
        fv.install(ex)
        ex.consts["math"] = _math_ns()
        tsort = z3.RealSort() if variant != "int" else z3.IntSort()
        cols = {"ts": (tsort, True, "float" if variant != "int" else "int"), "dur": (tsort, True, "float" if variant != "int" else "int"), "name": (z3.IntSort(), False, "int")}
        df = fv.SymDF.base("raw", cols)
        before = dict(df.cols)

        class _NpDtype:
            _hv_intrinsic = True

            def __call__(self, exq, pc, env, args, kwargs):
                return args[0]

            def __deepcopy__(self, memo):
                return self

        ex.consts["np"].members["dtype"] = _NpDtype()
        ex.consts["hta_options"] = pyvc.Namespace("hta_options", {"disable_ns_rounding": _const_fn(variant == "disabled")})
        outs = ex.run_function(extract.stripped(f), {"df": df}, [])
        rets = [o for o in outs if o.kind == "ret"]
        if len(rets) != 1:
            raise pyvc.Unsupported("round_down_time_stamps: expected exactly one path for a fixed dtype / option")
        r = df.uni.skolem("r")
        if variant in ("int", "disabled"):
            same = all(df.cols.get(c) is before[c] for c in before) and not df.written
            vcs.append(core.VC(f"{name}.{variant}.noop", [], z3.BoolVal(same), "vc", fq, {}, note="integer timestamps (or rounding disabled): nothing is changed"))
            continue
        ts, dur = before["ts"].val(r), before["dur"].val(r)
        nn = z3.And(z3.Not(to_z3(before["ts"].isnull(r))), z3.Not(to_z3(before["dur"].isnull(r))))
        hyp = [to_z3(df.present(r)), nn] + list(ex.facts)
        ts2, end2, dur2 = to_z3(df.cols["ts"].val(r)), to_z3(df.cols["end"].val(r)), to_z3(df.cols["dur"].val(r))
        mv = {"ts": ts, "dur": dur, "ts_rounded": ts2, "end_rounded": end2}
        ceil_ts = z3.If(z3.ToReal(z3.ToInt(ts)) == ts, z3.ToInt(ts), z3.ToInt(ts) + 1)
        vcs += [
            core.VC(f"{name}.values", hyp, z3.And(ts2 == ceil_ts, end2 == z3.ToInt(ts + dur), dur2 == end2 - ts2,
                                                  z3.Not(to_z3(df.cols["ts"].isnull(r))), z3.Not(to_z3(df.cols["end"].isnull(r)))), "vc", fq, mv,
                    note="start rounded up, end rounded down, duration recomputed"),
            core.VC(f"{name}.inward", hyp, z3.And(ts <= z3.ToReal(ts2), z3.ToReal(end2) <= ts + dur), "vc", fq, mv, note="a rounded event never extends beyond its original span"),
            core.VC(f"{name}.missing_rows_stay_missing", [to_z3(df.present(r)), to_z3(before["ts"].isnull(r))], to_z3(df.cols["ts"].isnull(r)), "vc", fq, mv),
            core.VC(f"{name}.frame", [], z3.BoolVal(sorted(set(df.written)) == ["dur", "end", "ts"] and df.cols["name"] is before["name"] and df.inplace_row_changes == 0), "vc", fq, {},
                    note="only ts, end, dur are written; no row is dropped"),
        ]
        # two-row lemmas (monotone rounding)
        b = df.uni.skolem("b")
        tsb, durb = before["ts"].val(b), before["dur"].val(b)
        nnb = z3.And(z3.Not(to_z3(before["ts"].isnull(b))), z3.Not(to_z3(before["dur"].isnull(b))))
        hyp2 = hyp + [to_z3(df.present(b)), nnb]
        ts2b, end2b = to_z3(df.cols["ts"].val(b)), to_z3(df.cols["end"].val(b))
        vcs += [
            core.VC(f"{name}.containment_preserved", hyp2 + [ts <= tsb, tsb + durb <= ts + dur], z3.And(ts2 <= ts2b, end2b <= end2), "vc", fq, mv),
            core.VC(f"{name}.disjointness_preserved", hyp2 + [ts + dur <= tsb], end2 <= ts2b, "vc", fq, mv),
            core.VC(f"{name}.guard.canary_false", hyp2, z3.BoolVal(False), "canary", fq),
        ]
    return vcs


def _const_fn(v):
    @pyvc.intrinsic
    def f(ex, pc, env, args, kwargs):
        return v

    return f


def assigned_columns(fn_node: ast.AST, var: str) -> List[str]:
    """column names assigned through `var[...] = ` / `var.loc[..., col] = ` / `var.col = ` in the function (syntactic)."""
    cols = set()
    for n in ast.walk(fn_node):
        targets = []
        if isinstance(n, ast.Assign):
            targets = n.targets
        elif isinstance(n, (ast.AugAssign, ast.AnnAssign)):
            targets = [n.target]
        for t in targets:
            if isinstance(t, ast.Subscript):
                base = t.value
                if isinstance(base, ast.Name) and base.id == var:
                    s = t.slice
                    cols.add(s.value if isinstance(s, ast.Constant) else "<dynamic>")
                elif isinstance(base, ast.Attribute) and base.attr in ("loc", "iloc", "at") and isinstance(base.value, ast.Name) and base.value.id == var:
                    s = t.slice
                    if isinstance(s, ast.Tuple) and len(s.elts) == 2 and isinstance(s.elts[1], ast.Constant):
                        cols.add(s.elts[1].value)
                    else:
                        cols.add("<dynamic>")
            elif isinstance(t, ast.Attribute) and isinstance(t.value, ast.Name) and t.value.id == var:
                cols.add(t.attr)
        if isinstance(n, ast.Call) and isinstance(n.func, ast.Attribute) and isinstance(n.func.value, ast.Name) and n.func.value.id == var:
            if any(k.arg == "inplace" and isinstance(k.value, ast.Constant) and k.value.value for k in n.keywords):
                dropped = None
                if n.func.attr == "drop":
                    for k in n.keywords:
                        if k.arg == "columns":
                            try:
                                v = ast.literal_eval(k.value)
                                dropped = [v] if isinstance(v, str) else list(v)
                            except Exception:
                                pass
                if dropped is not None:
                    cols.update(f"-{c}" for c in dropped)  # removal of a column
                else:
                    cols.add(f"<inplace {n.func.attr}>")
    return sorted(cols)


def parse_file_vcs() -> List[core.VC]:
    name = f"{PROP}.parse_trace_file"
    f = extract.get_function(TR, "parse_trace_file")
    fq = [f.fq]
    ex = pyvc.Exec(consts=extract.module_constants(TR), name=name)
    fv.install(ex)
    cols = {"index": (z3.IntSort(), False, "int"), "ts": (z3.IntSort(), False, "int"), "dur": (z3.IntSort(), False, "int"), "cat": (z3.IntSort(), False, "int")}
    df = fv.SymDF.base("parsed", cols)
    before = dict(df.cols)
    calls: List[str] = []

    def stub(nm, ret=None):
        @pyvc.intrinsic
        def f_(exq, pc, env, args, kwargs):
            calls.append(nm)
            return ret(args) if ret else None

        return f_

    ex.intrinsics["parse_trace_dataframe"] = stub("parse_trace_dataframe", lambda a: ("meta", df, "symtab"))
    ex.intrinsics["add_fwd_bwd_links"] = stub("add_fwd_bwd_links")
    ex.intrinsics["transform_correlation_to_index"] = stub("transform_correlation_to_index", lambda a: a[0])
    ex.intrinsics["add_iteration"] = stub("add_iteration")
    ex.consts["ParserConfig"] = pyvc.Namespace("ParserConfig", {"get_default_cfg": _const_fn("cfg")})
    path = z3.String("trace_file_path")
    outs = ex.run_function(extract.stripped(f), {"trace_file_path": path, "cfg": None}, [])
    rets = [o for o in outs if o.kind == "ret"]
    vcs: List[core.VC] = []
    r = df.uni.skolem("r")
    ok = len(rets) >= 1 and all(isinstance(o.value, tuple) and len(o.value) == 3 and o.value[1] is df for o in rets)
    vcs.append(core.VC(f"{name}.returns_parsed_frame", [], z3.BoolVal(ok), "vc", fq, {}, note="returns (meta, the parsed frame, its symbol table)"))
    if ok:
        vcs.append(core.VC(f"{name}.end_is_ts_plus_dur", [to_z3(df.present(r))], z3.And(z3.BoolVal("end" in df.cols), to_z3(df.cols["end"].val(r)) == before["ts"].val(r) + before["dur"].val(r))
                           if "end" in df.cols else z3.BoolVal(False), "vc", fq, {"row": r[0]}, note="every row: end = ts + dur"))
        vcs.append(core.VC(f"{name}.call_order", [], z3.BoolVal(calls[:4] == ["parse_trace_dataframe", "add_fwd_bwd_links", "transform_correlation_to_index", "add_iteration"]), "vc", fq, {},
                           note=f"observed call order {calls}"))
        vcs.append(core.VC(f"{name}.frame", [], z3.BoolVal(df.written == ["end"] and df.inplace_row_changes == 0), "vc", fq, {}, note="parse_trace_file itself writes only `end`"))
    # raising path: wrong suffix
    for o in outs:
        if o.kind == "raise":
            vcs.append(core.VC(f"{name}.raises_only_on_bad_suffix", [to_z3(c) for c in o.pc], z3.Not(z3.Or(z3.SuffixOf(z3.StringVal(".gz"), path), z3.SuffixOf(z3.StringVal(".json"), path))),
                               "vc", fq, {}, note="ValueError only when the name ends neither in .gz nor in .json"))
    # frame conditions of the callees that run before `end` is computed
    for mod, fn, var, allowed in ((TR, "add_fwd_bwd_links", "df", {"fwdbwd_index", "fwdbwd", "key", "-key"}), (TR, "add_iteration", "df", {"iteration"})):
        g = extract.get_function(mod, fn)
        got = assigned_columns(g.node, var)
        vcs.append(core.VC(f"{PROP}.{fn}.writes_only_own_columns", [], z3.BoolVal(set(got) <= allowed), "vc", [g.fq], {},
                           note=f"columns assigned on the frame: {got}; allowed {sorted(allowed)} (so ts, dur, index, name, cat, pid, tid, stream, correlation stay untouched)"))
    return vcs


def align_vcs() -> List[core.VC]:
    name = f"{PROP}.align_all_ranks"
    f = extract.get_function(TR, "Trace._align_all_ranks")
    fq = [f.fq]
    vcs: List[core.VC] = []
    for nranks in (1, 2, 3):
        ex = pyvc.Exec(consts=extract.module_constants(TR), name=f"{name}.{nranks}")
        fv.install(ex)
        cols = {"index": (z3.IntSort(), False, "int"), "ts": (z3.IntSort(), False, "int"), "dur": (z3.IntSort(), False, "int"), "end": (z3.IntSort(), False, "int"),
                "name": (z3.IntSort(), False, "int")}
        dfs = {k: fv.SymDF.base(f"rank{k}", cols) for k in range(nranks)}
        before = {k: dict(d.cols) for k, d in dfs.items()}
        wit = {k: d.uni.skolem(f"nonempty{k}") for k, d in dfs.items()}
        for k, d in dfs.items():
            ex.facts.append(to_z3(d.present(wit[k])))  # every parsed rank has at least one event
        old_min = pyvc._BUILTINS["min"]

        @pyvc.intrinsic
        def my_min(exq, pc, env, args, kwargs):
            xs = list(args[0]) if len(args) == 1 and isinstance(args[0], (list, tuple)) else list(args)
            if xs and all(isinstance(x, fv.Extreme) for x in xs):
                for x in xs:
                    exq.oblige("min_of_nonempty_rank", pc + list(exq.facts), x.nonempty, "Series.min() of an empty rank would be NaN")
                res = xs[0].M
                for x in xs[1:]:
                    res = z3.If(x.M < res, x.M, res)
                return res
            return old_min(exq, pc, xs, kwargs)

        ex.intrinsics["min"] = my_min
        traces = dict(dfs)

        class _Traces(dict):
            pass

        selfrec = pyvc.Record("Trace", {"traces": traces, "min_ts": z3.IntVal(0)})
        outs = ex.run_function(extract.stripped(f), {"self": selfrec}, [])
        rets = [o for o in outs if o.kind == "ret"]
        if len(rets) != 1:
            raise pyvc.Unsupported("_align_all_ranks forks")
        m = to_z3(selfrec.fields["min_ts"])
        hyps = list(ex.facts) + [to_z3(c) for c in rets[0].pc]
        tag = f"{name}.ranks{nranks}"
        for pv in ex.vcs:
            vcs.append(core.VC(pv.name, pv.hyps + list(ex.facts), pv.goal, "vc", fq, {}, note=pv.note))
        some_zero = []
        for k, d0 in dfs.items():
            d = selfrec.fields["traces"][k]
            ok = isinstance(d, fv.SymDF) and d.uni is d0.uni
            r = d0.uni.skolem("r")
            mv = {"rank": k, "row": r[0], "min_ts": m}
            if not ok:
                vcs.append(core.VC(f"{tag}.rank{k}.same_rows", [], z3.BoolVal(False), "vc", fq, mv))
                continue
            ts0, dur0 = before[k]["ts"].val, before[k]["dur"].val
            vcs += [
                core.VC(f"{tag}.rank{k}.same_rows", hyps, to_z3(d.present(r)) == to_z3(d0.present(r)), "vc", fq, mv),
                core.VC(f"{tag}.rank{k}.ts_shifted_by_the_shared_constant", hyps + [to_z3(d0.present(r))], to_z3(d.cols["ts"].val(r)) == ts0(r) - m, "vc", fq, mv),
                core.VC(f"{tag}.rank{k}.end_is_ts_plus_dur", hyps + [to_z3(d0.present(r))], to_z3(d.cols["end"].val(r)) == to_z3(d.cols["ts"].val(r)) + dur0(r), "vc", fq, mv,
                        note="after alignment every row's end equals its (shifted) start plus its duration"),
                core.VC(f"{tag}.rank{k}.nonnegative", hyps + [to_z3(d0.present(r))], ts0(r) - m >= 0, "vc", fq, mv, note="the constant is the minimum: no start becomes negative"),
                core.VC(f"{tag}.rank{k}.frame", [], z3.BoolVal(set(d.written) <= {"ts", "end"} and all(d.cols[c] is before[k][c] for c in ("index", "dur", "name")) and d.inplace_row_changes == 0),
                        "vc", fq, mv, note="only ts and end are written"),
            ]
            w = d0.uni.skolem(f"zero{k}")
            some_zero.append((d0, w, ts0))
        # the constant is attained: some row of some rank lands on 0
        q = [z3.Exists(list(w), z3.And(to_z3(d0.present(w)), ts0(w) == m)) for d0, w, ts0 in some_zero]
        vcs.append(core.VC(f"{tag}.earliest_event_at_zero", hyps, z3.Or(*q) if q else z3.BoolVal(False), "vc", fq, {"min_ts": m}, note="the shared constant is the earliest start over all ranks"))
        vcs.append(core.VC(f"{tag}.guard.canary_false", hyps, z3.BoolVal(False), "canary", fq))
    return vcs


def load_traces_vcs() -> List[core.VC]:
    name = f"{PROP}.load_traces"
    f = extract.get_function(TR, "Trace.load_traces")
    fq = [f.fq]
    ex = pyvc.Exec(consts=extract.module_constants(TR), name=name)
    fv.install(ex)
    cols = {"index": (z3.IntSort(), False, "int"), "ts": (z3.IntSort(), False, "int"), "dur": (z3.IntSort(), False, "int"), "end": (z3.IntSort(), False, "int")}
    d0 = fv.SymDF.base("rank0", cols)
    before = dict(d0.cols)
    calls: List[Any] = []
    ex.methods["Record.parse_traces"] = lambda exq, pc, env, obj, args, kwargs: calls.append(("parse_traces", dict(kwargs)))
    ex.methods["Record.align_and_filter_trace"] = lambda exq, pc, env, obj, args, kwargs: calls.append(("align_and_filter_trace", list(args)))
    selfrec = pyvc.Record("Trace", {"traces": {0: d0}, "is_parsed": False})

    class _Names:
        def hv_setattr(self, exq, attr, v, pc):
            pass

    inc = z3.Bool("include_last_profiler_step")
    outs = ex.run_function(extract.stripped(f), {"self": selfrec, "include_last_profiler_step": inc, "use_multiprocessing": True, "use_memory_profiling": True}, [])
    rets = [o for o in outs if o.kind == "ret"]
    d = selfrec.fields["traces"][0]
    r = d0.uni.skolem("r")
    ok = isinstance(d, fv.SymDF) and d.uni is d0.uni
    vcs = [
        core.VC(f"{name}.calls", [], z3.BoolVal([c[0] for c in calls] == ["parse_traces", "align_and_filter_trace"] and calls[1][1] == [inc]), "vc", fq, {},
                note=f"parse, then align-and-filter with the caller's include_last_profiler_step; observed {[(c[0]) for c in calls]}"),
        core.VC(f"{name}.rows_and_columns_kept", list(ex.facts), z3.And(z3.BoolVal(ok and list(d.cols) == list(before) and all(d.cols[c] is before[c] for c in before)),
                                                                        to_z3(d.present(r)) == to_z3(d0.present(r))) if ok else z3.BoolVal(False), "vc", fq, {}),
        core.VC(f"{name}.label_is_event_id", [to_z3(d0.present(r))], (to_z3(d.label(r)) == before["index"].val(r)) if ok and d.label is not None else z3.BoolVal(False), "vc", fq, {},
                note="the frame is indexed by event id (and keeps the `index` column)"),
    ]
    return vcs


def scalar_vcs() -> List[core.VC]:
    """_normalize_stream_number (utils) and the args lambda of _compress_df, as scalar functions."""
    vcs: List[core.VC] = []
    g = extract.get_function(UT, "normalize_gpu_stream_numbers")
    src = ast.unparse(extract.stripped(g)).replace("'", '"')
    want = ['df["stream"] = df.apply(lambda r: _normalize_stream_number(r["stream"]), axis=1)']
    lines = {l.strip() for l in src.splitlines()}
    missing = [w for w in want if w not in lines]
    if missing:
        raise pyvc.Unsupported("normalize_gpu_stream_numbers no longer matches the contract's reading: " + "; ".join(missing))
    vcs.append(core.VC(f"{PROP}.normalize_gpu_stream_numbers.statements", [], z3.BoolVal(True), "vc", [g.fq], {},
                       note="the stream column is rewritten row by row with _normalize_stream_number(row's stream) (statement correspondence)"))
    # the scalar function itself, executed with its try/except: int(x) either converts or raises ValueError
    nf = extract.get_function(UT, "normalize_gpu_stream_numbers._normalize_stream_number")
    convertible = z3.Bool("stream_converts_to_int")
    ival = z3.Int("stream_as_int")

    @pyvc.intrinsic
    def _int(exq, pc, env, args, kwargs):
        if len(args) != 1 or args[0] is not raw:
            raise pyvc.Unsupported("int() of something else than the raw stream value")
        return pyvc.PathValues([(convertible, ival), (z3.Not(convertible), pyvc.Raises("ValueError"))])

    raw = pyvc.Opaque("raw stream value")
    exn = pyvc.Exec(name=f"{PROP}.normalize_stream_number", intrinsics={"int": _int})
    outs = exn.run_function(extract.stripped(nf), {"stream_number": raw}, [])
    res, raise_cond = pyvc.merged_return(outs)
    if res is None:
        raise pyvc.Unsupported("_normalize_stream_number never returns")
    vcs += [core.VC(pv.name, pv.hyps, pv.goal, "vc", [nf.fq], {}, note=pv.note) for pv in exn.vcs]
    vcs.append(core.VC(f"{PROP}.normalize_stream_number.value", [], to_z3(res) == z3.If(convertible, ival, -1), "vc", [nf.fq], {"convertible": convertible, "stream_as_int": ival, "result": to_z3(res)},
                       note="int(stream) when the conversion succeeds, -1 when it raises ValueError"))
    vcs.append(core.VC(f"{PROP}.normalize_stream_number.never_raises", [], z3.Not(to_z3(raise_cond)), "vc", [nf.fq], {"convertible": convertible}))
    vcs.append(core.VC(f"{PROP}.normalize_stream_number.vacuity", [z3.Not(convertible)], z3.BoolVal(False), "vacuity", [nf.fq], {}))
    h = extract.get_function(TP, "_compress_df")
    lam = None
    for n in ast.walk(h.node):
        if isinstance(n, ast.Lambda) and any(isinstance(x, ast.Name) and x.id == "isinstance" for x in ast.walk(n)):
            lam = n
    if lam is None:
        raise pyvc.Unsupported("args lambda not found in _compress_df")
    ex = pyvc.Exec(name=f"{PROP}.compress.args_lambda")
    is_dict = z3.Bool("row_is_dict")
    has_key = z3.Bool("row_has_raw_name")
    val, default = z3.Ints("row_value default_value")

    class _Row:
        def hv_call_method(self, exq, attr, args, kwargs, pc, env):
            if attr == "get":
                return z3.If(has_key, val, to_z3(args[1]))
            return NotImplemented

    @pyvc.intrinsic
    def _isinstance(exq, pc, env, args, kwargs):
        return is_dict

    ex.intrinsics["isinstance"] = _isinstance
    ex.consts["dict"] = "dict"
    arg = pyvc.Record("AttributeSpec", {"raw_name": "raw", "default_value": default, "name": "n"})
    res = ex.call_closure(pyvc.Closure(lam, {"arg": arg}), [_Row()], {}, [])
    vcs.append(core.VC(f"{PROP}.compress.args_lambda", [], to_z3(res) == z3.If(z3.And(is_dict, has_key), val, default), "vc", [h.fq], {},
                       note="configured argument column = args[raw_name] when args is a dict holding it, the default otherwise"))
    return vcs


def _is_call_on(st: ast.stmt, var: str, attr: str):
    if isinstance(st, ast.Expr) and isinstance(st.value, ast.Call) and isinstance(st.value.func, ast.Attribute) and st.value.func.attr == attr \
            and isinstance(st.value.func.value, ast.Name) and st.value.func.value.id == var:
        return st.value
    return None


def compress_df_vcs() -> List[core.VC]:
    """`_compress_df`: (a) which rows survive — the row-removing statements executed relationally on a symbolic frame;
    (b) no other statement of the function removes, adds or re-binds rows (syntactic frame); (c) the down-cast loop body
    executed for a symbolic column name and dtype kind: `ts` / `dur` are never re-stored, a re-stored column is the
    down-cast of ITSELF."""
    h = extract.get_function(TP, "_compress_df")
    fq = [h.fq]
    node = extract.stripped(h)
    name = f"{PROP}.compress_df"
    vcs: List[core.VC] = []
    # ---- (a) row filter: the top-level statements `df.dropna(...)` / `df.drop(<rows>.index, ...)`
    row_stmts = []
    for st in node.body:
        c = _is_call_on(st, "df", "dropna")
        if c is not None:
            row_stmts.append(st)
            continue
        c = _is_call_on(st, "df", "drop")
        if c is not None and not any(k.arg in ("axis", "columns") for k in c.keywords):
            row_stmts.append(st)
    if not row_stmts:
        raise pyvc.Unsupported("_compress_df: no row-removing statement found (the contract reads dropna + drop(<rows>.index))")
    ex = pyvc.Exec(consts=extract.module_constants(TP), name=name)
    fv.install(ex)
    cols = {"index": (z3.IntSort(), False, "int"), "ts": (z3.IntSort(), True, "int"), "dur": (z3.IntSort(), True, "int"),
            "cat": (z3.StringSort(), True, "str"), "name": (z3.StringSort(), True, "str"), "ph": (z3.StringSort(), True, "str")}
    df = fv.SymDF.base("raw", cols)
    pres0, cols0 = df.present, dict(df.cols)
    outs = ex.exec_block(row_stmts, [], {"df": df})
    if len(outs) != 1 or outs[0].kind != "fall" or outs[0].env.get("df") is not df:
        raise pyvc.Unsupported("_compress_df row statements: more than one path or the frame was re-bound")
    vcs += [core.VC(pv.name, pv.hyps, pv.goal, "vc", fq, {}, note=pv.note) for pv in ex.vcs]
    r = df.uni.skolem("r")
    dur_null, cat_null, cat_val = to_z3(cols0["dur"].isnull(r)), to_z3(cols0["cat"].isnull(r)), to_z3(cols0["cat"].val(r))
    want = z3.And(to_z3(pres0(r)), z3.Not(dur_null), z3.Not(cat_null), cat_val != z3.StringVal("Trace"))
    facts = [to_z3(f) for f in ex.facts]
    mv = {"row": r[0], "dur_missing": dur_null, "cat_missing": cat_null, "cat": cat_val, "kept": to_z3(df.present(r))}
    vcs.append(core.VC(f"{name}.rows.sound", facts + [to_z3(df.present(r))], want, "vc", fq, mv,
                       note="a surviving row is a row of the file's event list that carries a duration and a category other than 'Trace'"))
    vcs.append(core.VC(f"{name}.rows.complete", facts + [want], to_z3(df.present(r)), "vc", fq, mv,
                       note="every entry with a duration and a category other than 'Trace' survives (no complete event is lost)"))
    same = z3.And(*[to_z3(df.cols[c].val(r)) == to_z3(cols0[c].val(r)) for c in ("index", "ts", "dur", "cat", "name")])
    vcs.append(core.VC(f"{name}.rows.values_unchanged", facts + [to_z3(df.present(r))], same, "vc", fq, {"row": r[0]},
                       note="removing rows leaves index / ts / dur / cat / name of the surviving rows as they were"))
    vcs.append(core.VC(f"{name}.rows.vacuity", facts + [to_z3(df.present(r))], z3.BoolVal(False), "vacuity", fq, {}))
    vcs.append(core.VC(f"{name}.rows.canary", facts + [to_z3(pres0(r))], to_z3(df.present(r)), "canary", fq, {}, note="not every entry survives"))
    # ---- (b) syntactic frame: nothing else changes the row set or re-binds `df`
    others = []
    row_ids = {id(s) for s in row_stmts}
    for st in ast.walk(node):
        if id(st) in row_ids:
            continue
        if isinstance(st, (ast.Assign, ast.AugAssign, ast.AnnAssign)):
            tg = st.targets if isinstance(st, ast.Assign) else [st.target]
            for t in tg:
                for n in ast.walk(t) if isinstance(t, (ast.Tuple, ast.List)) else [t]:
                    if isinstance(n, ast.Name) and n.id == "df":
                        others.append(f"L{st.lineno}: df re-bound")
                    if isinstance(n, ast.Subscript) and isinstance(n.value, ast.Attribute) and n.value.attr in ("loc", "iloc", "at") and isinstance(n.value.value, ast.Name) and n.value.value.id == "df":
                        others.append(f"L{st.lineno}: df.{n.value.attr}[...] assignment (may enlarge the frame)")
        if isinstance(st, ast.Expr) and isinstance(st.value, ast.Call) and isinstance(st.value.func, ast.Attribute) and isinstance(st.value.func.value, ast.Name) and st.value.func.value.id == "df":
            c = st.value
            a = c.func.attr
            if a == "drop" and any(k.arg == "axis" and isinstance(k.value, ast.Constant) and k.value.value == 1 for k in c.keywords):
                continue  # column removal
            if a == "drop" and any(k.arg == "columns" for k in c.keywords) and not any(k.arg in ("index", "labels") for k in c.keywords) and not c.args:
                continue
            others.append(f"L{st.lineno}: df.{a}(...) as a statement")
    rets = [n for n in ast.walk(node) if isinstance(n, ast.Return)]
    ret_ok = len(rets) == 1 and isinstance(rets[0].value, ast.Tuple) and isinstance(rets[0].value.elts[0], ast.Name) and rets[0].value.elts[0].id == "df"
    if others or not ret_ok:
        # such a statement may be perfectly fine (e.g. `df = df[df["cat"] != "Trace"]`): outside the contract's reading, not a refutation
        raise pyvc.Unsupported(f"_compress_df: statements that may change the row set besides dropna / drop(<rows>.index): {others}; returns df: {ret_ok}")
    vcs.append(core.VC(f"{name}.rows.frame", [], z3.BoolVal(not others and ret_ok), "vc", fq, {},
                       note=f"no other statement removes / adds rows or re-binds df, and df itself is returned; found: {others or 'none'}"))
    # ---- (b2) column removal: every `df.drop(<names>, axis=1, inplace=True)` names only columns the property does not read
    # (top-level fields of a trace entry; stream / correlation are expanded from `args` AFTER the removal, so a raw column of
    # that name is not what the property reads; `args` itself may only go once the expansion loop has run)
    protected = {"ts", "dur", "name", "cat", "pid", "tid", "index"}
    after_expansion = set()
    for blk in ast.walk(node):
        body = getattr(blk, "body", None)
        if isinstance(body, list):
            seen_loop = False
            for st in body:
                if isinstance(st, ast.For) and any(isinstance(x, ast.Attribute) and x.attr == "apply" for x in ast.walk(st)) and 'df["args"]' in ast.unparse(st).replace("'", '"'):
                    seen_loop = True
                elif seen_loop:
                    after_expansion.add(id(st))
    set_lits: Dict[str, set] = {}
    for st in ast.walk(node):
        if isinstance(st, ast.Assign) and len(st.targets) == 1 and isinstance(st.targets[0], ast.Name):
            v = st.value
            if isinstance(v, ast.Call) and isinstance(v.func, ast.Attribute) and v.func.attr == "intersection" and isinstance(v.func.value, ast.Set):
                try:
                    set_lits[st.targets[0].id] = set(ast.literal_eval(v.func.value))  # a subset of the literal, whatever it is intersected with
                except Exception:  # noqa: BLE001
                    pass
    dropped_cols: List[str] = []
    for st in ast.walk(node):
        c = _is_call_on(st, "df", "drop") if isinstance(st, ast.stmt) else None
        if c is None or id(st) in row_ids:
            continue
        a0 = c.args[0] if c.args else next((k.value for k in c.keywords if k.arg == "columns"), None)
        names = None
        if isinstance(a0, (ast.List, ast.Tuple, ast.Set, ast.Constant)):
            try:
                lv = ast.literal_eval(a0)
                names = [lv] if isinstance(lv, str) else list(lv)
            except Exception:  # noqa: BLE001
                names = None
        elif isinstance(a0, ast.Call) and isinstance(a0.func, ast.Name) and a0.func.id == "list" and len(a0.args) == 1 and isinstance(a0.args[0], ast.Name) and a0.args[0].id in set_lits:
            names = sorted(set_lits[a0.args[0].id])
        if names is None:
            raise pyvc.Unsupported(f"_compress_df: column removal at line {st.lineno} with names the contract cannot resolve")
        if "args" in names and id(st) not in after_expansion:
            names = [n_ if n_ != "args" else "args (before the expansion loop)" for n_ in names]
            protected = protected | {"args (before the expansion loop)"}
        dropped_cols += names
    hit = sorted(set(dropped_cols) & protected)
    vcs.append(core.VC(f"{name}.columns.kept", [], z3.BoolVal(not hit), "vc", fq, {},
                       note=f"columns that can be removed: {sorted(set(dropped_cols))}; none of {sorted(protected)} among them (found: {hit or 'none'})"))
    # ---- (c) down-cast loop
    loop = None
    for n in ast.walk(node):
        if isinstance(n, ast.For) and any(isinstance(x, ast.Attribute) and x.attr == "to_numeric" for x in ast.walk(n)):
            loop = n
    if loop is None:
        # no down-cast at all: nothing can wrap; the obligations below hold trivially
        vcs.append(core.VC(f"{name}.downcast.absent", [], z3.BoolVal(True), "vc", fq, {}, note="no pd.to_numeric loop in _compress_df"))
        return vcs
    if not (isinstance(loop.target, ast.Name) and isinstance(loop.iter, ast.Attribute) and loop.iter.attr == "columns" and not loop.orelse):
        raise pyvc.Unsupported("_compress_df down-cast loop: not `for <col> in df.columns`")
    colname = z3.String("col")
    kind = z3.String("dtype_kind")
    writes: List[Any] = []

    class _Dtype:
        def hv_getattr(self, exq, attr, pc):
            if attr == "kind":
                return kind
            raise pyvc.Unsupported(f"dtype.{attr} in the down-cast loop")

    class _ColRef:
        def __init__(self, key):
            self.key = key

        def hv_getattr(self, exq, attr, pc):
            if attr == "dtype":
                return _Dtype()
            return NotImplemented

    class _Frame:
        def hv_getitem(self, exq, idx, pc):
            return _ColRef(idx)

        def hv_setitem(self, exq, idx, v, pc):
            writes.append((list(pc), idx, v))

        def hv_getattr(self, exq, attr, pc):
            raise pyvc.Unsupported(f"df.{attr} inside the down-cast loop body")

    class _Down:
        def __init__(self, src, kw):
            self.src, self.kw = src, kw

    @pyvc.intrinsic
    def _to_numeric(exq, pc, env, args, kwargs):
        return _Down(args[0] if args else None, dict(kwargs))

    ex2 = pyvc.Exec(consts=extract.module_constants(TP), name=f"{name}.downcast")
    ex2.consts["pd"] = pyvc.Namespace("pd", {"to_numeric": _to_numeric})
    outs2 = ex2.exec_block(loop.body, [], {"df": _Frame(), loop.target.id: colname})
    if any(o.kind not in ("fall", "continue") for o in outs2):
        raise pyvc.Unsupported("_compress_df down-cast loop body leaves the loop (break / return / raise)")
    vcs += [core.VC(pv.name, pv.hyps, pv.goal, "vc", fq, {}, note=pv.note) for pv in ex2.vcs]
    mv2 = {"col": colname, "dtype_kind": kind}
    shape_ok = True
    for k, (pc, idx, v) in enumerate(writes):
        hy = [to_z3(c) for c in pc if c is not True]
        vcs.append(core.VC(f"{name}.downcast.never_time_columns.{k}", hy, z3.And(to_z3(idx) != z3.StringVal("ts"), to_z3(idx) != z3.StringVal("dur")), "vc", fq, mv2,
                           note="a column re-stored by the loop is neither ts nor dur (64-bit time columns: ts + dur, ts − min_ts cannot wrap; D23)"))
        vcs.append(core.VC(f"{name}.downcast.same_column.{k}", hy, to_z3(idx) == colname, "vc", fq, mv2, note="the loop writes the column it is visiting"))
        ok = isinstance(v, _Down) and isinstance(v.src, _ColRef) and z3.is_expr(v.src.key) and z3.eq(v.src.key, colname) and v.kw.get("downcast") == "integer" and set(v.kw) <= {"downcast", "errors"}
        shape_ok = shape_ok and ok
    vcs.append(core.VC(f"{name}.downcast.value_is_downcast_of_itself", [], z3.BoolVal(shape_ok), "vc", fq, {},
                       note="every stored value is pd.to_numeric(df[col], downcast='integer') of the visited column (assumed pandas contract: value-preserving narrowing to the smallest signed type holding every value)"))
    vcs.append(core.VC(f"{name}.downcast.canary", [], z3.BoolVal(len(writes) == 0), "canary", fq, {}, note="the loop does store something on some path"))
    return vcs


def json_reader_vcs() -> List[core.VC]:
    """`_parse_trace_dataframe_json`: the caller side of `_compress_df`'s precondition (fresh unique labels) and of the clause
    "identified by its position in the file's event list": the frame is built from `trace_record["traceEvents"]`, `reset_index`
    turns the positions 0..n-1 into the column `index` BEFORE any row is removed, and that column is only re-stored as the
    down-cast of itself. Statement-order obligations over the real AST; any other statement in between is outside the contract's
    reading (undecided, the bounded stage decides)."""
    f = extract.get_function(TP, "_parse_trace_dataframe_json")
    fq = [f.fq]
    node = extract.stripped(f)
    name = f"{PROP}.json_reader"
    block = None
    for n in ast.walk(node):
        if isinstance(n, ast.If) and any(isinstance(x, ast.Call) and isinstance(x.func, ast.Name) and x.func.id == "_compress_df" for x in ast.walk(n)):
            block = n
    if block is None:
        raise pyvc.Unsupported("_parse_trace_dataframe_json: no block calling _compress_df")
    kinds: List[str] = []
    for st in block.body:
        src = ast.unparse(st).replace("'", '"')
        if isinstance(st, (ast.Assign, ast.AnnAssign)) and src.replace(": pd.DataFrame", "") == 'df = pd.DataFrame(trace_record["traceEvents"])':
            kinds.append("build")
        elif src == "round_down_time_stamps(df)":
            kinds.append("round")
        elif _is_call_on(st, "df", "reset_index") is not None:
            c = _is_call_on(st, "df", "reset_index")
            kw = {k.arg: getattr(k.value, "value", "?") for k in c.keywords}
            if c.args or kw.get("inplace") is not True or not set(kw) <= {"inplace", "drop"} or kw.get("drop", False) not in (True, False):
                raise pyvc.Unsupported(f"_parse_trace_dataframe_json: reset_index call outside the contract's reading: {src}")
            kinds.append("reset" if not kw.get("drop", False) else "reset_dropping_positions")
        elif isinstance(st, ast.Assign) and src.startswith('df["index"] = pd.to_numeric(df["index"]'):
            kinds.append("narrow_index")
        elif isinstance(st, ast.Assign) and src.endswith("= _compress_df(df, cfg)") and isinstance(st.targets[0], ast.Tuple) and isinstance(st.targets[0].elts[0], ast.Name) and st.targets[0].elts[0].id == "df":
            kinds.append("compress")
        else:
            raise pyvc.Unsupported(f"_parse_trace_dataframe_json: statement outside the contract's reading at line {st.lineno}: {src[:80]}")
    def before(a, b):
        return a in kinds and b in kinds and kinds.index(a) < kinds.index(b) and kinds.count(a) == 1 and kinds.count(b) == 1
    vcs = [core.VC(f"{name}.frame_is_the_event_list", [], z3.BoolVal(kinds[:1] == ["build"]), "vc", fq, {}, note=f"row i of the frame is entry i of traceEvents (pd.DataFrame(list of dicts) contract); statements: {kinds}"),
           core.VC(f"{name}.index_is_file_position", [], z3.BoolVal(before("build", "reset") and before("reset", "compress")), "vc", fq, {},
                   note="reset_index(inplace=True) on the fresh RangeIndex stores the positions 0..n-1 in column `index` before _compress_df removes any row"),
           core.VC(f"{name}.labels_unique_at_compress", [], z3.BoolVal(before("reset", "compress") and all(k in ("build", "round", "reset", "narrow_index", "compress") for k in kinds)), "vc", fq, {},
                   note="between reset_index and _compress_df nothing touches rows or labels: _compress_df's precondition (unique labels) holds at the call")]
    ret = [n for n in ast.walk(node) if isinstance(n, ast.Return)]
    ok = len(ret) == 1 and isinstance(ret[0].value, ast.Tuple) and len(ret[0].value.elts) == 3 and isinstance(ret[0].value.elts[1], ast.Name) and ret[0].value.elts[1].id == "df"
    vcs.append(core.VC(f"{name}.returns_compressed_frame", [], z3.BoolVal(ok), "vc", fq, {}, note="the frame handed back is the one _compress_df returned"))
    # round_down_time_stamps (runs between build and reset) writes columns only: no row is removed, added or re-ordered
    g = extract.get_function(TP, "round_down_time_stamps")
    got = assigned_columns(g.node, "df")
    vcs.append(core.VC(f"{name}.rounding_keeps_rows", [], z3.BoolVal(set(got) <= {"ts", "end", "dur"}), "vc", [g.fq], {}, note=f"round_down_time_stamps assigns only columns {got}"))
    return vcs


def dispatcher_vcs() -> List[core.VC]:
    """`parse_trace_dataframe`: for every value of `cfg.parser_backend` (each member of ParserBackend, or None with every possible
    default) and both values of `cfg.trace_memory`, the function hands back, unchanged, the triple of exactly one reader call made
    with (trace_file_path, cfg); the JSON back end is `_parse_trace_dataframe_json` (the reader C01.json_reader puts under
    contract). The enum is finite: the enumeration of its members is exhaustive, not a bound."""
    PC = "hta.configs.parser_config"
    f = extract.get_function(TP, "parse_trace_dataframe")
    fq = [f.fq]
    node = extract.stripped(f)
    name = f"{PROP}.parse_trace_dataframe"
    members = extract.enum_members(PC, "ParserBackend")
    cls = pyvc.EnumCls("ParserBackend", members)
    vcs: List[core.VC] = []
    n_json = 0
    for backend in list(members) + [None]:
        for default in (list(members) if backend is None else [None]):
            for mem in (False, True):
                calls: List[Any] = []

                def reader(nm):
                    @pyvc.intrinsic
                    def f_(exq, pc, env, args, kwargs, _nm=nm):
                        calls.append((_nm, list(args), dict(kwargs)))
                        trip = (pyvc.Opaque("meta"), pyvc.Opaque("df"), pyvc.Opaque("symtab"))  # opaque: any operation on them is outside the contract's reading (undecided)
                        calls[-1] = calls[-1] + (trip,)
                        return trip

                    return f_

                ex = pyvc.Exec(consts=extract.module_constants(TP), name=name)
                ex.consts["ParserBackend"] = cls
                ex.intrinsics["_parse_trace_dataframe_json"] = reader("json")
                ex.intrinsics["_parse_trace_dataframe_ijson"] = reader("ijson")
                ex.intrinsics["get_default_trace_parsing_backend"] = _const_fn(cls.member(default) if default else None)
                ex.consts["ParserConfig"] = pyvc.Namespace("ParserConfig", {"get_default_cfg": _const_fn(pyvc.Opaque("another configuration"))})
                ex.consts["tracemalloc"] = pyvc.Namespace("tracemalloc", {"get_traced_memory": _const_fn((0, 0))})
                cfg = pyvc.Record("ParserConfig", {"parser_backend": cls.member(backend) if backend else None, "trace_memory": mem})
                outs = ex.run_function(node, {"trace_file_path": "PATH", "cfg": cfg}, [])
                eff = backend or default
                tag = f"{backend or 'default'}{'.' + default if default else ''}.{'mem' if mem else 'nomem'}"
                ok = len(outs) == 1 and outs[0].kind == "ret" and len(calls) == 1 and isinstance(outs[0].value, tuple) and len(outs[0].value) == 3 and all(a is b for a, b in zip(outs[0].value, calls[0][3])) \
                    and calls[0][1][:1] == ["PATH"] and len(calls[0][1]) == 2
                if len(calls) == 1 and len(calls[0][1]) == 2 and calls[0][1][1] is not cfg:
                    # another configuration may give the same rows for the columns the property reads: not judged here
                    raise pyvc.Unsupported("parse_trace_dataframe: the reader is called with a configuration other than the caller's")
                if eff == "JSON":
                    n_json += 1
                    ok = ok and calls[0][0] == "json" and not calls[0][2]
                else:
                    ok = ok and calls[0][0] == "ijson"
                vcs.append(core.VC(f"{name}.{tag}", [], z3.BoolVal(bool(ok)), "vc", fq, {},
                                   note=f"backend {eff}: one reader call {[(c[0], c[2]) for c in calls]} with (path, cfg); its triple is returned unchanged; outcomes {[o.kind for o in outs]}"))
    vcs.append(core.VC(f"{name}.canary", [], z3.BoolVal(n_json == 0), "canary", fq, {}, note="the JSON back end is reached"))
    return vcs


# ---------------------------------------------------------------------------------------------- bounded


def _rnd(ts, dur):
    if isinstance(ts, float) or isinstance(dur, float):
        t2 = math.ceil(ts)
        e2 = math.floor(ts + dur)
        return t2, e2 - t2
    return ts, dur


def _tiny_timestamp_ranks(k: int) -> Dict[int, List[Dict[str, Any]]]:
    """files whose timestamps are small relative numbers (a profiler that counts from 0) and whose entries all carry a
    duration: every integer column fits one or two bytes, while start + duration does not"""
    from hv import synth

    out = {}
    for rk in range(1 + k % 2):
        hi = [100, 30_000][k // 2 % 2]  # just below the int8 / int16 limit
        evs = [synth.host_op("aten::first_op", 0 + rk, 5), synth.host_op("aten::mm", 10 + rk, hi), synth.launch(12 + rk, 5, 1),
               synth.kernel("void gemm_kernel_a", hi // 2, hi, 7, 1), synth.launch(20 + rk, 5, 2), synth.kernel("void elementwise_kernel_b", hi + 20, 20, 7, 2),
               synth.host_op("aten::add", hi + 15, 12)]
        out[rk] = evs
    return out


def _case(arg) -> Dict[str, Any]:
    seed, mode = arg[:2]
    from hv import gen, rt

    nr = 1 + seed % 3
    frac = (seed % 4 == 1)
    kw = dict(n_threads=1 + seed % 2, n_streams=1 + seed % 2, steps=seed % 3 if mode != "load" else 0, fractional=frac, base=[0, 1_000_000, 1_700_000_000_000_000][seed % 3])
    per_rank = gen.gen_trace_set(seed, n_ranks=nr, **kw)
    if seed % 6 == 4 and not frac:
        per_rank = gen.wide_narrow_set(seed, **kw)  # a 200-name rank next to a small all-duration rank: the small rank's symbols get trace-wide ids beyond 127
        nr = 2
    if seed % 4 == 1:
        # two DISTINCT events that agree on name, category, process, thread, start and duration (zero-length view operators in one microsecond): two rows
        for evs in per_rank.values():
            host = [e for e in evs if e.get("cat") == "cpu_op" and e.get("dur", 0) >= 5]
            if host:
                h = host[len(host) // 2]
                for _ in range(2):
                    evs.append({"ph": "X", "cat": "cpu_op", "name": "aten::as_strided", "pid": h["pid"], "tid": h["tid"], "ts": h["ts"] + 1, "dur": 0})
    if seed % 6 == 5:
        # older exporters label device rows with text ("stream 7") instead of a number: process / thread decode to the file's values, whatever their type
        for evs in per_rank.values():
            for e in evs:
                if e.get("cat") in ("kernel", "gpu_memcpy", "gpu_memset") and isinstance(e.get("tid"), int):
                    e["tid"] = f"stream {e['tid']}"
    if seed % 7 == 3:
        # a host-only rank none of whose events carries an `args` object (no launches, no metadata entries): stream / correlation must decode to their defaults
        last = max(per_rank)
        per_rank[last] = [e for e in per_rank[last] if e.get("ph") == "X" and "args" not in e]
    if seed % 3 == 2:
        # Python stack frames as the profiler writes them with with_stack=True: complete events of category python_function, spread over the file
        # (ids are positions in the file's event list, so every event after such an entry shows whether entries were dropped before numbering)
        import random as _r

        rr = _r.Random(seed)
        for evs in per_rank.values():
            host = [e for e in evs if e.get("ph") == "X" and e.get("cat") == "cpu_op"]
            for k in range(min(4, len(host))):
                h = rr.choice(host)
                pf = {"ph": "X", "cat": "python_function", "name": f"model.py({10 + k}): forward", "pid": h["pid"], "tid": h["tid"], "ts": h["ts"], "dur": h["dur"],
                      "args": {"Python id": k + 1, "Python parent id": k}}
                evs.insert(rr.randint(1, max(1, len(evs) - 1)), pf)
    if seed % 5 == 0:  # stream 0 and non-numeric stream values
        for evs in per_rank.values():
            for e in evs:
                if isinstance(e.get("args"), dict) and "stream" in e["args"] and e["args"]["stream"] == 7:
                    e["args"]["stream"] = 0 if seed % 2 else "7"
    if len(arg) > 2:
        per_rank = _tiny_timestamp_ranks(arg[2])
        nr, frac = len(per_rank), False
    fails: List[Dict[str, Any]] = []
    n = 0
    inp = {"seed": seed, "mode": mode, "events": per_rank}
    with rt.trace_dir(per_rank, gz=bool(seed % 2)) as d:
        try:
            mp_ = bool(seed % 2)
            if mode == "parse":
                t = rt.lib(fails, "parse_traces", inp, rt.load_trace, d, False, use_multiprocessing=mp_)
            else:
                t = rt.lib(fails, "load_traces", inp, rt.load_trace, d, True, use_multiprocessing=mp_)
        except rt.LibFailure:
            return {"n_checks": 1, "fails": fails, "nontrivial": True}
        stab = t.symbol_table.get_sym_table()
        exp_rows: Dict[int, Dict[int, Dict[str, Any]]] = {}
        for rk, evs in per_rank.items():
            rows = {}
            for i, e in gen.complete_events(evs):
                a = e.get("args") if isinstance(e.get("args"), dict) else {}
                ts, dur = _rnd(e["ts"], e["dur"])
                s = a.get("stream", -1)
                try:
                    s = int(s)
                except (ValueError, TypeError):
                    s = -1
                rows[i] = {"name": e["name"], "cat": e["cat"], "pid": e["pid"], "tid": e["tid"], "ts": ts, "dur": dur, "stream": s, "correlation": a.get("correlation", -1)}
            exp_rows[rk] = rows
        gmin = min(r["ts"] for rows in exp_rows.values() for r in rows.values())
        shift = gmin if mode == "load" else 0
        if mode == "load" and abs(t.min_ts - gmin) > 0:
            fails.append({"what": "shared_constant", "input": inp, "observed": t.min_ts, "expected": gmin})
        for rk, rows in exp_rows.items():
            df = t.get_trace(rk)
            n += 1
            got_ids = [int(x) for x in df["index"]]
            if sorted(got_ids) != sorted(rows) or len(set(got_ids)) != len(got_ids):
                fails.append({"what": "one_row_per_complete_event", "input": inp, "observed": sorted(got_ids)[:30], "expected": sorted(rows)[:30]})
                continue
            if mode == "load" and list(df.index) != got_ids:
                fails.append({"what": "indexed_by_event_id", "input": inp, "observed": list(df.index)[:10], "expected": got_ids[:10]})
            missing_cols = [c for c in ("name", "cat", "pid", "tid", "ts", "dur", "stream", "correlation", "end") if c not in df.columns]
            if missing_cols:  # a column the property reads is gone: a failure of the decode clause, not a harness crash
                fails.append({"what": "row_decodes_to_file_values", "input": inp, "observed": {"rank": rk, "missing columns": missing_cols}, "expected": "every column of the statement present"})
                continue
            for _, row in df.iterrows():
                e = rows[int(row["index"])]
                got = {"name": stab[int(row["name"])], "cat": stab[int(row["cat"])], "pid": row["pid"], "tid": row["tid"], "ts": row["ts"] + shift, "dur": row["dur"],
                       "stream": int(row["stream"]), "correlation": int(row["correlation"])}
                bad = {k: (got[k], e[k]) for k in e if got[k] != e[k]}
                if bad:
                    fails.append({"what": "row_decodes_to_file_values", "input": inp, "observed": {"rank": rk, "index": int(row["index"]), **{k: str(v[0]) for k, v in bad.items()}},
                                  "expected": {k: str(v[1]) for k, v in bad.items()}})
                    break
                if row["end"] != row["ts"] + row["dur"]:
                    fails.append({"what": "end_is_ts_plus_dur", "input": inp, "observed": {"rank": rk, "index": int(row["index"]), "ts": row["ts"], "dur": row["dur"], "end": row["end"]}})
                    break
        if mode == "load" and not fails:
            if min(int(t.get_trace(rk)["ts"].min()) for rk in per_rank) != 0:
                fails.append({"what": "earliest_event_at_zero", "input": inp, "observed": [int(t.get_trace(rk)["ts"].min()) for rk in per_rank]})
    return {"n_checks": n, "fails": fails, "nontrivial": n > 0, "sample": {"seed": seed, "mode": mode, "ranks": nr, "fractional": frac}}


def bounded(ctx):
    from hv import rt

    n = 40 if not ctx.thorough else 500
    args = [(ctx.seed * 1009 + i, "parse" if i % 2 else "load") for i in range(n)]
    args += [(ctx.seed * 1009 + 5000 + k, "parse" if k % 2 else "load", k) for k in range(4)]  # small relative timestamps, narrow integer storage
    res = rt.pmap(_case, args, ctx.procs)
    return rt.summarise(res, f"{PROP}.bounded", f"{n} generated trace sets (1-3 ranks, integer/fractional timestamps, epoch offsets 0 / 1e6 / 1.7e15, stream 0 and non-numeric "
                        "streams, .json/.json.gz, multiprocessing on/off; 4 files with small relative timestamps whose integer columns fit one or two bytes), parse-only and full load (no trimming: < 2 profiler steps) vs. the JSON")


def units(ctx):
    return [core.Unit(f"{PROP}.round_down_time_stamps", rounding_vcs, [TP + ".round_down_time_stamps"]),
            core.Unit(f"{PROP}.parse_trace_file", parse_file_vcs, [TR + ".parse_trace_file"]),
            core.Unit(f"{PROP}.align_all_ranks", align_vcs, [TR + ".Trace._align_all_ranks"]),
            core.Unit(f"{PROP}.load_traces", load_traces_vcs, [TR + ".Trace.load_traces"]),
            core.Unit(f"{PROP}.scalars", scalar_vcs, [UT + ".normalize_gpu_stream_numbers", TP + "._compress_df"]),
            core.Unit(f"{PROP}.compress_df", compress_df_vcs, [TP + "._compress_df"]),
            core.Unit(f"{PROP}.json_reader", json_reader_vcs, [TP + "._parse_trace_dataframe_json"]),
            core.Unit(f"{PROP}.parse_trace_dataframe", dispatcher_vcs, [TP + ".parse_trace_dataframe"])]


def replay(ctx, rec: Dict[str, Any]) -> Dict[str, Any]:
    """Counter-models of the scalar obligations, run through the real functions."""
    import math
    from fractions import Fraction

    import pandas as pd

    m = rec.get("model") or {}
    name = rec.get("name", "")
    if ".normalize_stream_number." in name and "convertible" in m:
        from hta.utils.utils import normalize_gpu_stream_numbers

        conv = str(m["convertible"]) == "True"
        raw = int(str(m.get("stream_as_int", 0))) if conv else "not-a-number"
        df = pd.DataFrame({"stream": pd.Series([raw], dtype=object)})
        try:
            normalize_gpu_stream_numbers(df)
            got = df["stream"].iloc[0]
        except Exception as e:  # noqa: BLE001
            got = f"{type(e).__name__}: {e}"
        want = raw if conv else -1
        return {"confirmed": got != want, "input": {"stream": raw}, "observed": {"stream": got if isinstance(got, str) else int(got)}, "expected": {"stream": want},
                "how": "hta.utils.utils.normalize_gpu_stream_numbers on a one-row frame"}
    if ".round_down_time_stamps." in name and "ts" in m and "dur" in m:
        from hta.common.trace_parser import round_down_time_stamps

        def num(x):
            x = str(x).replace("?", "")
            return Fraction(x) if "/" in x else Fraction(x)

        ts, dur = num(m["ts"]), num(m["dur"])
        if float(ts) != ts or float(dur) != dur or float(ts + dur) != ts + dur:
            return {"confirmed": False, "why": "the model is not exactly representable in binary floating point"}
        df = pd.DataFrame({"ts": [float(ts)], "dur": [float(dur)], "name": ["x"]})
        try:
            round_down_time_stamps(df)
            got = {"ts": int(df["ts"].iloc[0]), "end": int(df["end"].iloc[0]), "dur": int(df["dur"].iloc[0])}
        except Exception as e:  # noqa: BLE001
            return {"confirmed": True, "input": {"ts": float(ts), "dur": float(dur)}, "observed": f"{type(e).__name__}: {e}"}
        want = {"ts": math.ceil(ts), "end": math.floor(ts + dur), "dur": math.floor(ts + dur) - math.ceil(ts)}
        return {"confirmed": got != want, "input": {"ts": float(ts), "dur": float(dur)}, "observed": got, "expected": want, "how": "hta.common.trace_parser.round_down_time_stamps on a one-row frame"}
    if ".compress_df.rows." in name and "dur_missing" in m:
        from hta.common.trace_parser import _compress_df

        def unq(x):
            x = str(x)
            return x[1:-1] if len(x) >= 2 and x[0] == '"' and x[-1] == '"' else x

        dm, cm, cat = str(m["dur_missing"]) == "True", str(m["cat_missing"]) == "True", unq(m.get("cat", "cpu_op"))
        if not cat.isascii() or "\\" in cat:
            cat = "Trace" if "Trace" in cat else "c"
        ev: Dict[str, Any] = {"ph": "X", "name": "probe", "pid": 1, "tid": 1, "ts": 10}
        if not dm:
            ev["dur"] = 5
        if not cm:
            ev["cat"] = cat
        other = {"ph": "X", "name": "other", "cat": "cpu_op", "pid": 1, "tid": 1, "ts": 20, "dur": 5, "args": {"External id": 1}}
        df = pd.DataFrame([ev, other])
        df.reset_index(inplace=True)
        try:
            out, _ = _compress_df(df)
            got = bool((out["index"] == 0).any())
        except Exception as e:  # noqa: BLE001
            return {"confirmed": True, "input": {"events": [ev, other]}, "observed": f"{type(e).__name__}: {e}"}
        want = (not dm) and (not cm) and cat != "Trace"
        return {"confirmed": got != want, "input": {"events": [ev, other]}, "observed": {"first entry kept": got}, "expected": {"first entry kept": want},
                "how": "hta.common.trace_parser._compress_df on the two-entry event list (after reset_index, as _parse_trace_dataframe_json does)"}
    return {"confirmed": False, "why": "no replay for this obligation"}


SPEC = Spec(
    prop=PROP, level="other", replay=replay,
    functions=[(TP, "round_down_time_stamps"), (TR, "parse_trace_file"), (TR, "Trace._align_all_ranks"), (TR, "Trace.load_traces"), (TP, "_compress_df"), (TP, "_parse_trace_dataframe_json"), (TP, "parse_trace_dataframe"),
               (UT, "normalize_gpu_stream_numbers"), (UT, "normalize_gpu_stream_numbers._normalize_stream_number"), (TR, "add_fwd_bwd_links"), (TR, "add_iteration")],
    units=units, bounded=[Bounded("load_vs_json", bounded)],
    trusted=["pandas contracts (column arithmetic, apply, Series.min, set_index, label alignment) listed under assumptions", "math.ceil / math.floor on reals",
             "JSON text -> Python objects; ijson back-ends are not installed (get_default_trace_parsing_backend returns JSON)"],
    explanation="Proved (z3, from the AST): inward rounding and its order lemmas, end = ts + dur in parse_trace_file with the callees' write sets, alignment by one shared "
                "minimal constant with end recomputed (1-3 ranks), load_traces indexing, the args lambda; _compress_df's row survival (kept iff the entry carries a duration and a "
                "category other than 'Trace', values of kept rows unchanged, no other statement changes the row set) and its down-cast loop (ts / dur never re-stored, a column is "
                "replaced only by the down-cast of itself). Bounded (real code vs. the JSON, never counted as proved): "
                "_compress_df's symbol encoding / argument expansion as a whole, _parse_trace_dataframe_json's index = file position, multi-rank re-encoding.",
)
