"""C10 — the critical-path breakdown conserves the path weight and attributes it correctly.

Deductive (z3 from the AST):
  * CPGraph._attribute_edge: a total table over (edge type, src.is_start, dest.is_start): kernel-kernel delay -> src event
    (the kernel preceding the gap); span edge: start->* -> src, end->end -> dest, end->start -> src_parent; other types not attributed;
  * bound_by: delay edges -> their overhead class (before anything else), dependencies -> "", host (stream < 0) -> cpu_bound,
    communication kernel -> gpu_communication_bound, other device activity -> gpu_compute_bound;
  * make_edge_record (event_idx, duration = e.weight, type), summary = per-class share of the total x 100.
Bounded: breakdown of the real analysis on generated traces: one row per critical edge, durations sum to the path weight,
attributed events exist / lie on the same thread or stream / cover the edge's time range, classes, summary adds up to 100.
"""
from __future__ import annotations

import ast
from typing import Any, Dict, List

import z3

from contracts import cp_common as cc
from contracts.C08 import _edge_types, _node
from hv import core, extract, pyvc
from hv import history
from hv.driver import Bounded, Spec
from hv.pyvc import to_z3

CPA = cc.CPA
PROP = "C10"

KNOWN_D17 = "C10-D17-gap-attributed-to-non-analysed-parent"


def attribute_vcs() -> List[core.VC]:
    name = f"{PROP}.attribute_edge"
    f = extract.get_function(CPA, "CPGraph._attribute_edge")
    fq = [f.fq]
    et = _edge_types()
    ex = pyvc.Exec(consts=extract.module_constants(CPA), name=name)
    ex.consts["CPEdgeType"] = et
    src, dst = _node("src"), _node("dest")
    typ = z3.Int("edge_type")

    class _T:
        def hv_compare(self, exq, op, other, reflected):
            if isinstance(other, pyvc.EnumVal):
                r = typ == other.code
                return r if isinstance(op, ast.Eq) else z3.Not(r)
            raise pyvc.Unsupported("enum compare")

    e = pyvc.Record("CPEdge", {"begin": src.fields["idx"], "end": dst.fields["idx"], "weight": z3.Int("w"), "type": typ}, frozen=True)
    stored: List[Any] = []

    class _Map:
        def hv_setitem(self, exq, key, v, pc):
            stored.append((list(pc), key, v))

        def __deepcopy__(self, memo):
            return self

    class _NodeList:
        def hv_getitem(self, exq, idx, pc):
            if idx is src.fields["idx"] or (pyvc.is_sym(idx) and idx.eq(src.fields["idx"])):
                return src
            if pyvc.is_sym(idx) and idx.eq(dst.fields["idx"]):
                return dst
            raise pyvc.Unsupported("node_list index")

        def __deepcopy__(self, memo):
            return self

    parent = z3.Int("src_parent")
    selfrec = pyvc.Record("CPGraph", {"node_list": _NodeList(), "edge_to_event_map": _Map()})
    outs = ex.run_function(extract.stripped(f), {"self": selfrec, "e": e, "src_parent": parent}, [et.domain(typ)])
    OK, KK = et.member("OPERATOR_KERNEL").code, et.member("KERNEL_KERNEL_DELAY").code
    attributable = z3.Or(typ == OK, typ == KK)
    vcs: List[core.VC] = []
    spec = z3.If(typ == KK, src.fields["ev_idx"], z3.If(src.fields["is_start"], src.fields["ev_idx"], z3.If(z3.Not(dst.fields["is_start"]), dst.fields["ev_idx"], parent)))
    mv = {"type": typ, "src_is_start": src.fields["is_start"], "dest_is_start": dst.fields["is_start"]}
    conds = []
    for i, (pc, key, v) in enumerate(stored):
        hy = [to_z3(c) for c in pc]
        conds.append(z3.And(*hy) if hy else z3.BoolVal(True))
        kok = isinstance(key, tuple) and len(key) == 2 and to_z3(key[0]).eq(src.fields["idx"]) and to_z3(key[1]).eq(dst.fields["idx"])
        vcs.append(core.VC(f"{name}.store_{i}.value_follows_table", hy, z3.And(z3.BoolVal(bool(kok)), attributable, to_z3(v) == spec), "vc", fq, mv,
                           note="kernel-kernel delay -> preceding kernel; (start,*) -> src; (end,end) -> dest; (end,start) -> the parent of the source"))
    vcs.append(core.VC(f"{name}.attributed_iff_span_or_kernel_delay", [et.domain(typ)], (z3.Or(*conds) if conds else z3.BoolVal(False)) == attributable, "vc", fq, mv,
                       note="exactly operator/kernel spans and kernel-kernel delays get an attributed event"))
    vcs.append(core.VC(f"{name}.at_most_one_store", [et.domain(typ)], z3.AtMost(*conds, 1) if len(conds) > 1 else z3.BoolVal(True), "vc", fq, mv))
    vcs.append(core.VC(f"{name}.guard.canary_false", [et.domain(typ), typ == OK], z3.BoolVal(False), "canary", fq))
    return vcs


def bound_by_vcs() -> List[core.VC]:
    name = f"{PROP}.bound_by"
    f = extract.get_function(CPA, "bound_by")
    fq = [f.fq]
    ex = pyvc.Exec(consts=extract.module_constants(CPA), name=name)
    typ = z3.String("type")
    s_name = z3.String("s_name")
    stream = z3.Int("stream")
    name_na = z3.Bool("name_is_na")
    comm = z3.Function("is_comm_kernel", z3.StringSort(), z3.BoolSort())

    @pyvc.intrinsic
    def is_comm(exq, pc, env, args, kwargs):
        return comm(to_z3(args[0]))

    @pyvc.intrinsic
    def isna(exq, pc, env, args, kwargs):
        return name_na

    ex.intrinsics["is_comm_kernel"] = is_comm
    ex.consts["pd"] = pyvc.Namespace("pd", {"isna": isna})
    row = {"type": typ, "s_name": s_name, "stream": stream}
    outs = ex.run_function(extract.stripped(f), {"row": row}, [])
    val, rc = pyvc.merged_return(outs)
    KK, LD = z3.StringVal("critical_path_kernel_kernel_delay"), z3.StringVal("critical_path_kernel_launch_delay")
    DEP, SYN = z3.StringVal("critical_path_dependency"), z3.StringVal("critical_path_sync_dependency")
    spec = z3.If(typ == KK, z3.StringVal("gpu_kernel_kernel_overhead"), z3.If(typ == LD, z3.StringVal("gpu_kernel_launch_overhead"), z3.If(z3.Or(typ == DEP, typ == SYN), z3.StringVal(""),
                 z3.If(stream < 0, z3.StringVal("cpu_bound"), z3.If(comm(s_name), z3.StringVal("gpu_communication_bound"), z3.StringVal("gpu_compute_bound"))))))
    mv = {"type": typ, "stream": stream}
    vcs = [core.VC(f"{name}.class_table", [z3.Not(name_na)], to_z3(val) == spec, "vc", fq, mv,
                   note="delay edges get their overhead class whatever they are attributed to; dependencies ''; host thread cpu_bound; communication kernel gpu_communication_bound; else gpu_compute_bound")]
    for pv in ex.vcs:
        # the assert (name not NA) is an obligation only for span edges, which always have an attributed event (C10.attribute_edge)
        vcs.append(core.VC(pv.name, pv.hyps + [z3.Not(name_na)], pv.goal, "vc", fq, mv, note=pv.note))
    return vcs


def common_parent_vcs() -> List[core.VC]:
    """The helper that decides which event an end -> start edge is attributed to: the lowest event of the call stack that
    encloses both events.  Executed by PyVC over an abstract forest (parent / depth functions, ancestor-or-self relation
    ANC with its closure axioms); the `while` loop is discharged with an inductive invariant and a termination measure."""
    f = extract.get_function(CPA, "CPGraph._construct_graph_from_call_stack.common_parent")
    fq = [f.fq]
    I = z3.IntSort()
    PARENT, DEPTH = z3.Function("cs_parent", I, I), z3.Function("cs_depth", I, I)
    ANC = z3.Function("ancestor_or_self", I, I, z3.BoolSort())  # ANC(x, y): y is x or an ancestor of x
    ROOT = z3.IntVal(-1)
    x, y, c = z3.Ints("tx ty tc")
    tree = [
        PARENT(ROOT) == ROOT, DEPTH(ROOT) == -1,
        z3.ForAll([x], z3.Implies(x != ROOT, z3.And(DEPTH(PARENT(x)) == DEPTH(x) - 1, DEPTH(x) >= 0)), patterns=[PARENT(x)]),
        z3.ForAll([x], ANC(x, x), patterns=[ANC(x, x)]),
        z3.ForAll([x], ANC(x, ROOT), patterns=[ANC(x, ROOT)]),
        z3.ForAll([x, y], z3.Implies(ANC(x, y), ANC(x, PARENT(y))), patterns=[z3.MultiPattern(ANC(x, y), PARENT(y))]),
        z3.ForAll([x, y], z3.Implies(ANC(x, y), DEPTH(y) <= DEPTH(x)), patterns=[ANC(x, y)]),
        z3.ForAll([x, y], z3.Implies(z3.And(ANC(x, y), y != x), ANC(PARENT(x), y)), patterns=[z3.MultiPattern(ANC(x, y), PARENT(x))]),
        z3.ForAll([x, y], z3.Implies(z3.And(ANC(x, y), DEPTH(x) == DEPTH(y)), x == y), patterns=[ANC(x, y)]),
    ]

    class _Nodes:
        def __deepcopy__(self, memo):
            return self

        def hv_getitem(self, ex, idx, pc):
            i = to_z3(idx)
            return pyvc.Record("CallStackNode", {"parent": PARENT(i), "depth": DEPTH(i)}, frozen=True)

    ea, eb = z3.Ints("ev_a ev_b")
    pa, pb = PARENT(ea), PARENT(eb)

    def inv(env):
        a, b = to_z3(env["a"]), to_z3(env["b"])
        return z3.And(ANC(pa, a), ANC(pb, b), z3.ForAll([c], z3.Implies(z3.And(ANC(pa, c), ANC(pb, c)), z3.And(ANC(a, c), ANC(b, c))), patterns=[z3.MultiPattern(ANC(pa, c), ANC(pb, c))]))

    ex = pyvc.Exec(consts={"NULL_NODE_INDEX": -1}, name=f"{PROP}.common_parent",
                   loop_specs={0: pyvc.WhileSpec(["a", "b"], inv, variant=lambda env: DEPTH(to_z3(env["a"])) + DEPTH(to_z3(env["b"])) + 2, name="climb")})
    outs = ex.run_function(extract.stripped(f), {"ev_a": ea, "ev_b": eb, "cs_nodes": _Nodes()}, [ea != ROOT, eb != ROOT])
    vcs = [core.VC(pv.name, tree + pv.hyps, pv.goal, "vc", fq, {}, note=pv.note) for pv in ex.vcs]
    rets = [o for o in outs if o.kind == "ret"]
    if not rets or any(o.kind == "raise" for o in outs):
        raise pyvc.Unsupported("common_parent: unexpected outcomes")
    for k, o in enumerate(rets):
        hy = tree + [to_z3(cc_) for cc_ in o.pc]
        r = to_z3(o.value)
        tag = f"{PROP}.common_parent" + (f".path{k}" if len(rets) > 1 else "")
        vcs.append(core.VC(f"{tag}.encloses_both_events", hy, z3.And(ANC(pa, r), ANC(pb, r)), "vc", fq, {}, note="the result is the parent of, or an ancestor of the parent of, either event"))
        vcs.append(core.VC(f"{tag}.is_the_lowest_such_event", hy + [ANC(pa, c), ANC(pb, c)], ANC(r, c), "vc", fq, {}, note="every event enclosing both events encloses the result"))
    vcs.append(core.VC(f"{PROP}.common_parent.guard.tree_axioms_consistent", tree + [ea == 5, PARENT(ea) == 3, PARENT(3) == ROOT, eb == 7, PARENT(eb) == 3], z3.BoolVal(False), "vacuity", fq))
    return vcs


def records_vcs() -> List[core.VC]:
    f = extract.get_function(CPA, "CPGraph.get_critical_path_breakdown")
    g = extract.get_function(CPA, "CPGraph.summary")
    s1 = " ".join(ast.unparse(extract.stripped(f)).replace("'", '"').split())
    s2 = " ".join(ast.unparse(extract.stripped(g)).replace("'", '"').split())
    want1 = ['return {"event_idx": self.get_event_attribution_for_edge(e), "duration": e.weight, "type": str(e.type.value)}',
             "edge_df = pd.DataFrame.from_records((make_edge_record(e) for e in self.critical_path_edges_set))",
             'edge_events_df = pd.merge(edge_df, trace_df[["s_name", "cat", "pid", "tid", "stream", "index"]], left_on="event_idx", right_on="index", how="left")',
             'edge_events_df["bound_by"] = edge_events_df.apply(bound_by, axis=1)']
    want2 = ['summary = edf.groupby("bound_by").duration.sum() / edf.duration.sum() * 100']
    m1 = [w for w in want1 if w not in s1]
    m2 = [w for w in want2 if w not in s2]
    if m1 or m2:
        raise pyvc.Unsupported("breakdown / summary no longer match the contract's reading: " + "; ".join(m1 + m2))
    return [core.VC(f"{PROP}.breakdown.statements", [], z3.BoolVal(True), "vc", [f.fq], {}, note="one record per critical edge: (attributed event, duration = edge weight, type); left-joined with the trace by event id; bound_by per row"),
            core.VC(f"{PROP}.summary.statements", [], z3.BoolVal(True), "vc", [g.fq], {}, note="per-class sum of durations / total x 100 (shares add up to 100 by L5)")]


# ---------------------------------------------------------------------------------------------- bounded

_FINDINGS: List[Dict[str, Any]] = []


def _case(seed: int) -> Dict[str, Any]:
    import re

    from hv import cpgen, rt

    evs = cpgen.gen_cp_events(seed, n_steps=3, n_streams=1 + seed % 3, annotations=bool(seed % 2), n_threads=2 if seed % 4 == 1 else 1, frac_kernels=(seed % 4 == 2), old_nccl=(seed % 3 == 1))
    inst = 0 if seed % 2 else (0, 1)
    if seed % 3 == 1:
        for e in evs:  # communication kernels under their full templated names (return type first): the class is decided on the SHORTENED name
            if e.get("name") == "ncclKernel_AllReduce_RING_LL_Sum_float":
                # templated (return type first) on half of these traces, NCCL 2.4-2.7 naming (text between "nccl" and "Kernel") on the other half
                e["name"] = "void ncclKernel_AllReduce_RING_LL_Sum<float, 4>(ncclWork*)" if seed % 2 else "ncclAllReduceRingLLKernel_sum_f32(ncclColl)"
    fails: List[Dict[str, Any]] = []
    inp = {"seed": seed, "instance_id": inst, "events": {0: evs}}
    with rt.trace_dir({0: evs}) as d:
        try:
            ta = rt.lib(fails, "load", inp, rt.load_analysis, d)
            if seed % 3 == 1:
                # a call history: the user decoded the trace's names in full before the analysis (Trace.decode_symbol_ids(use_shorten_name=False))
                inp["decoded_before_the_analysis"] = "decode_symbol_ids(use_shorten_name=False)"
                ta.t.decode_symbol_ids(use_shorten_name=False)
            g, success = rt.lib(fails, "critical_path_analysis", inp, ta.critical_path_analysis, rank=0, annotation="ProfilerStep", instance_id=inst, _allow=(AssertionError,))
            if not success:
                return {"n_checks": 0, "fails": [], "nontrivial": False}
            if seed % 3 == 0:
                # a second graph of the same session (another window), analysed AFTER this one and asked for its tables BEFORE this one:
                # the tables of a graph are a function of that graph, whatever other graphs are alive
                inp["another_graph_analysed_and_inspected_first"] = {"instance_id": 1}
                try:
                    g2, ok2 = ta.critical_path_analysis(rank=0, annotation="ProfilerStep", instance_id=1)
                    if ok2:
                        g2.get_critical_path_breakdown()
                        g2.summary()
                except Exception:  # noqa: BLE001  (the other window is judged by its own case)
                    pass
            bd = rt.lib(fails, "get_critical_path_breakdown", inp, g.get_critical_path_breakdown)
            summ = rt.lib(fails, "summary", inp, g.summary)
        except rt.LibFailure:
            return {"n_checks": 1, "fails": fails, "nontrivial": True}
        except AssertionError:
            return {"n_checks": 0, "fails": [], "nontrivial": False, "sample": {"seed": seed, "skipped": "degenerate window (see C08)"}}
        facts = cc.graph_facts(g)
        nodes, edges = facts["nodes"], facts["edges"]
        emap = {(e["u"], e["v"]): e for e in edges}
        path = [int(x) for x in g.critical_path_nodes]
        pw = sum(emap[(a, b)]["w"] for a, b in zip(path, path[1:]))
        df = g.trace_df
        stab = ta.t.symbol_table.get_sym_table()
        def num(x):
            return int(x) if float(x) == int(x) else float(x)

        ev = {int(i): dict(ts=num(ts), dur=num(du), stream=int(s), tid=int(tid), pid=int(pid), name=stab[int(nm)] if not isinstance(nm, str) else nm, cat=c)
              for i, ts, du, s, tid, pid, nm, c in zip(df["index"], df["ts"], df["dur"], df["stream"], df["tid"], df["pid"], df["name"], df["cat"])}
        full = ta.t.get_trace(0)
        fev = {int(i): dict(ts=num(ts), dur=num(du), stream=int(s), tid=int(tid), pid=int(pid)) for i, ts, du, s, tid, pid in zip(full["index"], full["ts"], full["dur"], full["stream"], full["tid"], full["pid"])}

        def bad(what, obs, exp=None, known=None):
            rec = {"what": what, "input": inp, "observed": obs, "expected": exp}
            if known:
                rec["known"] = known
            fails.append(rec)

        if len(bd) != len(path) - 1:
            bad("one_row_per_critical_edge", len(bd), len(path) - 1)
        if float(bd["duration"].sum()) != float(pw):
            bad("durations_sum_to_path_weight", float(bd["duration"].sum()), float(pw))
        crit = {(int(e.begin), int(e.end)): e for e in g.critical_path_edges_set}
        for (u, v), e in crit.items():
            s, dd = nodes[u], nodes[v]
            attr = g.get_event_attribution_for_edge(e)
            if e.type.name == "KERNEL_KERNEL_DELAY":
                if attr != s["ev"]:
                    bad("kernel_delay_attributed_to_preceding_kernel", {"edge": (u, v), "attributed": attr}, s["ev"])
            elif e.type.name == "OPERATOR_KERNEL":
                if attr is None or int(attr) not in fev:
                    bad("span_edge_attributed_to_existing_event", {"edge": (u, v), "attributed": attr})
                    continue
                a = fev[int(attr)]
                se = fev[s["ev"]]
                same = (a["stream"] == se["stream"] and (a["stream"] > 0 or (a["tid"], a["pid"]) == (se["tid"], se["pid"])))
                covers = a["ts"] <= s["ts"] and dd["ts"] <= a["ts"] + a["dur"]
                if not same or not covers:
                    kf = [f for f in _FINDINGS if f.get("id") == KNOWN_D17 and f.get("status") == "known"]
                    is_cls = (not s["is_start"]) and dd["is_start"] and int(attr) not in {n_["ev"] for n_ in nodes.values()}
                    bad("span_edge_attributed_event_covers_edge_on_same_thread", {"edge": (u, v), "src": s, "dest": dd, "attributed": int(attr), "attributed_span": (a["ts"], a["ts"] + a["dur"])},
                        "an event of the same thread/stream whose span contains [src.ts, dest.ts]", known=kf[0] if (kf and is_cls) else None)
        # bound_by per row; the kernel's name is the FILE's (row id = position in the file), shortened as the library documents it
        from hta.utils.utils import shorten_name
        from hv import gen as _gen

        file_name = {i: e["name"] for i, e in _gen.complete_events(evs)}

        def _short_file_name(row):
            try:
                return shorten_name(file_name[int(float(row["event_idx"]))])
            except (KeyError, TypeError, ValueError):
                return str(row["s_name"])

        for _, row in bd.iterrows():
            t = row["type"]
            if t == "critical_path_kernel_kernel_delay":
                exp = "gpu_kernel_kernel_overhead"
            elif t == "critical_path_kernel_launch_delay":
                exp = "gpu_kernel_launch_overhead"
            elif t in ("critical_path_dependency", "critical_path_sync_dependency"):
                exp = ""
            elif row["stream"] < 0:
                exp = "cpu_bound"
            elif re.match(r"^nccl.*Kernel", _short_file_name(row)):
                exp = "gpu_communication_bound"
            else:
                exp = "gpu_compute_bound"
            if row["bound_by"] != exp:
                bad("bound_by_class", {"type": t, "stream": row["stream"], "s_name": row["s_name"], "bound_by": row["bound_by"]}, exp)
                break
        tot = float(bd["duration"].sum())
        if tot > 0:
            if abs(float(summ.sum()) - 100.0) > 1e-6:
                bad("summary_adds_up_to_100", float(summ.sum()), 100.0)
            for cls_, v in summ.items():
                e_ = 100.0 * float(bd[bd["bound_by"] == cls_]["duration"].sum()) / tot
                if abs(float(v) - e_) > 1e-6:
                    bad("summary_is_class_share", {cls_: float(v)}, e_)
    return {"n_checks": 1, "fails": fails, "nontrivial": True, "sample": {"seed": seed}}


def bounded(ctx):
    from hv import rt

    _FINDINGS[:] = ctx.findings
    n = 48 if not ctx.thorough else 600
    res = rt.pmap(_case, [ctx.seed * 89 + i for i in range(n)], ctx.procs)
    return rt.summarise(res, f"{PROP}.bounded", f"{n} successful analyses of generated causally consistent traces (with and without user annotations nested between operators)")


def units(ctx):
    return [core.Unit(f"{PROP}.attribute_edge", attribute_vcs, [CPA + ".CPGraph._attribute_edge"]), core.Unit(f"{PROP}.bound_by", bound_by_vcs, [CPA + ".bound_by"]),
            core.Unit(f"{PROP}.common_parent", common_parent_vcs, [CPA + ".CPGraph._construct_graph_from_call_stack.common_parent"]),
            core.Unit(f"{PROP}.records", records_vcs, [CPA + ".CPGraph.get_critical_path_breakdown", CPA + ".CPGraph.summary"])]


SPEC = Spec(
    lean=['Folds.lean'],
    prop=PROP, level="other",
    functions=[(CPA, "CPGraph._attribute_edge"), (CPA, "CPGraph._construct_graph_from_call_stack.common_parent"), (CPA, "bound_by"), (CPA, "CPGraph.get_critical_path_breakdown"), (CPA, "CPGraph.summary")],
    units=units, bounded=[Bounded("breakdown_vs_graph", bounded), Bounded("history_independence", history.stage(PROP, "critical_path", "cp"))],
    trusted=["is_comm_kernel is an uninterpreted predicate of the name", "the DFS state invariant last_ev_parent = parent(owner of last_node) (needed for 'covers' in case 4) is bounded only"],
    explanation="Proved (z3 from the AST): the attribution table and the bound-by table. Statement correspondence: record construction, join and summary. Bounded: row count, "
                "conservation, existence / thread / coverage of attributed events, classes and shares on real analyses.",
)
