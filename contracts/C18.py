"""C18 — trace filters are pure row selections with the documented predicates.

Deductive: every filter's __call__ is executed symbolically (PyVC + FrameVC) from the AST in /repo against a symbolic
event frame; for a skolem row r:  kept(r) <=> present_in(r) and P(r);  contents, labels, order tag unchanged; input not
written.  Composite = sequential application; algebra lemmas for row-local predicates.
Bounded: the real filter classes on generated frames (encoded and decoded), including IterationIndexFilter,
constructors, purity (deep comparison with a copy of the input), commutation and idempotence.
"""
from __future__ import annotations

import ast
import random
from typing import Any, Callable, Dict, List, Optional

import z3

from hv import core, extract, framevc as fv, pyvc
from hv.driver import Bounded, Spec
from hv.pyvc import to_z3, z_and, z_not, z_or

TF = "hta.common.trace_filter"
UT = "hta.utils.utils"
PROP = "C18"

ENC_COLS = {
    "index": (z3.IntSort(), False, "int"), "iteration": (z3.IntSort(), False, "int"), "rank": (z3.IntSort(), False, "int"),
    "ts": (z3.IntSort(), False, "int"), "dur": (z3.IntSort(), False, "int"), "stream": (z3.IntSort(), False, "int"),
    "correlation": (z3.IntSort(), False, "int"), "name": (z3.IntSort(), False, "int"), "cat": (z3.IntSort(), False, "int"),
}
DEC_COLS = dict(ENC_COLS)
DEC_COLS["name"] = (z3.StringSort(), False, "str")
DEC_COLS["cat"] = (z3.StringSort(), False, "str")
SNAME_COLS = dict(ENC_COLS)
SNAME_COLS["s_name"] = (z3.StringSort(), False, "str")
SNAME_COLS["s_cat"] = (z3.StringSort(), False, "str")


def _classes(ex: pyvc.Exec) -> None:
    _, tree = extract.load_module(TF)
    for st in tree.body:
        if isinstance(st, ast.ClassDef):
            node = extract._Stripper().generic_visit(__import__("copy").deepcopy(st))
            ex.classes[st.name] = pyvc.ClassModel(st.name, node)


def _mk_exec(name: str) -> pyvc.Exec:
    ex = pyvc.Exec(consts=extract.module_constants(TF), name=name)
    fv.install(ex)
    fv.install_symtab(ex)
    _classes(ex)
    # module-level helper functions used by the filters
    f_dev = extract.stripped(extract.get_function(TF, "_filter_gpu_kernels_with_cuda_sync"))
    ex.intrinsics["_filter_gpu_kernels_with_cuda_sync"] = pyvc.inline_function(f_dev)
    f_cols = extract.stripped(extract.get_function(UT, "get_symbol_column_names"))
    ex.intrinsics["get_symbol_column_names"] = pyvc.inline_function(f_cols)
    ex.consts["TraceSymbolTable"] = _EmptySymTabCtor()
    ex.consts["ZeroDurationFilter"] = None

    @pyvc.intrinsic
    def _isinstance(exq, pc, env, args, kwargs):
        raise pyvc.Unsupported("isinstance")

    return ex


class _EmptySymTabCtor:
    """TraceSymbolTable(): an empty table."""

    _hv_intrinsic = True

    def __call__(self, ex, pc, env, args, kwargs):
        st = fv.SymTab("empty_st")
        ex.facts.append(st.n == 0)
        s = z3.String("any_s")
        ex.facts.append(z3.ForAll([s], z3.Not(st.has(s))))
        return st

    def __deepcopy__(self, memo):
        return self


def _selection_vcs(name: str, fq: List[str], ex: pyvc.Exec, df_in: fv.SymDF, outs: List[pyvc.Outcome], P: Callable, extra_hyps: List[Any],
                   in_cols_before: Dict[str, fv.Col], st: Optional[fv.SymTab] = None, pre: Optional[List[Any]] = None) -> List[core.VC]:
    vcs: List[core.VC] = []
    r = df_in.uni.skolem("r")
    mv = {"row": r[0]}
    for c in ("iteration", "rank", "ts", "dur", "stream", "correlation"):
        if c in in_cols_before:
            mv[c] = to_z3(in_cols_before[c].val(r))
    for o in outs:
        if o.kind == "raise":
            vcs.append(core.VC(f"{name}.noraise", [to_z3(c) for c in o.pc] + (pre or []), z3.BoolVal(False), "vc", fq, mv, note=f"raises {o.exc}"))
    for pcond, exc, where in ex.raised:
        vcs.append(core.VC(f"{name}.noraise_inner", [to_z3(c) for c in pcond] + (pre or []), z3.BoolVal(False), "vc", fq, mv, note=f"{where} raises {exc}"))
    for pv in ex.vcs:
        vcs.append(core.VC(pv.name, pv.hyps + list(ex.facts) + extra_hyps + (pre or []), pv.goal, "vc", fq, mv, note=pv.note))
    rets = [o for o in outs if o.kind == "ret"]
    if not rets:
        raise pyvc.Unsupported("filter never returns")
    for i, o in enumerate(rets):
        out = o.value
        if len(rets) > 1:
            vcs.append(core.VC(f"{name}.path{i}.guard.reachable", [to_z3(c) for c in o.pc] + list(ex.facts) + extra_hyps,
                               z3.BoolVal(False), "vacuity", fq, note="the path condition, the assumed contracts and the preconditions are jointly satisfiable"))
        if not isinstance(out, fv.SymDF):
            raise pyvc.Unsupported(f"filter returns {type(out).__name__}")
        hyps = [to_z3(c) for c in o.pc] + list(ex.facts) + extra_hyps + (pre or [])
        if st is not None:
            hyps += st.axioms()
        tag = f"{name}.path{i}" if len(rets) > 1 else name
        if out.uni is not df_in.uni:
            if getattr(out, "is_empty_ctor", False):
                # an empty pd.DataFrame() is accepted as "no rows" exactly when no input row satisfies the predicate
                vcs.append(core.VC(f"{tag}.sel.empty_result_only_if_nothing_matches", hyps, z3.Not(to_z3(z_and(df_in.present(r), P(r)))), "vc", fq, mv,
                                   note="pd.DataFrame() returned: no input row may satisfy the predicate (the result has no columns; recorded in evidence)"))
            else:
                vcs.append(core.VC(f"{tag}.sel.sound_complete", hyps, z3.BoolVal(False), "vc", fq, mv, note="result is not a sub-frame of the input"))
            continue
        kept = to_z3(out.present(r))
        spec = to_z3(z_and(df_in.present(r), P(r)))
        vcs.append(core.VC(f"{tag}.sel.sound", hyps + [kept], spec, "vc", fq, mv, note="every returned row satisfies the documented predicate"))
        vcs.append(core.VC(f"{tag}.sel.complete", hyps + [spec], kept, "vc", fq, mv, note="every input row satisfying the predicate is returned"))
        same_cols = list(out.cols) == list(in_cols_before) and all(out.cols[c] is in_cols_before[c] for c in out.cols)
        if same_cols:
            content = z3.BoolVal(True)
        elif list(out.cols) != list(in_cols_before):
            content = z3.BoolVal(False)
        else:
            content = z3.And(*[z3.And(to_z3(out.cols[c].val(r)) == to_z3(in_cols_before[c].val(r)),
                                      to_z3(out.cols[c].isnull(r)) == to_z3(in_cols_before[c].isnull(r))) for c in out.cols])
        vcs.append(core.VC(f"{tag}.content", hyps + [kept], content, "vc", fq, mv, note="row contents (all columns) unchanged"))
        vcs.append(core.VC(f"{tag}.ids_and_order", hyps, z3.BoolVal(out.label is df_in.label and out.order == df_in.order), "vc", fq, mv,
                           note="row labels and row order are those of the input (no re-indexing, no sort)"))
        vcs.append(core.VC(f"{tag}.pure", hyps, z3.BoolVal(not df_in.written and df_in.inplace_row_changes == 0 and
                                                            list(df_in.cols) == list(in_cols_before) and all(df_in.cols[c] is in_cols_before[c] for c in df_in.cols)),
                           "vc", fq, mv, note="the input frame is not modified"))
    vcs.append(core.VC(f"{name}.guard.canary_false", [to_z3(df_in.present(r))] + (pre or []), z3.BoolVal(False), "canary", fq))
    return vcs


def _run_call(ex: pyvc.Exec, cls: str, self_fields: Dict[str, Any], df: fv.SymDF, symtab) -> List[pyvc.Outcome]:
    cm = ex.classes[cls]
    fn = cm.find(ex, "__call__")
    obj = pyvc.Record(cls, self_fields)
    return ex.run_function(fn, {"self": obj, "df": df, "symbol_table": symtab}, [])


def filter_unit(cls: str, variant: str) -> List[core.VC]:
    name = f"{PROP}.{cls}" + (f".{variant}" if variant else "")
    fq = [f"{TF}.{cls}.__call__"]
    ex = _mk_exec(name)
    extra: List[Any] = []
    st = None
    pre: List[Any] = []
    if cls in ("IterationFilter", "RankFilter"):
        col = "iteration" if cls == "IterationFilter" else "rank"
        attr = "iterations" if cls == "IterationFilter" else "ranks"
        df = fv.SymDF.base("ev", ENC_COLS)
        if variant == "missing_column":
            df = fv.SymDF.base("ev", {c: v for c, v in ENC_COLS.items() if c != col})
        before = dict(df.cols)
        members = pyvc.SymSet(z3.IntSort(), "members")
        outs = _run_call(ex, cls, {attr: members}, df, None)
        P = (lambda r: True) if variant == "missing_column" else (lambda r: members.has(df.cols[col].val(r)))
        return _selection_vcs(name, fq, ex, df, outs, P, extra, before)
    if cls == "IterationIndexFilter":
        df = fv.SymDF.base("ev", ENC_COLS)
        if variant == "missing_column":
            df = fv.SymDF.base("ev", {c: v for c, v in ENC_COLS.items() if c != "iteration"})
        before = dict(df.cols)
        positions = pyvc.SymSet(z3.IntSort(), "selected_positions")
        outs = _run_call(ex, cls, {"iteration_index": positions}, df, None)
        if variant == "missing_column":
            return _selection_vcs(name, fq, ex, df, outs, lambda r: True, extra, before)
        it = df.cols["iteration"]
        # ghost: THE ascending enumeration of the iteration values present (same functional contract the code's sorted(unique()) gets)
        en = fv.sorted_unique(ex, fv.SymSeries(df.uni, it, df.present, "iteration"))
        w = df.uni.skolem("w")
        has_m1 = z3.Exists(list(w), to_z3(z_and(df.present(w), to_z3(it.val(w)) == -1)))
        any_real = z3.Exists(list(w), to_z3(z_and(df.present(w), to_z3(it.val(w)) != -1)))
        q = df.uni.skolem("q")
        extra.append(z3.ForAll(list(q), z3.Implies(to_z3(df.present(q)), to_z3(it.val(q)) >= -1)))  # add_iteration: -1 or a ProfilerStep number >= 0
        nonempty = z3.Exists(list(w), to_z3(df.present(w)))
        if variant == "nonempty":
            extra.append(nonempty)

        def P(r):
            v = to_z3(it.val(r))
            return z3.Or(z3.Not(any_real), z3.And(v != -1, positions.has(en.pos(v) - z3.If(has_m1, 1, 0))))

        return _selection_vcs(name, fq, ex, df, outs, P, extra, before)
    if cls == "TimeRangeFilter":
        df = fv.SymDF.base("ev", ENC_COLS)
        before = dict(df.cols)
        a, b = z3.Ints("time_start time_end")
        outs = _run_call(ex, cls, {"time_start": a, "time_end": b}, df, None)
        P = lambda r: z3.And(df.cols["ts"].val(r) >= a, df.cols["ts"].val(r) + df.cols["dur"].val(r) <= b)
        return _selection_vcs(name, fq, ex, df, outs, P, extra, before)
    if cls in ("GPUKernelFilter", "CPUOperatorFilter"):
        df = fv.SymDF.base("ev", ENC_COLS)
        before = dict(df.cols)
        fq = fq + [f"{TF}._filter_gpu_kernels_with_cuda_sync"]
        r = df.uni.skolem("r")
        if variant == "with_symbol_table":
            st = fv.SymTab("st")
            outs = _run_call(ex, cls, {}, df, st)
            st.used_ids.append(to_z3(df.cols["name"].val(r)))
            pre = [st.valid(df.cols["name"].val(r))]  # names of an encoded frame are ids of the table
            def dev(rr):
                nm = st.sym(df.cols["name"].val(rr))
                return z3.Or(z3.And(df.cols["stream"].val(rr) >= 0, df.cols["correlation"].val(rr) >= 0),
                             nm == z3.StringVal("Event Sync"), nm == z3.StringVal("Context Sync"))
            P = dev if cls == "GPUKernelFilter" else (lambda rr: z3.Not(dev(rr)))
        else:
            outs = _run_call(ex, cls, {}, df, None)
            if cls == "GPUKernelFilter":
                P = lambda rr: z3.And(df.cols["stream"].val(rr) >= 0, df.cols["correlation"].val(rr) >= 0)
            else:
                P = lambda rr: df.cols["stream"].val(rr) == -1
        return _selection_vcs(name, fq, ex, df, outs, P, extra, before, st, pre)
    if cls == "NameFilter":
        pat = z3.String("pattern")
        fq = fq + [f"{TF}.NameStringColumnFilter.__call__", f"{TF}.NameIdColumnFilter.__call__", f"{UT}.get_symbol_column_names"]
        match = lambda s: fv.str_pred("match", pat)(s)
        if variant == "encoded_with_symbol_table":
            df = fv.SymDF.base("ev", ENC_COLS)
            before = dict(df.cols)
            st = fv.SymTab("st")
            r = df.uni.skolem("r")
            outs = _run_call(ex, cls, {"name_pattern": pat, "symbol_table": None, "name_column": None}, df, st)
            st.used_ids.append(to_z3(df.cols["name"].val(r)))
            pre = [st.valid(df.cols["name"].val(r))]
            P = lambda rr: match(st.sym(df.cols["name"].val(rr)))
        elif variant == "encoded_table_in_constructor":
            df = fv.SymDF.base("ev", ENC_COLS)
            before = dict(df.cols)
            st = fv.SymTab("st")
            r = df.uni.skolem("r")
            outs = _run_call(ex, cls, {"name_pattern": pat, "symbol_table": st, "name_column": None}, df, None)
            st.used_ids.append(to_z3(df.cols["name"].val(r)))
            pre = [st.valid(df.cols["name"].val(r))]
            P = lambda rr: match(st.sym(df.cols["name"].val(rr)))
        elif variant == "decoded_name_column":
            df = fv.SymDF.base("ev", DEC_COLS)
            before = dict(df.cols)
            outs = _run_call(ex, cls, {"name_pattern": pat, "symbol_table": None, "name_column": None}, df, None)
            P = lambda rr: match(df.cols["name"].val(rr))
        else:  # decoded strings in s_name next to the encoded name column
            df = fv.SymDF.base("ev", SNAME_COLS)
            before = dict(df.cols)
            outs = _run_call(ex, cls, {"name_pattern": pat, "symbol_table": None, "name_column": None}, df, None)
            P = lambda rr: match(df.cols["s_name"].val(rr))
        return _selection_vcs(name, fq, ex, df, outs, P, extra, before, st, pre)
    if cls == "MemCopyEventFilter":
        df = fv.SymDF.base("ev", ENC_COLS)
        before = dict(df.cols)
        st = fv.SymTab("st")
        typ = z3.String("memory_copy_type")
        r = df.uni.skolem("r")
        # the category symbol is known whenever a copy type is (both come from the same gpu_memcpy events)
        ex.facts.append(z3.Implies(st.has(typ), st.has(z3.StringVal("gpu_memcpy"))))
        outs = _run_call(ex, cls, {"memory_copy_type": typ, "symbol_table": None}, df, st)
        st.used_ids += [to_z3(df.cols["name"].val(r)), to_z3(df.cols["cat"].val(r))]
        pre = [st.valid(df.cols["name"].val(r)), st.valid(df.cols["cat"].val(r))]
        P = lambda rr: z3.And(st.sym(df.cols["name"].val(rr)) == typ, st.sym(df.cols["cat"].val(rr)) == z3.StringVal("gpu_memcpy"))
        return _selection_vcs(name, fq, ex, df, outs, P, extra, before, st, pre)
    if cls == "QueryFilter":
        df = fv.SymDF.base("ev", ENC_COLS)
        before = dict(df.cols)
        # the one instance the library defines: ZeroDurationFilter = QueryFilter("dur > 0")
        _, tree = extract.load_module(TF)
        q = None
        for stt in tree.body:
            if isinstance(stt, ast.Assign) and isinstance(stt.targets[0], ast.Name) and stt.targets[0].id == "ZeroDurationFilter":
                q = ast.literal_eval(stt.value.args[0])
        if q is None:
            raise pyvc.Unsupported("ZeroDurationFilter definition not found")
        outs = _run_call(ex, cls, {"filter_query": q}, df, None)
        P = lambda rr: df.cols["dur"].val(rr) > 0
        return _selection_vcs(name, fq, ex, df, outs, P, extra, before)
    raise pyvc.Unsupported(cls)


def composite_unit() -> List[core.VC]:
    """CompositeFilter([TimeRangeFilter, IterationFilter, GPUKernelFilter]) == sequential application == intersection, any order."""
    name = f"{PROP}.CompositeFilter"
    fq = [f"{TF}.CompositeFilter.__call__"]
    vcs: List[core.VC] = []
    results = {}
    for order in ((0, 1, 2), (2, 0, 1), (1, 1, 0)):
        ex = _mk_exec(name)
        df = fv.SymDF.base("ev", ENC_COLS)
        a, b = z3.Ints("time_start time_end")
        members = pyvc.SymSet(z3.IntSort(), "members")
        fs = [pyvc.Record("TimeRangeFilter", {"time_start": a, "time_end": b}), pyvc.Record("IterationFilter", {"iterations": members}),
              pyvc.Record("GPUKernelFilter", {})]
        chosen = [fs[i] for i in order]
        outs = _run_call(ex, "CompositeFilter", {"filters": chosen}, df, None)
        preds = [lambda r: z3.And(df.cols["ts"].val(r) >= a, df.cols["ts"].val(r) + df.cols["dur"].val(r) <= b),
                 lambda r: members.has(df.cols["iteration"].val(r)),
                 lambda r: z3.And(df.cols["stream"].val(r) >= 0, df.cols["correlation"].val(r) >= 0)]
        P = lambda r, _o=order: z3.And(*[preds[i](r) for i in _o])
        vs = _selection_vcs(f"{name}.order_{''.join(map(str, order))}", fq, ex, df, outs, P, [], dict(df.cols))
        vcs.extend(vs)
    return vcs


# ---------------------------------------------------------------------------------------------- bounded stage


def _frames(seed: int):
    import pandas as pd

    rng = random.Random(seed)
    n = rng.randint(0, 14)
    names = ["aten::mm", "aten::add", "cudaLaunchKernel", "Event Sync", "Context Sync", "Memcpy DtoH (Device -> Pinned)", "void kernel_a", "ProfilerStep#3",
             "Event Sync wait (dataloader)", "Context Sync barrier", "my_lib::Context Sync"]  # names that merely contain / begin with a device-level sync name are ordinary names
    cats = ["cpu_op", "cuda_runtime", "kernel", "gpu_memcpy", "cuda_sync", "user_annotation"]
    rows = []
    for i in range(n):
        stream = rng.choice([-1, -1, -1, 0, 7, 20])
        rows.append({
            "index": 100 + 3 * i if seed % 2 else i, "iteration": rng.choice([-1, -1, 3, 4, 7]), "rank": rng.choice([0, 1, 5]),
            "ts": rng.randint(0, 50), "dur": rng.choice([0, 0, 1, 5, 10, 40]), "stream": stream,
            "correlation": rng.choice([-1, 0, 5, 9]) if stream >= 0 or rng.random() < 0.4 else -1,
            "name": rng.choice(names), "cat": rng.choice(cats),
        })
    cols = ["index", "iteration", "rank", "ts", "dur", "stream", "correlation", "name", "cat"]
    df = pd.DataFrame(rows, columns=cols)
    if n:
        df = df.astype({c: "int64" for c in cols if c not in ("name", "cat")})
        if seed % 4 == 2:
            df = df.astype({"iteration": "int8", "rank": "int8"})  # the loader stores small step numbers / ranks in one byte: requested values beyond that range select nothing
        if seed % 5 == 3:
            df["end"] = (df["ts"] + df["dur"] + [(-7, 0, 9)[k % 3] for k in range(len(df))]).astype("int64")  # a column called `end` that is NOT ts + dur (re-based ts, other meaning): not part of any predicate
            cols = cols + ["end"]
        if seed % 3 == 0:
            df = df.sample(frac=1.0, random_state=seed)  # labels no longer sorted
        df = df.set_index("index", drop=False)
        df.index.names = [None]
    return df, names, cats


def _bounded_case(seed: int) -> Dict[str, Any]:
    import re

    import pandas as pd
    from hta.common import trace_filter as tf
    from hta.common.trace_symbol_table import TraceSymbolTable

    rng = random.Random(seed * 7 + 1)
    dec, names, cats = _frames(seed)
    st = TraceSymbolTable()
    syms = list(names) + list(cats)
    rng.shuffle(syms)
    st.add_symbols(syms if seed % 4 else [s for s in syms if s not in ("Event Sync",)])
    fails: List[Dict[str, Any]] = []
    clauses: Dict[str, int] = {}
    enc = dec.copy()
    ok_encode = all(s in st.sym_index for s in set(dec["name"]) | set(dec["cat"])) if len(dec) else True
    if not ok_encode:
        st.add_symbols(syms)
    if len(enc):
        enc["name"] = enc["name"].map(st.sym_index).astype("int64")
        enc["cat"] = enc["cat"].map(st.sym_index).astype("int64")
    else:
        enc = enc.astype({"name": "int64", "cat": "int64"})

    def check(label: str, flt, frame: pd.DataFrame, table, pred: Callable[[Any], bool], dec_frame: pd.DataFrame):
        clauses[label] = clauses.get(label, 0) + 1
        before = frame.copy(deep=True)
        try:
            out = flt(frame, table) if table is not None else flt(frame)
        except Exception as e:
            fails.append({"what": f"{label}.noraise", "input": {"seed": seed, "frame": frame.to_dict("records")}, "observed": f"{type(e).__name__}: {e}"})
            return None
        if not frame.equals(before) or list(frame.columns) != list(before.columns) or not frame.index.equals(before.index):
            fails.append({"what": f"{label}.pure", "input": {"seed": seed, "frame": before.to_dict("records")}, "observed": "input frame modified"})
        exp_labels = [lab for lab, (_, row) in zip(dec_frame.index, dec_frame.iterrows()) if pred(row)]
        got_labels = list(out.index)
        if got_labels != exp_labels:
            if not (len(out.columns) == 0 and not exp_labels):
                fails.append({"what": f"{label}.selection", "input": {"seed": seed, "frame": before.to_dict("records")},
                              "observed": {"kept_labels": got_labels}, "expected": {"kept_labels": exp_labels}})
                return out
        if len(out.columns):
            exp = before.loc[exp_labels]
            if list(out.columns) != list(before.columns) or not out.equals(exp):
                fails.append({"what": f"{label}.content", "input": {"seed": seed, "frame": before.to_dict("records")}, "observed": out.to_dict("records")[:5]})
        return out

    its = rng.choice([[3], [4, 7], [-1], [3, 99], [], [259], [255, 260]])  # 259 = 3 + 256, 255 = -1 + 256, 260 = 4 + 256
    check("IterationFilter", tf.IterationFilter(its), enc, None, lambda r: r["iteration"] in its, dec)
    rk = rng.choice([[0], [1, 5], 5, [2], [261], [256, 257]])  # 261 = 5 + 256, 256 = 0 + 256, 257 = 1 + 256
    rkl = [rk] if isinstance(rk, int) else rk
    check("RankFilter", tf.RankFilter(rk), enc, None, lambda r: r["rank"] in rkl, dec)
    a = rng.randint(0, 30)
    b = a + rng.randint(0, 40)
    check("TimeRangeFilter", tf.TimeRangeFilter((a, b)), enc, None, lambda r: r["ts"] >= a and r["ts"] + r["dur"] <= b, dec)
    if len(dec):
        # boundaries taken from the data (events that start exactly at the range end, zero-duration events on a boundary), on the
        # frame as drawn and on the same frame sorted by start time (as the analyses usually hold it)
        tss = sorted(set(int(x) for x in dec["ts"]))
        a2 = rng.choice(tss)
        b2 = rng.choice([t for t in tss if t >= a2] + [max(int(x + d) for x, d in zip(dec["ts"], dec["dur"]))])
        b2 = max(a2, b2)
        in2 = lambda r: r["ts"] >= a2 and r["ts"] + r["dur"] <= b2
        check("TimeRangeFilter.data_boundaries", tf.TimeRangeFilter((a2, b2)), enc, None, in2, dec)
        enc_s, dec_s = enc.sort_values("ts", kind="stable"), dec.sort_values("ts", kind="stable")
        check("TimeRangeFilter.sorted_by_start", tf.TimeRangeFilter((a2, b2)), enc_s, None, in2, dec_s)
        check("TimeRangeFilter.sorted_by_start.drawn_range", tf.TimeRangeFilter((a, b)), enc_s, None, lambda r: r["ts"] >= a and r["ts"] + r["dur"] <= b, dec_s)
    dev = lambda r: (r["stream"] >= 0 and r["correlation"] >= 0) or r["name"] in ("Event Sync", "Context Sync")
    check("GPUKernelFilter.st", tf.GPUKernelFilter(), enc, st, dev, dec)
    check("CPUOperatorFilter.st", tf.CPUOperatorFilter(), enc, st, lambda r: not dev(r), dec)
    check("GPUKernelFilter.nost", tf.GPUKernelFilter(), enc, None, lambda r: r["stream"] >= 0 and r["correlation"] >= 0, dec)
    check("CPUOperatorFilter.nost", tf.CPUOperatorFilter(), enc, None, lambda r: r["stream"] == -1, dec)
    pat = rng.choice(["aten::.*", "Memcpy", ".*Sync", "cudaLaunch", "void", "ProfilerStep#\\d+", "nomatch"])
    mt = lambda r: re.match(pat, r["name"]) is not None
    check("NameFilter.encoded", tf.NameFilter(pat), enc, st, mt, dec)
    if len(dec):
        # ONE filter object applied to frames encoded with two different symbol tables of the same size (two traces in one session):
        # the selection depends on the table passed with the call, not on an earlier call
        st2 = TraceSymbolTable()
        st2.add_symbols(list(reversed(st.get_sym_table())))
        enc2 = dec.copy()
        enc2["name"] = enc2["name"].map(st2.sym_index).astype("int64")
        enc2["cat"] = enc2["cat"].map(st2.sym_index).astype("int64")
        reused = tf.NameFilter(pat)
        check("NameFilter.reused_object.first_table", reused, enc, st, mt, dec)
        check("NameFilter.reused_object.second_table", reused, enc2, st2, mt, dec)
        comp_reused = tf.CompositeFilter([tf.NameFilter(pat), tf.RankFilter(rkl)])
        check("Composite.reused_object.first_table", comp_reused, enc, st, lambda r: mt(r) and r["rank"] in rkl, dec)
        check("Composite.reused_object.second_table", comp_reused, enc2, st2, lambda r: mt(r) and r["rank"] in rkl, dec)
    check("NameFilter.encoded_ctor", tf.NameFilter(pat, symbol_table=st), enc, None, mt, dec)
    if len(dec):
        # an encoded frame that ALSO carries the shortened display names (Trace.decode_symbol_ids(use_shorten_name=True) adds `s_name`):
        # with a symbol table the pattern is matched against the full decoded name, not against the display name
        short = enc.copy()
        short["s_name"] = [re.sub(r"[<(].*$", "", n).replace("void ", "").strip() or "x" for n in dec["name"]]
        check("NameFilter.encoded_with_display_names", tf.NameFilter(pat), short, st, mt, dec.assign(s_name=short["s_name"]))
        check("NameFilter.encoded_with_display_names.ctor", tf.NameFilter(pat, symbol_table=st), short, None, mt, dec.assign(s_name=short["s_name"]))
    if len(dec):
        check("NameFilter.decoded", tf.NameFilter(pat), dec, None, mt, dec)
        both = enc.copy()
        both["s_name"] = dec["name"]
        both["s_cat"] = dec["cat"]
        check("NameFilter.s_name", tf.NameFilter(pat), both, None, mt, dec)
    mtype = rng.choice(["Memcpy DtoH (Device -> Pinned)", "Memcpy HtoD (Pageable -> Device)"])
    check("MemCopyEventFilter", tf.MemCopyEventFilter(mtype), enc, st, lambda r: r["name"] == mtype and r["cat"] == "gpu_memcpy", dec)
    check("ZeroDurationFilter", tf.ZeroDurationFilter, enc, None, lambda r: r["dur"] > 0, dec)
    # IterationIndexFilter: position among the sorted iterations present, with -1 removed
    present = sorted(set(int(x) for x in dec["iteration"])) if len(dec) else []
    idx = rng.choice([[0], [1], [0, 1], [5], 0])
    idxl = [idx] if isinstance(idx, int) else idx
    if present and present != [-1]:
        pos = [p for p in present if p != -1]
        chosen = [p for i, p in enumerate(pos) if i in idxl]
        check("IterationIndexFilter", tf.IterationIndexFilter(idx), enc, None, lambda r: r["iteration"] in chosen, dec)
    else:
        # no iteration information (only -1) or no rows at all: the frame comes back unchanged
        check("IterationIndexFilter.no_iterations", tf.IterationIndexFilter(idx), enc, None, lambda r: True, dec)
    # a member of a composite may receive the empty selection of its predecessor
    check("Composite.empty_intermediate", tf.CompositeFilter([tf.RankFilter(987654), tf.FirstIterationFilter()]), enc, None, lambda r: False, dec)
    # composite = sequence = intersection, any order; idempotence
    f1, f2, f3 = tf.TimeRangeFilter((a, b)), tf.IterationFilter(its), tf.GPUKernelFilter()
    p1 = lambda r: r["ts"] >= a and r["ts"] + r["dur"] <= b
    p2 = lambda r: r["iteration"] in its
    both_p = lambda r: p1(r) and p2(r) and dev(r)
    for label, order in (("Composite.123", [f1, f2, f3]), ("Composite.312", [f3, f1, f2]), ("Composite.twice", [f2, f1, f2, f3, f1])):
        check(label, tf.CompositeFilter(order), enc, st, both_p, dec)
    # composite = its members applied in the GIVEN order, also when a member's selection depends on the rows it receives
    # (position among the iterations present): compared with the real members applied one after the other
    import functools

    crafted = pd.DataFrame({"index": list(range(8)), "iteration": [550, 551, 551, 552, 550, 551, 552, 552], "rank": [0, 0, 1, 1, 0, 0, 1, 1],
                            "ts": [10 * i for i in range(8)], "dur": [5] * 8, "stream": [-1, 7, -1, 7, -1, -1, 7, -1], "correlation": [-1, 3, -1, 4, -1, -1, 5, -1],
                            "name": [0] * 8, "cat": [0] * 8}).set_index("index", drop=False)
    crafted.index.name = None
    for frame_label, frame in (("generated", enc), ("two_ranks_shifted_iterations", crafted)):
        for label, members in (("first_iteration_then_rank", [tf.FirstIterationFilter(), tf.RankFilter(1)]), ("rank_then_first_iteration", [tf.RankFilter(1), tf.FirstIterationFilter()]),
                               ("iteration_index_then_iteration", [tf.IterationIndexFilter([0, 1]), tf.IterationFilter([551, 4, 7])]),
                               ("iteration_index_then_time_then_rank", [tf.IterationIndexFilter(1), tf.TimeRangeFilter((0, 10_000_000)), tf.RankFilter([0, 1])])):
            clauses["Composite.sequential"] = clauses.get("Composite.sequential", 0) + 1
            try:
                want = functools.reduce(lambda d_, f_: f_(d_), members, frame.copy(deep=True))
                got = tf.CompositeFilter(members)(frame.copy(deep=True))
            except Exception as e:  # noqa: BLE001
                fails.append({"what": "Composite.sequential.noraise", "input": {"seed": seed, "frame": frame_label, "members": label}, "observed": f"{type(e).__name__}: {e}"})
                continue
            if list(got.index) != list(want.index) or (len(got.columns) and len(want.columns) and not got.equals(want)):
                fails.append({"what": "Composite.equals_members_in_sequence", "input": {"seed": seed, "frame": frame_label, "members": label, "rows": frame.to_dict("records")},
                              "observed": {"kept_labels": list(got.index)}, "expected": {"kept_labels": list(want.index)}})
    # constructors
    clauses["constructors"] = clauses.get("constructors", 0) + 1
    for bad, exc in ((lambda: tf.TimeRangeFilter((5, 1)), ValueError), (lambda: tf.TimeRangeFilter([1, 5]), ValueError),
                     (lambda: tf.IterationFilter("3"), TypeError), (lambda: tf.RankFilter(1.5), TypeError), (lambda: tf.CompositeFilter([1]), TypeError)):
        try:
            bad()
            fails.append({"what": "constructor.rejects_invalid", "input": {"seed": seed}, "observed": "no exception", "expected": exc.__name__})
        except exc:
            pass
        except Exception as e:
            fails.append({"what": "constructor.rejects_invalid", "input": {"seed": seed}, "observed": type(e).__name__, "expected": exc.__name__})
    return {"n_checks": sum(clauses.values()), "fails": fails, "clauses": clauses, "nontrivial": len(dec) > 0,
            "sample": {"seed": seed, "rows": len(dec)}}


def bounded(ctx) -> Dict[str, Any]:
    from hv import rt

    n = 120 if not ctx.thorough else 1500
    seeds = [ctx.seed * 100_003 + i for i in range(n)]
    res = rt.pmap(_bounded_case, seeds, ctx.procs)
    return rt.summarise(res, f"{PROP}.bounded", f"{n} seeded random event frames (0-14 rows, encoded + decoded + s_name variants, shuffled labels), every filter class, "
                        "composites in 3 orders, invalid constructor arguments; oracle = the documented predicate evaluated row by row")


def units(ctx) -> List[core.Unit]:
    us = []
    for cls, variants in (
        ("IterationFilter", ["", "missing_column"]), ("IterationIndexFilter", ["", "missing_column"]), ("RankFilter", ["", "missing_column"]), ("TimeRangeFilter", [""]),
        ("GPUKernelFilter", ["with_symbol_table", "without_symbol_table"]), ("CPUOperatorFilter", ["with_symbol_table", "without_symbol_table"]),
        ("NameFilter", ["encoded_with_symbol_table", "encoded_table_in_constructor", "decoded_name_column", "decoded_s_name_column"]),
        ("MemCopyEventFilter", [""]), ("QueryFilter", ["zero_duration"]),
    ):
        for v in variants:
            us.append(core.Unit(f"{PROP}.{cls}.{v}", (lambda c=cls, vv=v: filter_unit(c, vv)), [f"{TF}.{cls}.__call__"]))
    us.append(core.Unit(f"{PROP}.CompositeFilter", composite_unit, [f"{TF}.CompositeFilter.__call__"]))
    return us


def replay(ctx, rec):
    name = rec.get("name", "")
    if "IterationIndexFilter" in name and ("indexerror" in name or "noraise" in name):
        # the counter-model of an IndexError obligation is a frame whose list of iterations is empty: a frame without rows
        import pandas as pd
        from hta.common import trace_filter as tf

        df = pd.DataFrame({c: pd.Series([], dtype="int64") for c in ENC_COLS})
        before = df.copy()
        try:
            out = tf.IterationIndexFilter([0])(df)
        except Exception as e:  # noqa: BLE001
            return {"confirmed": True, "input": {"frame": "no rows; columns " + ", ".join(ENC_COLS), "filter": "IterationIndexFilter([0])"}, "observed": f"{type(e).__name__}: {e}",
                    "expected": "a sub-frame of the input (here: no rows)", "how": "the real filter called on an empty frame"}
        ok = len(out) == 0 and df.equals(before)
        return {"confirmed": not ok, "input": {"frame": "no rows"}, "observed": {"rows": len(out)}}
    return {"confirmed": False, "why": "row-local counter-model; see the bounded stage for concrete failing frames"}


SPEC = Spec(
    prop=PROP,
    level="proof",
    functions=[(TF, c + ".__call__") for c in ("IterationFilter", "IterationIndexFilter", "RankFilter", "TimeRangeFilter", "NameStringColumnFilter", "NameIdColumnFilter", "NameFilter",
                                               "QueryFilter", "GPUKernelFilter", "CPUOperatorFilter", "CompositeFilter", "MemCopyEventFilter")]
              + [(TF, "_filter_gpu_kernels_with_cuda_sync"), (UT, "get_symbol_column_names")],
    units=units,
    bounded=[Bounded("filters_vs_predicates", bounded)],
    replay=replay,
    trusted=["pandas contracts listed under assumptions (selection, isin, comparisons, query, str.match as an uninterpreted predicate shared by the encoded and decoded paths)",
             "symbol table is a bijection id <-> string on ids 0..n-1 (C11's add_symbols contract) and the name/cat ids of an encoded frame are valid ids"],
    assumptions=[],
    explanation="",
)


def _collect_assumptions():
    return list(fv.ASSUMED)
