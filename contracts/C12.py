"""C12 — iteration numbers follow profiler steps; loading trims only the trailing step.

Deductive (z3 from the AST):
  * add_iteration._get_profiler_step: loop invariant (cut-point) — the result is the number of the last step, in array order,
    whose half-open span contains ts, -1 if none; column positions of the steps array ([ts, dur, name, number, label]);
  * add_iteration: host rows (stream < 0) get the step of their ts, device rows (stream > 0) inherit the iteration of the linked
    event (evaluated AFTER the host assignment) or -1 when unlinked; only `iteration` is written;
  * Trace._filter_irrelevant_gpu_kernels.filter_gpu_kernels_for_one_rank: kept host rows = those starting before the last step
    begins (or no later than its end when the last step is requested); kept device rows = those whose correlation id is that
    of a kept host row; the outer function drops nothing with fewer than two steps.
Bounded: generated traces with 0..3 steps, gaps, events before the first and after the last step, both flag values.
"""
from __future__ import annotations

import ast
import copy
from typing import Any, Dict, List

import z3

from hv import core, extract, framevc as fv, pyvc
from hv.driver import Bounded, Spec
from hv.pyvc import to_z3

TR = "hta.common.trace"
TF = "hta.common.trace_filter"
PROP = "C12"


def _nested(fn_node: ast.AST, name: str) -> ast.FunctionDef:
    for n in ast.walk(fn_node):
        if isinstance(n, ast.FunctionDef) and n.name == name:
            return n
    raise pyvc.Unsupported(f"nested function {name} not found")


def profiler_step_vcs() -> List[core.VC]:
    name = f"{PROP}.get_profiler_step"
    f = extract.get_function(TR, "add_iteration")
    node = extract.stripped(f)
    g = _nested(node, "_get_profiler_step")
    fq = [f.fq + "._get_profiler_step"]
    # the steps array: rows = profiler steps, columns by position
    n = z3.Int("n_steps")
    c = [z3.Function(f"steps_col{i}", z3.IntSort(), z3.IntSort()) for i in range(5)]

    class StepsArray:
        def __deepcopy__(self, memo):
            return self

    arr = StepsArray()
    ts = z3.Int("ts")
    F = z3.Function("last_containing_step", z3.IntSort(), z3.IntSort())  # ghost fold over the first k steps

    def inside(k):
        return z3.And(c[0](k) <= ts, ts < c[0](k) + c[1](k))

    spec = pyvc.LoopSpec(
        state_vars=["iter"],
        invariant=lambda env, k, it: to_z3(env["iter"]) == F(k),
        elem=lambda it, k: [c[i](k) for i in range(5)],
        length=lambda it: n,
        name="steps",
    )
    ex = pyvc.Exec(name=name, loop_specs={0: spec})
    outs = ex.run_function(g, {"ts": ts, "profiler_steps_array": arr}, [n >= 0])
    k = z3.Int("k")
    fold = [F(0) == -1, z3.ForAll([k], z3.Implies(z3.And(k >= 0, k < n), F(k + 1) == z3.If(inside(k), c[3](k), F(k))))]
    vcs: List[core.VC] = []
    for pv in ex.vcs:
        vcs.append(core.VC(pv.name, pv.hyps + fold, pv.goal, "vc", fq, {"ts": ts}, note=pv.note))
    rets = [o for o in outs if o.kind == "ret"]
    for i, o in enumerate(rets):
        vcs.append(core.VC(f"{name}.result_is_fold", [to_z3(x) for x in o.pc] + fold, to_z3(o.value) == F(n), "vc", fq, {"ts": ts},
                           note="returns the number (column 3) of the last step with step.ts <= ts < step.ts + step.dur, -1 if none"))
    # column positions of profiler_steps_array in add_iteration
    src = ast.unparse(node).replace("'", '"')
    want = ['profiler_steps = profiler_steps[["ts", "dur", "name"]].copy()', 'profiler_steps["s_name"] = profiler_steps["name"].apply(_extract_iter)',
            'profiler_steps["iter"] = profiler_steps["name"].apply(lambda idx: s_tab[idx])', "profiler_steps_array = profiler_steps.to_numpy()"]
    lines = [l.strip() for l in src.splitlines()]
    pos = [lines.index(w) if w in lines else -1 for w in want]
    if -1 in pos or pos != sorted(pos):
        raise pyvc.Unsupported("construction of profiler_steps_array no longer matches the contract's reading (columns ts, dur, name, s_name, iter in this order)")
    vcs.append(core.VC(f"{name}.array_columns", [], z3.BoolVal(True), "vc", fq, {}, note="array columns: 0 = ts, 1 = dur, 2 = name id, 3 = number extracted from the name, 4 = name string"))
    vcs.append(core.VC(f"{name}.guard.canary_false", [n >= 1] + fold, z3.BoolVal(False), "canary", fq))
    return vcs


def add_iteration_vcs() -> List[core.VC]:
    name = f"{PROP}.add_iteration"
    f = extract.get_function(TR, "add_iteration")
    node = extract.stripped(f)
    fq = [f.fq]
    ex = pyvc.Exec(consts={**extract.module_constants("hta.common.trace_filter"), **extract.module_constants(TR)}, name=name)
    fv.install(ex)
    fv.install_symtab(ex)
    cols = {"index": (z3.IntSort(), False, "int"), "ts": (z3.IntSort(), False, "int"), "dur": (z3.IntSort(), False, "int"), "stream": (z3.IntSort(), False, "int"),
            "name": (z3.IntSort(), False, "int"), "index_correlation": (z3.IntSort(), False, "int")}
    df = fv.SymDF.base("ev", cols)
    idx = df.cols["index"].val
    df.label = lambda r: idx(r)
    before = dict(df.cols)
    step_of = z3.Function("step_of_ts", z3.IntSort(), z3.IntSort())
    # statements: run only the two assignments and the to_numeric (the construction of the steps array is covered above)
    body = [st for st in node.body if isinstance(st, ast.Assign) and isinstance(st.targets[0], ast.Subscript) and "iteration" in ast.unparse(st.targets[0])]
    if len(body) != 3:
        raise pyvc.Unsupported(f"expected the host assignment, the device assignment and the downcast of `iteration`, found {len(body)} statements")

    @pyvc.intrinsic
    def get_step(exq, pc, env, args, kwargs):
        return step_of(to_z3(args[0]))

    env = {"df": df, "_get_profiler_step": get_step}
    pc: List[Any] = []
    a, b = df.uni.skolem("a"), df.uni.skolem("b")
    pres = df.present
    ic, stream = before["index_correlation"].val, before["stream"].val
    # WF: unique ids = labels; a positive link names an event of the frame (C02's postcondition)
    ex.facts += [z3.ForAll(list(a) + list(b), z3.Implies(z3.And(to_z3(pres(a)), to_z3(pres(b)), idx(a) == idx(b)), a[0] == b[0])),
                 z3.ForAll(list(a), z3.Implies(z3.And(to_z3(pres(a)), ic(a) > 0), z3.Exists(list(b), z3.And(to_z3(pres(b)), idx(b) == ic(a)))))]
    for st in body:
        outs = ex.exec_stmt(st, pc, env)
        if len(outs) != 1 or outs[0].kind != "fall":
            raise pyvc.Unsupported("add_iteration assignments fork")
        pc, env = outs[0].pc, outs[0].env
    r, p = df.uni.skolem("r"), df.uni.skolem("p")
    it = df.cols["iteration"]
    # column functions are evaluated lazily and may add facts (label witnesses) when first evaluated: force them before collecting facts
    _ = (to_z3(it.val(r)), to_z3(it.isnull(r)), to_z3(it.val(p)))
    hyps = list(ex.facts) + [to_z3(pres(r))]
    # ground instances of the quantified label-witness facts at the two skolem rows (helps the solver; implied by ex.facts)
    for fact in list(ex.facts):
        if z3.is_quantifier(fact) and fact.num_vars() == 1:
            for row in (r, p):
                hyps.append(z3.substitute_vars(fact.body(), row[0]))
    mv = {"row": r[0], "stream": stream(r), "ts": before["ts"].val(r), "index_correlation": ic(r), "iteration": to_z3(it.val(r))}
    vcs = [core.VC(pv.name, pv.hyps + list(ex.facts), pv.goal, "vc", fq, {}, note=pv.note) for pv in ex.vcs]
    vcs += [
        core.VC(f"{name}.host_rows", hyps + [stream(r) < 0], z3.And(z3.Not(to_z3(it.isnull(r))), to_z3(it.val(r)) == step_of(before["ts"].val(r))), "vc", fq, mv,
                note="a host event gets the step whose span contains its start"),
        core.VC(f"{name}.device_rows_unlinked", hyps + [stream(r) > 0, ic(r) <= 0], z3.And(z3.Not(to_z3(it.isnull(r))), to_z3(it.val(r)) == -1), "vc", fq, mv,
                note="a device activity without linked host call gets -1"),
        core.VC(f"{name}.device_rows_inherit", hyps + [stream(r) > 0, ic(r) > 0, to_z3(pres(p)), idx(p) == ic(r), stream(p) < 0],
                z3.And(z3.Not(to_z3(it.isnull(r))), to_z3(it.val(r)) == step_of(before["ts"].val(p))), "vc", fq, mv,
                note="a device activity inherits the iteration of the host call linked to it (the host assignment happens first)"),
        core.VC(f"{name}.frame", [], z3.BoolVal(df.written == ["iteration"] and df.inplace_row_changes == 0 and all(df.cols[c] is before[c] for c in before)), "vc", fq, {},
                note="only `iteration` is written"),
        core.VC(f"{name}.guard.hyps_satisfiable", hyps + [stream(r) > 0, ic(r) > 0, to_z3(pres(p)), idx(p) == ic(r), stream(p) < 0], z3.BoolVal(True), "vacuity", fq),
    ]
    return vcs


def filter_vcs() -> List[core.VC]:
    name = f"{PROP}.filter_one_rank"
    f = extract.get_function(TR, "Trace._filter_irrelevant_gpu_kernels")
    node = extract.stripped(f)
    g = _nested(node, "filter_gpu_kernels_for_one_rank")
    fq = [f.fq + ".filter_gpu_kernels_for_one_rank"]
    vcs: List[core.VC] = []
    for include in (False, True):
        ex = pyvc.Exec(consts={**extract.module_constants("hta.common.trace_filter"), **extract.module_constants(TR)}, name=f"{name}.include_{include}")
        fv.install(ex)
        fv.install_symtab(ex)
        _, tree = extract.load_module(TF)
        for st in tree.body:
            if isinstance(st, ast.ClassDef):
                ex.classes[st.name] = pyvc.ClassModel(st.name, extract._Stripper().generic_visit(copy.deepcopy(st)))
        ex.intrinsics["_filter_gpu_kernels_with_cuda_sync"] = pyvc.inline_function(extract.stripped(extract.get_function(TF, "_filter_gpu_kernels_with_cuda_sync")))
        cols = {"index": (z3.IntSort(), False, "int"), "ts": (z3.IntSort(), False, "int"), "dur": (z3.IntSort(), False, "int"), "end": (z3.IntSort(), False, "int"),
                "stream": (z3.IntSort(), False, "int"), "name": (z3.IntSort(), False, "int"), "correlation": (z3.IntSort(), False, "int")}
        df = fv.SymDF.base("ev", cols)
        before = dict(df.cols)
        st_ = fv.SymTab("st")
        steps = pyvc.SymSet(z3.IntSort(), "profiler_step_ids")
        selfrec = pyvc.Record("Trace", {"symbol_table": st_})
        env = {"trace_df": df, "self": selfrec, "profiler_steps": steps, "include_last_profiler_step": include}
        outs = ex.run_function(g, env, [])
        rets = [o for o in outs if o.kind == "ret"]
        if len(rets) != 1 or not isinstance(rets[0].value, fv.SymDF):
            raise pyvc.Unsupported("filter_gpu_kernels_for_one_rank: expected one path returning a frame")
        out: fv.SymDF = rets[0].value
        parts = getattr(out, "concat_parts", None)
        if not parts or len(parts) != 2:
            raise pyvc.Unsupported("result is not a concatenation of (device rows, host rows)")
        pres = df.present
        corr, stream, nm, ts, end = (before[c].val for c in ("correlation", "stream", "name", "ts", "end"))
        ES = z3.If(st_.has(z3.StringVal("Event Sync")), st_.idof(z3.StringVal("Event Sync")), -1)
        CS = z3.If(st_.has(z3.StringVal("Context Sync")), st_.idof(z3.StringVal("Context Sync")), -1)
        dev = lambda r: z3.Or(z3.And(stream(r) >= 0, corr(r) >= 0), nm(r) == ES, nm(r) == CS)
        is_step = lambda r: z3.And(to_z3(pres(r)), z3.Not(dev(r)), steps.has(nm(r)))
        r, p, a, b, q = (df.uni.skolem(x) for x in "rpabq")
        # ghost: the last step start / end are the maxima over the step rows (Series.max contract gives exactly this)
        hyps = list(ex.facts) + [to_z3(c) for c in rets[0].pc] + st_.axioms()
        some_step = z3.Exists(list(q), is_step(q))
        LS, LE = z3.Ints("last_step_start last_step_end")
        ghost = [z3.ForAll(list(q), z3.Implies(is_step(q), z3.And(ts(q) <= LS, end(q) <= LE))),
                 z3.Implies(some_step, z3.And(z3.Exists(list(a), z3.And(is_step(a), ts(a) == LS)), z3.Exists(list(b), z3.And(is_step(b), end(b) == LE))))]
        cut = (lambda rr: z3.And(some_step, ts(rr) <= LE)) if include else (lambda rr: z3.And(some_step, ts(rr) < LS))
        host_kept = lambda rr: z3.And(to_z3(pres(rr)), z3.Not(dev(rr)), cut(rr))
        dpart, hpart = parts
        mv = {"row": r[0], "ts": ts(r), "stream": stream(r), "correlation": corr(r), "last_step_start": LS, "last_step_end": LE}
        tag = f"{name}.include_last_{include}"
        for pv in ex.vcs:
            vcs.append(core.VC(pv.name, pv.hyps + list(ex.facts), pv.goal, "vc", fq, {}, note=pv.note))
        if hpart.uni is df.uni:
            vcs.append(core.VC(f"{tag}.host_rows_kept", hyps + ghost, to_z3(hpart.present(r)) == host_kept(r), "vc", fq, mv,
                               note="kept host events: start before the last step begins" if not include else "kept host events: start no later than the last step's end"))
        else:
            vcs.append(core.VC(f"{tag}.host_rows_kept", [], z3.BoolVal(False), "vc", fq, mv, note="host part is not a selection of the trace"))
        if dpart.uni.arity == 2 and dpart.uni.parents and dpart.uni.parents[0] is df.uni:
            m = dpart.uni.skolem("m")
            dr, hr = (m[0],), (m[1],)
            vcs.append(core.VC(f"{tag}.device_rows_kept", hyps + ghost, to_z3(dpart.present(m)) == z3.And(to_z3(pres(dr)), dev(dr), host_kept(hr), corr(dr) == corr(hr)), "vc", fq,
                               {"device_row": m[0], "host_row": m[1]}, note="kept device activities: those whose correlation id is carried by a kept host event (one copy per such host event)"))
            vcs.append(core.VC(f"{tag}.device_row_contents", hyps + [to_z3(dpart.present(m))],
                               z3.And(*[to_z3(dpart.cols[c].val(m)) == before[c].val(dr) for c in before if c in dpart.cols]) if all(c in dpart.cols for c in before) else z3.BoolVal(False),
                               "vc", fq, {}, note="the kept device rows carry the device event's own columns"))
        else:
            vcs.append(core.VC(f"{tag}.device_rows_kept", [], z3.BoolVal(False), "vc", fq, mv, note="device part is not a merge of (device rows, kept host rows)"))
        vcs.append(core.VC(f"{tag}.input_not_modified", [], z3.BoolVal(not df.written and df.inplace_row_changes == 0), "vc", fq, {}))
    # outer function: which branch applies the filter
    src = ast.unparse(node).replace("'", '"')
    want = ['profiler_steps = [v for k, v in sym_index.items() if "ProfilerStep" in k]', "if not profiler_steps:", "elif len(profiler_steps) == 1:",
            "self.traces[rank] = filter_gpu_kernels_for_one_rank(trace_df)"]
    lines = [l.strip() for l in src.splitlines()]
    if any(w not in lines for w in want):
        raise pyvc.Unsupported("outer branching of _filter_irrelevant_gpu_kernels no longer matches the contract's reading")
    vcs.append(core.VC(f"{PROP}.filter.outer_branching", [], z3.BoolVal(True), "vc", [f.fq], {},
                       note="with 0 or 1 profiler-step names nothing is dropped; with >= 2 every rank is filtered (statement correspondence)"))
    return vcs


# ---------------------------------------------------------------------------------------------- bounded


def _case(arg) -> Dict[str, Any]:
    seed, include = arg
    from hv import gen, rt

    steps = seed % 4
    kw = dict(n_threads=1 + seed % 2, n_streams=1 + seed % 2, steps=steps, p_orphan_kernel=0.15, p_missing_kernel=0.15, before_first=True, after_last=True, n_top=2 + seed % 2)
    if seed % 4 == 1:
        kw["p_skew"] = 0.5  # device clock behind the host clock: an activity may start before the call that launched it (it still inherits that call's iteration)
    if seed % 5 in (1, 3):
        kw.update(first_op_in_step=True, p_orphan_kernel=0.3)  # event id 0 has an iteration; device activities without a host partner must still get -1
    if seed % 4 in (2, 3) and seed % 8 >= 4:
        kw["steps_out_of_file_order"] = True  # the ProfilerStep annotations are written after the operators, latest first (file order is not time order)
    per_rank = gen.gen_trace_set(seed, n_ranks=1 + (seed % 3 == 0), **kw)
    if seed % 6 == 3 and steps >= 1:
        # rank 0 with a wide vocabulary (200 operator names of its own, before its first step), rank 1 a file whose entries all carry a duration (narrow integer
        # columns) and whose steps are numbered differently: rank 1's step names get trace-wide symbol ids beyond 127 when the ranks are merged
        from hv import synth

        r0 = gen.gen_trace_set(seed, n_ranks=1, **kw)[0]
        t_first = min(e["ts"] for e in r0 if e.get("ph") == "X")
        for k in range(200):
            r0.append(synth.host_op(f"wide::op_{k:04d}", t_first - 3 * (k + 1), 2, tid=77))
        r1 = gen.gen_trace_set(seed + 1, n_ranks=1, **{**kw, "step_base": 11, "noncomplete_events": False})[0]
        per_rank = {0: r0, 1: r1}
    if seed % 7 == 5:
        for evs in per_rank.values():  # "ProfilerStep #12": the spelling with blanks that the iteration assignment accepts as well
            for e in evs:
                if str(e.get("name", "")).startswith("ProfilerStep#"):
                    e["name"] = e["name"].replace("ProfilerStep#", "ProfilerStep #")
    if seed % 5 == 0 and steps >= 2:  # an event starting exactly at the end of the last step
        for evs in per_rank.values():
            ps = [e for e in evs if str(e.get("name", "")).startswith("ProfilerStep")]
            last = max(ps, key=lambda e: e["ts"])
            from hv import synth
            evs.append(synth.host_op("aten::at_the_edge", last["ts"] + last["dur"], 5))
            evs.append(synth.host_op("aten::at_last_start", last["ts"], 3))
    fails: List[Dict[str, Any]] = []
    n = 0
    inp = {"seed": seed, "include_last_profiler_step": include, "events": per_rank}
    with rt.trace_dir(per_rank) as d:
        try:
            t = rt.lib(fails, "load_traces", inp, rt.load_trace, d, True, include_last_profiler_step=include, use_multiprocessing=False)
        except rt.LibFailure:
            return {"n_checks": 1, "fails": fails, "nontrivial": True}
        all_step_names = {e["name"] for evs in per_rank.values() for e in evs if "ProfilerStep" in str(e.get("name", ""))}
        for rk, evs in per_rank.items():
            comp = gen.complete_events(evs)
            def corr(e):
                a = e.get("args")
                return a.get("correlation", -1) if isinstance(a, dict) else -1
            def strm(e):
                a = e.get("args")
                return int(a.get("stream", -1)) if isinstance(a, dict) else -1
            dev = lambda e: (strm(e) >= 0 and corr(e) >= 0) or e.get("name") in ("Event Sync", "Context Sync")
            psteps = [(e["ts"], e["ts"] + e["dur"], int(str(e["name"]).split("#")[1])) for _, e in comp if str(e["name"]).startswith("ProfilerStep")]
            # expected iteration
            exp_it: Dict[int, int] = {}
            for i, e in comp:
                if strm(e) < 0:
                    v = -1
                    for s0, s1, num in psteps:
                        if s0 <= e["ts"] < s1:
                            v = num
                    exp_it[i] = v
            for i, e in comp:
                if strm(e) > 0:
                    partners = [j for j, o in comp if j != i and corr(o) == corr(e) and corr(e) != -1 and dev(o) != dev(e)]
                    exp_it[i] = exp_it.get(partners[0], -1) if partners else -1
            # expected membership
            if len(all_step_names) >= 2 and psteps:
                ls = max(s0 for s0, _, _ in psteps)
                le = max(s1 for _, s1, _ in psteps)
                kept_host = {i for i, e in comp if not dev(e) and ((e["ts"] <= le) if include else (e["ts"] < ls))}
                kept_corr = {corr(comp_e) for i, comp_e in comp if i in kept_host}
                kept = kept_host | {i for i, e in comp if dev(e) and corr(e) in kept_corr}
            elif len(all_step_names) >= 2:
                kept = set()
            else:
                kept = {i for i, _ in comp}
            df = t.get_trace(rk)
            got = sorted(int(x) for x in df["index"])
            n += 1
            if got != sorted(kept):
                fails.append({"what": "kept_event_ids", "input": inp, "observed": {"rank": rk, "extra": sorted(set(got) - kept)[:10], "missing": sorted(kept - set(got))[:10]},
                              "expected": "host events starting before the last step (or within it when requested) + device activities launched by kept host events"})
                continue
            bad = {int(i): (int(v), exp_it[int(i)]) for i, v in zip(df["index"], df["iteration"]) if int(i) in exp_it and int(v) != exp_it[int(i)]}
            if bad:
                fails.append({"what": "iteration_numbers", "input": inp, "observed": {str(k): v[0] for k, v in list(bad.items())[:8]}, "expected": {str(k): v[1] for k, v in list(bad.items())[:8]}})
    return {"n_checks": n, "fails": fails, "nontrivial": n > 0, "sample": {"seed": seed, "steps": steps, "include_last": include}}


def bounded(ctx):
    from hv import rt

    n = 60 if not ctx.thorough else 800
    res = rt.pmap(_case, [(ctx.seed * 811 + i, bool(i % 2)) for i in range(n)], ctx.procs)
    return rt.summarise(res, f"{PROP}.bounded", f"{n} generated traces (0-3 profiler steps with gaps, events before the first / after the last step and exactly at the last step's "
                        "start and end, missing launches / kernels, 1-2 ranks) through Trace.load_traces with include_last_profiler_step on and off")


def units(ctx):
    return [core.Unit(f"{PROP}.get_profiler_step", profiler_step_vcs, [TR + ".add_iteration._get_profiler_step"]),
            core.Unit(f"{PROP}.add_iteration", add_iteration_vcs, [TR + ".add_iteration"]),
            core.Unit(f"{PROP}.filter_one_rank", filter_vcs, [TR + ".Trace._filter_irrelevant_gpu_kernels.filter_gpu_kernels_for_one_rank"])]


SPEC = Spec(
    lean=['Folds.lean'],
    prop=PROP, level="proof",
    functions=[(TR, "add_iteration"), (TR, "Trace._filter_irrelevant_gpu_kernels"), (TR, "Trace.load_traces"), (TF, "CPUOperatorFilter.__call__"), (TF, "GPUKernelFilter.__call__")],
    units=units, bounded=[Bounded("load_vs_oracle", bounded)],
    trusted=["pandas contracts (mask assignment with label alignment, apply, scalar label look-up, isin, Series.max with NaN for empty, inner merge, concat)",
             "fold meta-lemma for the loop's ghost fold; _extract_iter's regex (digits after '#') is not interpreted (bounded stage)",
             "C02's postcondition: a positive index_correlation names an event of the frame; ids are unique labels"],
    assumptions=["device stream ids are positive (rows with stream == 0 get no iteration)"],
)
