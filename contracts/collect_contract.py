"""Shared contract for the `per rank: collect, then build a frame` shape of the analysers (C04, C07).

    result = defaultdict(list)
    for rank, trace_df in t.traces.items():
        result["rank"].append(rank)
        result[<col>].append(<part of per_rank(trace_df)>)
    result_df = pd.DataFrame(result)
    <column arithmetic>
    return result_df[[...]]

Two pieces, both executed from the real AST (nothing is matched line by line):

* `loop_appends`: the loop BODY is executed once for an arbitrary iteration (opaque rank / frame, the per-rank function
  replaced by a stub returning opaque parts, `result` a recorder).  The body carries no state from one iteration to the next
  besides the lists, so "every list receives exactly one value per iteration, and it is THIS rank's part" gives, by induction
  over the iterations (fold meta-lemma), lists of equal length whose i-th entries belong to the i-th rank.
* `run_tail`: the statements after the loop, executed relationally (FrameVC) on a symbolic frame with one row per rank whose
  collected columns are arbitrary; `round` is an uninterpreted function of (value, digits).

Statement shapes outside this reading raise Unsupported (the unit is undecided, the bounded stage decides); only an executed
body that puts a wrong value somewhere is refuted.
"""
from __future__ import annotations

import ast
from typing import Any, Dict, List, Tuple

import z3

from hv import extract, framevc as fv, pyvc
from hv.pyvc import to_z3


def _the_loop(node: ast.AST) -> int:
    loops = [i for i, st in enumerate(node.body) if isinstance(st, ast.For)]
    if len(loops) != 1:
        raise pyvc.Unsupported(f"{getattr(node, 'name', '?')}: expected exactly one top-level loop (per rank), found {len(loops)}")
    return loops[0]


class _Recorder:
    """stands for `result` (a defaultdict(list)): result[key].append(v) is recorded"""

    def __init__(self):
        self.appends: List[Tuple[Any, Any, List[Any]]] = []

    def hv_getitem(self, ex, idx, pc):
        return _ListRef(self, idx)

    def hv_setitem(self, ex, idx, v, pc):
        raise pyvc.Unsupported("result[...] = ... inside the per-rank loop")

    def __deepcopy__(self, memo):
        return self


class _ListRef:
    def __init__(self, rec: _Recorder, key):
        self.rec, self.key = rec, key

    def hv_call_method(self, ex, attr, args, kwargs, pc, env):
        if attr == "append" and len(args) == 1 and not kwargs:
            self.rec.appends.append((self.key, args[0], list(pc)))
            return None
        raise pyvc.Unsupported(f"result[{self.key!r}].{attr}(...) inside the per-rank loop")

    def __deepcopy__(self, memo):
        return self


def loop_appends(mod: str, fn: str, per_rank_name: str, n_parts: int):
    """Executes the per-rank loop body once.  Returns (function info, rank, frame, parts, appends) where parts are the opaque
    values the per-rank stub returned (a tuple of n_parts, or a single value when n_parts == 1) and appends = [(key, value)]."""
    f = extract.get_function(mod, fn)
    node = extract.stripped(f)
    loop = node.body[_the_loop(node)]
    if ast.unparse(loop.iter) != "t.traces.items()" or not (isinstance(loop.target, ast.Tuple) and len(loop.target.elts) == 2 and all(isinstance(e, ast.Name) for e in loop.target.elts)) or loop.orelse:
        raise pyvc.Unsupported(f"{fn}: the per-rank loop is not `for <rank>, <frame> in t.traces.items()`")
    rank, frame = pyvc.Opaque("rank of this iteration"), pyvc.Opaque("frame of this iteration")
    parts = tuple(pyvc.Opaque(f"part {i} of {per_rank_name}(frame)") for i in range(n_parts))
    calls: List[Any] = []

    @pyvc.intrinsic
    def per_rank(exq, pc, env, args, kwargs):
        calls.append((list(args), dict(kwargs)))
        return parts if n_parts > 1 else parts[0]

    rec = _Recorder()
    ex = pyvc.Exec(consts=extract.module_constants(mod), name=f"{fn}.loop")
    ex.intrinsics[per_rank_name] = per_rank
    env = {loop.target.elts[0].id: rank, loop.target.elts[1].id: frame, "result": rec, "t": pyvc.Opaque("trace"), "cls": pyvc.Opaque("cls")}
    outs = ex.exec_block(loop.body, [], env)
    if len(outs) != 1 or outs[0].kind not in ("fall", "continue"):
        raise pyvc.Unsupported(f"{fn}: the per-rank loop body branches or leaves the loop")
    if any(pc for _k, _v, pc in rec.appends):
        raise pyvc.Unsupported(f"{fn}: conditional append inside the per-rank loop")
    if len(calls) != 1 or calls[0][0] != [frame] or calls[0][1]:
        raise pyvc.Unsupported(f"{fn}: {per_rank_name} is not called exactly once with the frame of the iteration (calls: {len(calls)})")
    return f, rank, frame, parts, [(k, v) for k, v, _pc in rec.appends], ex


def appends_ok(appends, expected: Dict[str, Any]) -> Tuple[bool, str]:
    """every expected key receives exactly one value, the expected one (identity of the opaque part); no other key"""
    got: Dict[Any, List[Any]] = {}
    for k, v in appends:
        got.setdefault(k, []).append(v)
    bad = []
    for k, want in expected.items():
        vs = got.get(k, [])
        if len(vs) != 1:
            bad.append(f"{k}: {len(vs)} values per iteration")
        elif vs[0] is not want:
            bad.append(f"{k}: receives {getattr(vs[0], 'what', vs[0])!r} instead of {getattr(want, 'what', want)!r}")
    for k in got:
        if k not in expected:
            bad.append(f"unexpected list {k!r}")
    return (not bad), "; ".join(bad) or "each list receives its own value once per iteration"


def run_tail(mod: str, fn: str, cols: Dict[str, Tuple[Any, bool, str]], name: str):
    """Executes the statements after the per-rank loop on a symbolic frame with the given collected columns.
    Returns (function info, ex, base frame, its presence predicate and columns before the tail ran, returned frame, round function)."""
    f = extract.get_function(mod, fn)
    node = extract.stripped(f)
    tail = node.body[_the_loop(node) + 1:]
    df = fv.SymDF.base("collected", cols)
    pres0, cols0 = df.present, dict(df.cols)
    round_fn = z3.Function("round_to", z3.RealSort(), z3.IntSort(), z3.RealSort())

    @pyvc.intrinsic
    def _round(exq, pc, env, args, kwargs):
        x = args[0]
        nd = args[1] if len(args) > 1 else kwargs.get("ndigits", 0)
        if isinstance(x, fv.SymSeries):
            v = x.col.val

            def val(r):
                e = to_z3(v(r))
                return round_fn(z3.ToReal(e) if e.sort() == z3.IntSort() else e, to_z3(nd))

            return x._mk(val, x.col.null, "float")
        raise pyvc.Unsupported("round() of something else than a column")

    collected = pyvc.Opaque("per-rank lists")

    @pyvc.intrinsic
    def _mkdf(exq, pc, env, args, kwargs):
        if len(args) != 1 or args[0] is not collected or kwargs:
            raise pyvc.Unsupported("pd.DataFrame(...) of something else than the collected per-rank lists")
        return df

    ex = pyvc.Exec(consts=extract.module_constants(mod), name=name)
    fv.install(ex)
    ex.intrinsics["round"] = _round
    ex.consts["pd"] = pyvc.Namespace("pd", {"DataFrame": _mkdf})
    outs = ex.exec_block(tail, [], {"result": collected, "visualize": False, "t": pyvc.Opaque("trace"), "cls": pyvc.Opaque("cls")})
    rets = [o for o in outs if o.kind == "ret"]
    if len(outs) != 1 or len(rets) != 1 or not isinstance(rets[0].value, fv.SymDF) or rets[0].value.uni is not df.uni:
        raise pyvc.Unsupported(f"{fn} tail: not exactly one returning path with a frame over the collected rows")
    return f, ex, df, pres0, cols0, rets[0].value, round_fn
