"""C02 — correlation links pair each launch call with its device activity, mutually.

Deductive: `transform_correlation_to_index` (with the real CPUOperatorFilter / GPUKernelFilter / device-side predicate
inlined from /repo's AST) is executed over a symbolic frame; for an arbitrary row the resulting `index_correlation` is
proved to be -1 / 0 / the partner's id under the well-formedness preconditions; `get_cpu_gpu_correlation` is the set of
linked (device, host) pairs.  Bounded: generated traces loaded through the public entry point vs. an oracle that pairs
events by correlation id straight from the JSON.
"""
from __future__ import annotations

import ast
import copy
from typing import Any, Dict, List

import z3

from hv import core, extract, framevc as fv, pyvc
from hv.driver import Bounded, Spec
from hv.pyvc import to_z3

TR = "hta.common.trace"
TF = "hta.common.trace_filter"
PROP = "C02"

COLS = {
    "index": (z3.IntSort(), False, "int"), "correlation": (z3.IntSort(), False, "int"), "stream": (z3.IntSort(), False, "int"),
    "name": (z3.IntSort(), False, "int"), "ts": (z3.IntSort(), False, "int"), "dur": (z3.IntSort(), False, "int"),
}


def _mk_exec(name: str) -> pyvc.Exec:
    ex = pyvc.Exec(consts={**extract.module_constants("hta.common.trace_filter"), **extract.module_constants(TR)}, name=name)
    fv.install(ex)
    fv.install_symtab(ex)
    _, tree = extract.load_module(TF)
    for st in tree.body:
        if isinstance(st, ast.ClassDef):
            ex.classes[st.name] = pyvc.ClassModel(st.name, extract._Stripper().generic_visit(copy.deepcopy(st)))
    ex.intrinsics["_filter_gpu_kernels_with_cuda_sync"] = pyvc.inline_function(extract.stripped(extract.get_function(TF, "_filter_gpu_kernels_with_cuda_sync")))
    return ex


def transform_vcs() -> List[core.VC]:
    name = f"{PROP}.transform"
    f = extract.get_function(TR, "transform_correlation_to_index")
    fq = [f.fq, TF + ".CPUOperatorFilter.__call__", TF + ".GPUKernelFilter.__call__", TF + "._filter_gpu_kernels_with_cuda_sync"]
    ex = _mk_exec(name)
    df = fv.SymDF.base("ev", COLS)
    idx = df.cols["index"].val
    df.label = lambda r: idx(r)  # WF6: labels equal the `index` column
    before = dict(df.cols)
    st = fv.SymTab("st")
    outs = ex.run_function(extract.stripped(f), {"df": df, "symbol_table": st}, [])
    rets = [o for o in outs if o.kind == "ret"]
    if len(rets) != 1 or not isinstance(rets[0].value, fv.SymDF):
        raise pyvc.Unsupported("transform_correlation_to_index: expected one returning path with a frame")
    out: fv.SymDF = rets[0].value
    path = [to_z3(c) for c in rets[0].pc]

    corr, stream, nm = before["correlation"].val, before["stream"].val, before["name"].val
    pres = df.present
    ES = z3.If(st.has(z3.StringVal("Event Sync")), st.idof(z3.StringVal("Event Sync")), -1)
    CS = z3.If(st.has(z3.StringVal("Context Sync")), st.idof(z3.StringVal("Context Sync")), -1)

    def dev(r):
        return z3.Or(z3.And(stream(r) >= 0, corr(r) >= 0), nm(r) == ES, nm(r) == CS)

    def partner(r, p):
        return z3.And(pres(p), corr(p) == corr(r), corr(r) != -1, dev(p) != dev(r))

    a, b = df.uni.skolem("a"), df.uni.skolem("b")
    r, p, q = df.uni.skolem("r"), df.uni.skolem("p"), df.uni.skolem("q")
    # well-formedness (section 4): unique ids, correlation >= -1, a correlation id occurs at most once per side
    wf = [
        z3.ForAll(list(a) + list(b), z3.Implies(z3.And(pres(a), pres(b), idx(a) == idx(b)), a[0] == b[0]), patterns=[z3.MultiPattern(idx(a), idx(b))]),
        z3.ForAll(list(a), z3.Implies(pres(a), z3.And(corr(a) >= -1, idx(a) >= 0, nm(a) >= 0)), patterns=[corr(a)]),
        z3.ForAll(list(a) + list(b), z3.Implies(z3.And(pres(a), pres(b), corr(a) == corr(b), corr(a) != -1, dev(a) == dev(b)), a[0] == b[0]), patterns=[z3.MultiPattern(corr(a), corr(b))]),
    ]
    hyps = path + list(ex.facts) + wf + st.axioms() + [pres(r)]
    ic = out.cols["index_correlation"].val
    mv = {"r": r[0], "p": p[0], "corr_r": corr(r), "stream_r": stream(r), "dev_r": dev(r), "ic_r": to_z3(ic(r)), "index_r": idx(r), "index_p": idx(p)}
    vcs: List[core.VC] = []
    for pv in ex.vcs:
        vcs.append(core.VC(pv.name, pv.hyps + list(ex.facts) + wf + st.axioms(), pv.goal, "vc", fq, {}, note=pv.note))
    for o in outs:
        if o.kind == "raise":
            vcs.append(core.VC(f"{name}.noraise", [to_z3(c) for c in o.pc], z3.BoolVal(False), "vc", fq, mv))
    vcs.append(core.VC(f"{name}.no_correlation_gives_minus_one", hyps + [corr(r) == -1], to_z3(ic(r)) == -1, "vc", fq, mv,
                       note="an event without correlation id is linked to nothing (-1)"))
    vcs.append(core.VC(f"{name}.absent_partner_gives_zero", hyps + [corr(r) != -1, z3.ForAll(list(q), z3.Not(partner(r, q)))], to_z3(ic(r)) == 0, "vc", fq, mv,
                       note="a correlation id whose counterpart is not in the trace gives 0"))
    vcs.append(core.VC(f"{name}.partner_linked", hyps + [partner(r, p)], to_z3(ic(r)) == idx(p), "vc", fq, mv,
                       note="the link is the row id of the unique event on the opposite side with the same correlation id"))
    vcs.append(core.VC(f"{name}.mutual", hyps + [partner(r, p)], z3.And(to_z3(ic(p)) == idx(r)), "vc", fq, mv, note="links are mutual"))
    vcs.append(core.VC(f"{name}.never_other_id_or_same_side", hyps + [to_z3(ic(r)) > 0, pres(p), idx(p) == to_z3(ic(r))],
                       z3.And(corr(p) == corr(r), dev(p) != dev(r)), "vc", fq, mv,
                       note="a positive link always names an event with the same correlation id on the opposite side (event 0 is a host operator, never a target)"))
    others_same = all(out.cols[c] is before[c] for c in before)
    vcs.append(core.VC(f"{name}.frame_only_index_correlation_assigned", hyps,
                       z3.BoolVal(others_same and out.written == ["index_correlation"] and out.uni is df.uni and out.inplace_row_changes == 0), "vc", fq, mv,
                       note="no other column and no row set is changed"))
    vcs.append(core.VC(f"{name}.guard.hyps_satisfiable", hyps + [partner(r, p)], z3.BoolVal(True), "vacuity", fq))
    vcs.append(core.VC(f"{name}.guard.canary_false", hyps + [partner(r, p)], z3.BoolVal(False), "canary", fq))
    return vcs


def cpu_gpu_vcs() -> List[core.VC]:
    name = f"{PROP}.get_cpu_gpu_correlation"
    f = extract.get_function(TR, "get_cpu_gpu_correlation")
    ex = _mk_exec(name)
    cols = dict(COLS)
    cols["index_correlation"] = (z3.IntSort(), False, "int")
    df = fv.SymDF.base("ev", cols)
    idx = df.cols["index"].val
    df.label = lambda r: idx(r)
    node = extract.stripped(f)
    # `df.loc[kernel_indices]` (selection by a label series) is modelled through the boolean mask it was derived from:
    # the contract of label selection with unique labels equal to `index` is "the rows whose label is in the series"
    outs = None
    try:
        outs = ex.run_function(node, {"df": df}, [])
    except pyvc.Unsupported:
        raise
    rets = [o for o in outs if o.kind == "ret"]
    out = rets[0].value
    r = df.uni.skolem("r")
    hyps = list(ex.facts)
    a, b = df.uni.skolem("a"), df.uni.skolem("b")
    hyps.append(z3.ForAll(list(a) + list(b), z3.Implies(z3.And(df.present(a), df.present(b), idx(a) == idx(b)), a[0] == b[0])))
    spec = z3.And(df.present(r), df.cols["stream"].val(r) > 0, df.cols["index_correlation"].val(r) > 0)
    fq = [f.fq]
    mv = {"r": r[0]}
    vcs = [
        core.VC(f"{name}.rows", hyps, to_z3(out.present(r)) == spec, "vc", fq, mv, note="one row per device activity (stream > 0) with a positive link"),
        core.VC(f"{name}.columns", hyps + [spec], z3.And(to_z3(out.cols["gpu_index"].val(r)) == idx(r),
                                                          to_z3(out.cols["cpu_index"].val(r)) == df.cols["index_correlation"].val(r),
                                                          z3.BoolVal(list(out.cols) == ["gpu_index", "cpu_index"])), "vc", fq, mv),
        core.VC(f"{name}.guard.canary_false", hyps + [spec], z3.BoolVal(False), "canary", fq),
    ]
    for pv in ex.vcs:
        vcs.append(core.VC(pv.name, pv.hyps + hyps, pv.goal, "vc", fq, {}, note=pv.note))
    return vcs


# ---------------------------------------------------------------------------------------------- bounded


def oracle_links(events: List[Dict[str, Any]]) -> Dict[int, int]:
    """expected index_correlation per complete event (file position), from the JSON alone"""
    from hv import gen

    comp = gen.complete_events(events)

    def corr(e):
        a = e.get("args")
        c = a.get("correlation", -1) if isinstance(a, dict) else -1
        return c

    def stream(e):
        a = e.get("args")
        s = a.get("stream", -1) if isinstance(a, dict) else -1
        try:
            return int(s)
        except (ValueError, TypeError):
            return -1

    def dev(e):
        return (stream(e) >= 0 and corr(e) >= 0) or e.get("name") in ("Event Sync", "Context Sync")

    exp: Dict[int, int] = {}
    for i, e in comp:
        c = corr(e)
        if c == -1:
            exp[i] = -1
            continue
        partners = [j for j, o in comp if j != i and corr(o) == c and dev(o) != dev(e)]
        exp[i] = partners[0] if partners else 0
    return exp


def _case(seed: int) -> Dict[str, Any]:
    from hv import gen, rt, synth

    kw = dict(n_threads=1 + seed % 2, n_streams=1 + seed % 3, steps=seed % 3, p_missing_kernel=0.2, p_orphan_kernel=0.2, p_sync=0.15)
    if seed % 4 == 1:
        kw["p_skew"] = 0.5  # device clock behind the host clock: an activity may start before its launch call (the property does not constrain timestamps)
    per_rank = gen.gen_trace_set(seed, n_ranks=1 + (seed % 5 == 0), **kw)
    # device-side synchronisation records on stream -1 (as Kineto writes them), sharing the correlation id of a sync call
    for rk, evs in per_rank.items():
        syncs = [e for e in evs if e.get("name") in ("cudaDeviceSynchronize", "cudaStreamSynchronize")]
        for j, s in enumerate(syncs[:2]):
            evs.append({"ph": "X", "cat": "cuda_sync", "name": "Context Sync" if (j + seed) % 2 else "Event Sync", "pid": 0, "tid": 0,
                        "ts": s["ts"], "dur": max(1, s["dur"]), "args": {"correlation": s["args"]["correlation"], "stream": -1}})
        if seed % 4 == 0:
            evs.append({"ph": "X", "cat": "cuda_sync", "name": "Event Sync", "pid": 0, "tid": 0, "ts": evs[0]["ts"] + 3, "dur": 2, "args": {"stream": -1}})
    if seed % 6 == 1:
        # Python stack-frame entries (with_stack=True), some of them the first entries of the file: row ids stay file positions, links stay mutual
        for rk, evs in per_rank.items():
            host = [e for e in evs if e.get("ph") == "X" and e.get("cat") == "cpu_op"]
            for k, h in enumerate(host[:3]):
                evs.insert(k, {"ph": "X", "cat": "python_function", "name": f"train.py({20 + k}): step", "pid": h["pid"], "tid": h["tid"], "ts": h["ts"], "dur": h["dur"]})
    if seed % 6 == 5:
        # a capture without device activities (host-side tracing only): every event on a device stream is absent from the file, the host calls keep their
        # correlation ids (-> 0: counterpart absent) and the sync records on stream -1 keep theirs (-> still linked to their calls)
        for rk in per_rank:
            def on_device(e):
                a = e.get("args")
                try:
                    return isinstance(a, dict) and int(a.get("stream", -1)) >= 0
                except (TypeError, ValueError):
                    return False
            per_rank[rk] = [e for e in per_rank[rk] if not on_device(e)]
    fails = []
    n = 0
    with rt.trace_dir(per_rank, gz=bool(seed % 2)) as d:
        if seed % 6 == 3:
            # the parser option that hoists EVERY argument of the events into columns (ParserConfig.parse_all_args): the links are the same
            from hta.common.trace import Trace
            from hta.configs.parser_config import ParserConfig

            t = Trace(trace_dir=d, parser_config=ParserConfig.get_default_cfg().set_parse_all_args(True))
            t.parse_traces(use_multiprocessing=False)
        else:
            t = rt.load_trace(d, load=False, use_multiprocessing=False)
        for rk, evs in per_rank.items():
            df = t.get_trace(rk)
            exp = oracle_links(evs)
            got = {int(i): int(v) for i, v in zip(df["index"], df["index_correlation"])}
            n += len(exp)
            if got != exp:
                diff = {i: (got.get(i), exp.get(i)) for i in set(got) | set(exp) if got.get(i) != exp.get(i)}
                fails.append({"what": "links_match_oracle", "input": {"seed": seed, "rank": rk, "events": evs},
                              "observed": {str(k): v[0] for k, v in list(diff.items())[:6]}, "expected": {str(k): v[1] for k, v in list(diff.items())[:6]}})
                if set(got) != set(exp):
                    continue  # the frame does not even hold the file's events under their ids: the remaining comparisons have nothing to stand on
            # the same events under ANOTHER numbering of the symbols: the synchronisation names get the smallest ids (0, 1), as happens
            # for some hash seeds / vocabularies; the links do not depend on which number a name carries
            from hta.common.trace import transform_correlation_to_index
            from hta.common.trace_symbol_table import TraceSymbolTable

            stab0 = t.symbol_table.get_sym_table()
            first = [x for x in ("Event Sync", "Context Sync") if x in stab0]
            if first:
                st2 = TraceSymbolTable()
                st2.add_symbols(first + [x for x in stab0 if x not in first])
                df2 = df.drop(columns=["index_correlation"]).copy()
                for col in ("name", "cat"):
                    df2[col] = [st2.sym_index[stab0[int(v)]] for v in df2[col]]
                try:
                    out2 = rt.lib(fails, "transform_correlation_to_index(renumbered)", {"seed": seed, "rank": rk, "events": evs}, transform_correlation_to_index, df2, st2)
                    got2 = {int(i): int(v) for i, v in zip(out2["index"], out2["index_correlation"])}
                    if got2 != exp:
                        diff = {i: (got2.get(i), exp.get(i)) for i in set(got2) | set(exp) if got2.get(i) != exp.get(i)}
                        fails.append({"what": "links_do_not_depend_on_symbol_numbering", "input": {"seed": seed, "rank": rk, "events": evs, "ids": {x: st2.sym_index[x] for x in first}},
                                      "observed": {str(k): v[0] for k, v in list(diff.items())[:6]}, "expected": {str(k): v[1] for k, v in list(diff.items())[:6]}})
                except rt.LibFailure:
                    pass
            from hta.common.trace import get_cpu_gpu_correlation

            cg = get_cpu_gpu_correlation(df.set_index("index", drop=False))
            pairs = sorted((int(g), int(c)) for g, c in zip(cg["gpu_index"], cg["cpu_index"]))
            st = {int(i): int(s) for i, s in zip(df["index"], df["stream"])}
            exp_pairs = sorted((i, v) for i, v in exp.items() if v > 0 and st[i] > 0)
            if pairs != exp_pairs:
                fails.append({"what": "cpu_gpu_pairs", "input": {"seed": seed, "rank": rk, "events": evs}, "observed": pairs[:8], "expected": exp_pairs[:8]})
    return {"n_checks": n, "fails": fails, "nontrivial": n > 0, "sample": {"seed": seed, "events": n}, "clauses": {"links_match_oracle": 1, "cpu_gpu_pairs": 1}}


def _loaded_case(k: int) -> Dict[str, Any]:
    """Full load (the last profiler step is trimmed): the links of the LOADED frame are still mutual and never point at a row that
    was dropped.  The crafted part: a synchronising call on a second host thread that begins before the last step and whose
    device-side record (stream -1, Context / Event Sync) is stamped inside it."""
    from hv import gen, rt, synth

    per_rank = gen.gen_trace_set(40_000 + k, n_ranks=1, steps=3, n_streams=2, p_sync=0.2, p_orphan_kernel=0.1, after_last=True)
    evs = per_rank[0]
    steps = sorted((e for e in evs if str(e.get("name", "")).startswith("ProfilerStep#")), key=lambda e: e["ts"])
    last_start = steps[-1]["ts"]
    c = 900_000 + k
    evs.append(synth.launch(last_start - 10, 20, c, tid=9, name="cudaDeviceSynchronize"))
    evs.append({"ph": "X", "cat": "cuda_sync", "name": ["Context Sync", "Event Sync"][k % 2], "pid": 0, "tid": 0, "ts": last_start + [0, 2, 7][k % 3], "dur": 3, "args": {"correlation": c, "stream": -1}})
    fails: List[Dict[str, Any]] = []
    inp = {"case": k, "events": evs}
    n = 0
    with rt.trace_dir(per_rank) as d:
        try:
            t = rt.lib(fails, "load_traces", inp, rt.load_trace, d, True, use_multiprocessing=False)
        except rt.LibFailure:
            return {"n_checks": 1, "fails": fails, "nontrivial": True, "clauses": {}}
        df = t.get_trace(0)
        link = {int(i): int(v) for i, v in zip(df["index"], df["index_correlation"])}
        n = len(link)
        dangling = {i: v for i, v in link.items() if v > 0 and v not in link}
        one_way = {i: v for i, v in link.items() if v > 0 and v in link and link[v] != i}
        if dangling or one_way:
            fails.append({"what": "links_of_the_loaded_frame_are_mutual_and_closed", "input": inp, "observed": {"link_to_a_dropped_row": dict(list(dangling.items())[:5]), "not_mutual": dict(list(one_way.items())[:5])},
                          "expected": "every positive link names a loaded row that links back"})
    return {"n_checks": n, "fails": fails, "nontrivial": n > 0, "sample": {"loaded_case": k}, "clauses": {"links_of_the_loaded_frame_are_mutual_and_closed": 1}}


def bounded(ctx):
    from hv import rt

    n = 60 if not ctx.thorough else 800
    res = rt.pmap(_case, [ctx.seed * 7919 + i for i in range(n)], ctx.procs) + rt.pmap(_loaded_case, list(range(6 if not ctx.thorough else 60)), ctx.procs)
    return rt.summarise(res, f"{PROP}.bounded", f"{n} generated traces (1-2 ranks, missing launches/kernels, orphan kernels, sync records on stream -1 with and without "
                        "correlation id, every sixth file without any device activity, .json/.json.gz) parsed through Trace.parse_traces; oracle pairs events by correlation id from the JSON; plus fully loaded (trimmed) traces with a "
                        "synchronisation whose call and device-side record straddle the start of the dropped step: links stay mutual and closed")


def caller_vcs() -> List[core.VC]:
    """parse_trace_file (the only producer of loaded frames): on EVERY returning path the frame it returns went through
    transform_correlation_to_index - for every file, whatever it contains (a caller that builds the links only for some files
    breaks the property although the link construction itself is intact)."""
    name = f"{PROP}.parse_trace_file"
    f = extract.get_function(TR, "parse_trace_file")
    ex = pyvc.Exec(consts=extract.module_constants(TR), name=name)
    fv.install(ex)
    cols = {"index": (z3.IntSort(), False, "int"), "ts": (z3.IntSort(), False, "int"), "dur": (z3.IntSort(), False, "int"), "cat": (z3.IntSort(), False, "int"),
            "stream": (z3.IntSort(), False, "int"), "correlation": (z3.IntSort(), False, "int"), "name": (z3.IntSort(), False, "int")}
    df = fv.SymDF.base("parsed", cols)
    linked = fv.SymDF.base("linked", {**cols, "index_correlation": (z3.IntSort(), False, "int")})
    call_pcs: List[Any] = []

    @pyvc.intrinsic
    def transform(exq, pc, env, args, kwargs):
        if args and args[0] is df:
            call_pcs.append(pyvc.z_and(*pc))
            return linked
        return args[0]

    def stub(ret=None):
        @pyvc.intrinsic
        def f_(exq, pc, env, args, kwargs):
            return ret(args) if ret else None
        return f_

    ex.intrinsics["parse_trace_dataframe"] = stub(lambda a: ("meta", df, fv.SymTab("st")))
    ex.intrinsics["add_fwd_bwd_links"] = stub()
    ex.intrinsics["transform_correlation_to_index"] = transform
    ex.intrinsics["add_iteration"] = stub()
    ex.consts["ParserConfig"] = pyvc.Namespace("ParserConfig", {"get_default_cfg": pyvc.intrinsic(lambda exq, pc, env, args, kwargs: "cfg")})
    outs = ex.run_function(extract.stripped(f), {"trace_file_path": z3.String("trace_file_path"), "cfg": None}, [])
    rets = [o for o in outs if o.kind == "ret"]
    vcs = [core.VC(pv.name, pv.hyps, pv.goal, "vc", [f.fq], {}, note=pv.note) for pv in ex.vcs]
    vcs.append(core.VC(f"{name}.returns", [], z3.BoolVal(len(rets) >= 1), "vc", [f.fq], {}, note=f"{len(rets)} returning path(s)"))
    for k, o in enumerate(rets):
        got = o.value[1] if isinstance(o.value, tuple) and len(o.value) == 3 else None
        vcs.append(core.VC(f"{name}.links_built_on_every_path.{k}", [to_z3(c) for c in o.pc], z3.BoolVal(got is linked), "vc", [f.fq], {},
                           note="the returned frame is the result of transform_correlation_to_index applied to the parsed frame"))
    return vcs


def units(ctx):
    return [core.Unit(f"{PROP}.parse_trace_file", caller_vcs, [TR + ".parse_trace_file"]),
            core.Unit(f"{PROP}.transform", transform_vcs, [TR + ".transform_correlation_to_index"]),
            core.Unit(f"{PROP}.get_cpu_gpu_correlation", cpu_gpu_vcs, [TR + ".get_cpu_gpu_correlation"])]


SPEC = Spec(
    prop=PROP, level="proof",
    functions=[(TR, "parse_trace_file"), (TR, "transform_correlation_to_index"), (TR, "get_cpu_gpu_correlation"), (TF, "CPUOperatorFilter.__call__"), (TF, "GPUKernelFilter.__call__"),
               (TF, "_filter_gpu_kernels_with_cuda_sync")],
    units=units, bounded=[Bounded("links_vs_oracle", bounded)],
    trusted=["pandas contracts (selection, inner merge on one key, label scatter, np.minimum) as listed under assumptions",
             "well-formedness preconditions WF2 (a correlation id occurs at most once per side), WF5, WF6 (labels = unique `index` column)"],
)
