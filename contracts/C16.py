"""C16 — frequent kernel sequences count exactly the kernels launched under each operator.

Deductive (z3 from the AST):
  * root selection of get_frequent_cuda_kernel_sequences (relational): candidates = rows whose name id is one of the matching ids;
    roots = candidates at the minimal candidate depth (minimum over ALL candidates) with num_kernels >= min_pattern_len;
  * the accumulation loop body (one iteration, dict accumulators keyed by the pattern): count + 1, GPU duration + kernel_dur_sum,
    CPU duration + dur, occurrences extended by the stack's ids; pattern = (operator name id,) + device rows of the stack by ts;
  * the kernel totals the loop relies on (num_kernels, kernel_dur_sum) are C13's recursion contract (re-checked here).
Bounded: the public getter on generated traces vs. a recomputation from the parent column, several operator names,
min_pattern_len and top_k values.
"""
from __future__ import annotations

import ast
import os
import shutil
import tempfile
from typing import Any, Dict, List

import z3

from contracts import C13
from hv import core, extract, framevc as fv, pyvc
from hv import history
from hv.driver import Bounded, Spec
from hv.pyvc import to_z3

CK = "hta.analyzers.cuda_kernel_analysis"
PROP = "C16"
I = z3.IntSort()


def roots_vcs() -> List[core.VC]:
    name = f"{PROP}.root_selection"
    f = extract.get_function(CK, "CudaKernelAnalysis.get_frequent_cuda_kernel_sequences")
    node = extract.stripped(f)
    fq = [f.fq]
    stmts = {}
    for st in node.body:
        if isinstance(st, ast.Assign) and isinstance(st.targets[0], ast.Name) and st.targets[0].id in ("candidate_nodes", "min_depth", "root_nodes"):
            stmts[st.targets[0].id] = st
    if set(stmts) != {"candidate_nodes", "min_depth", "root_nodes"}:
        raise pyvc.Unsupported("candidate_nodes / min_depth / root_nodes assignments not found")
    order = [node.body.index(stmts[k]) for k in ("candidate_nodes", "min_depth", "root_nodes")]
    ex = pyvc.Exec(consts=extract.module_constants(CK), name=name)
    fv.install(ex)
    df = fv.SymDF.base("ev", {"index": (I, False, "int"), "name": (I, False, "int"), "depth": (I, False, "int"), "num_kernels": (I, False, "int"), "dur": (I, False, "int"),
                              "kernel_dur_sum": (I, False, "int")})
    matching = pyvc.SymSet(I, "matching_name_ids")
    mpl = z3.Int("min_pattern_len")
    env = {"trace_df": df, "candidate_root_idx": matching, "min_pattern_len": mpl}
    pc: List[Any] = []
    for k in ("candidate_nodes", "min_depth", "root_nodes"):
        outs = ex.exec_stmt(stmts[k], pc, env)
        if len(outs) != 1:
            raise pyvc.Unsupported("root selection forks")
        pc, env = outs[0].pc, outs[0].env
    roots = env["root_nodes"]
    r, q = df.uni.skolem("r"), df.uni.skolem("q")
    cand = lambda rr: z3.And(to_z3(df.present(rr)), matching.has(df.cols["name"].val(rr)))
    _ = to_z3(roots.present(r))
    hyps = list(ex.facts)
    spec = z3.And(cand(r), z3.ForAll(list(q), z3.Implies(cand(q), df.cols["depth"].val(r) <= df.cols["depth"].val(q))), df.cols["num_kernels"].val(r) >= mpl)
    mv = {"row": r[0], "depth": df.cols["depth"].val(r), "num_kernels": df.cols["num_kernels"].val(r), "min_pattern_len": mpl}
    return [
        core.VC(f"{name}.statement_order", [], z3.BoolVal(order == sorted(order)), "vc", fq, {}, note="min_depth is computed over all candidates before the num_kernels filter"),
        core.VC(f"{name}.roots_sound", hyps + [to_z3(roots.present(r))], spec, "vc", fq, mv, note="a root is a matching instance at the shallowest depth at which the name occurs, launching >= min_pattern_len kernels"),
        core.VC(f"{name}.roots_complete", hyps + [spec], to_z3(roots.present(r)), "vc", fq, mv),
        core.VC(f"{name}.guard.canary_false", hyps + [spec], z3.BoolVal(False), "canary", fq),
    ]


class _Acc:
    """defaultdict accumulator restricted to one symbolic key (the pattern of this iteration)."""

    def __init__(self, kind: str, old):
        self.kind, self.old, self.new, self.key = kind, old, old, None
        self.ops: List[Any] = []

    def __deepcopy__(self, memo):
        return self

    def hv_getitem(self, ex, idx, pc):
        self.key = idx
        if self.kind == "list2":
            return _ListSlot(self)
        if self.kind == "set":
            return _SetSlot(self)
        return self.new

    def hv_setitem(self, ex, idx, v, pc):
        self.key = idx
        self.new = v


class _ListSlot:
    def __init__(self, acc):
        self.acc = acc

    def hv_getitem(self, ex, idx, pc):
        return self.acc.new[idx]

    def hv_setitem(self, ex, idx, v, pc):
        lst = list(self.acc.new)
        lst[idx] = v
        self.acc.new = lst


class _SetSlot:
    def __init__(self, acc):
        self.acc = acc

    def hv_call_method(self, ex, attr, args, kwargs, pc, env):
        if attr == "update":
            self.acc.ops.append(args[0])
            return None
        return NotImplemented


class _Pattern:
    def __init__(self, head, tail):
        self.head, self.tail = head, tail

    def __deepcopy__(self, memo):
        return self


class _NameList:
    def __init__(self, df, col, sorted_by):
        self.df, self.col, self.sorted_by = df, col, sorted_by

    def __deepcopy__(self, memo):
        return self


def loop_vcs() -> List[core.VC]:
    name = f"{PROP}.accumulation_loop"
    f = extract.get_function(CK, "CudaKernelAnalysis.get_frequent_cuda_kernel_sequences")
    node = extract.stripped(f)
    fq = [f.fq]
    loops = [st for st in node.body if isinstance(st, ast.For)]
    if len(loops) != 1:
        raise pyvc.Unsupported("expected one accumulation loop")
    loop = loops[0]
    it_src = ast.unparse(loop.iter).replace("'", '"')
    if it_src != 'root_nodes[["index", "name", "dur", "kernel_dur_sum"]].itertuples()':
        raise pyvc.Unsupported(f"loop iterates over {it_src}")
    ex = pyvc.Exec(consts=extract.module_constants(CK), name=name)
    fv.install(ex)
    stack = fv.SymDF.base("stack", {"index": (I, False, "int"), "name": (I, False, "int"), "ts": (I, False, "int"), "dur": (I, False, "int"), "stream": (I, False, "int")})
    calls: List[Any] = []

    def get_stack(exq, pc, env, obj, args, kwargs):
        calls.append((list(args), dict(kwargs)))
        return stack

    ex.methods["Record.get_stack_of_node"] = get_stack
    # tolist()/to_list() of a column and tuple(list + list)
    orig_series_call = fv.SymSeries.hv_call_method

    def series_call(self, exq, attr, args, kwargs, pc, env):
        if attr in ("tolist", "to_list"):
            return _NameList(self, self.name, None)
        return orig_series_call(self, exq, attr, args, kwargs, pc, env)

    fv.SymSeries.hv_call_method = series_call
    old_tuple = pyvc._BUILTINS["tuple"]

    def my_tuple(exq, pc, args, kw):
        return args[0] if isinstance(args[0], _Pattern) else old_tuple(exq, pc, args, kw)

    pyvc._BUILTINS["tuple"] = my_tuple
    orig_binop = ex.binop

    def binop(op, a, b, pc, n=None):
        if isinstance(op, ast.Add) and isinstance(a, list) and len(a) == 1 and isinstance(b, _NameList):
            return _Pattern(a[0], b)
        return orig_binop(op, a, b, pc, n)

    ex.binop = binop
    c0, g0, d0 = z3.Ints("old_count old_gpu_dur old_cpu_dur")
    counts, durs, occ = _Acc("int", c0), _Acc("list2", [g0, d0]), _Acc("set", None)
    idx, nm, dur, kds = z3.Ints("index name dur kernel_dur_sum")
    env = {"cg": pyvc.Record("CallGraph", {}), "pattern_counts": counts, "pattern_durations": durs, "pattern_occurrences": occ}
    try:
        env = ex.assign(loop.target, (z3.Int("_row"), idx, nm, dur, kds), [], env)
        outs = ex.exec_block(loop.body, [], env)
    finally:
        fv.SymSeries.hv_call_method = orig_series_call
        pyvc._BUILTINS["tuple"] = old_tuple
    if len(outs) != 1 or outs[0].kind != "fall":
        raise pyvc.Unsupported("loop body forks")
    r = stack.uni.skolem("r")
    vcs: List[core.VC] = []
    ok_call = len(calls) == 1 and calls[0][0][0] is idx and calls[0][1].get("skip_ancestors") is True
    vcs.append(core.VC(f"{name}.stack_of_the_instance", [], z3.BoolVal(ok_call), "vc", fq, {}, note="the instance's stack = the node and its descendants (ancestors skipped)"))
    pat = counts.key
    ok_pat = isinstance(pat, _Pattern) and pat.head is nm and durs.key is pat and occ.key is pat
    vcs.append(core.VC(f"{name}.one_pattern_key", [], z3.BoolVal(ok_pat), "vc", fq, {}, note="all three accumulators are updated under the same pattern, which starts with the operator's name"))
    if ok_pat:
        tail: _NameList = pat.tail
        ser = tail.df
        vcs.append(core.VC(f"{name}.pattern_tail_is_device_rows_by_start_time", list(ex.facts),
                           z3.And(z3.BoolVal(isinstance(ser, fv.SymSeries) and tail.col == "name" and ser.uni is stack.uni),
                                  to_z3(ser.present(r)) == z3.And(to_z3(stack.present(r)), stack.cols["stream"].val(r) != -1), to_z3(ser.col.val(r)) == stack.cols["name"].val(r)),
                           "vc", fq, {}, note="names of the stack's device activities"))
        order_ok = False
        for st in ast.walk(ast.Module(body=loop.body, type_ignores=[])):
            if isinstance(st, ast.Call) and isinstance(st.func, ast.Attribute) and st.func.attr == "sort_values" and st.args and isinstance(st.args[0], ast.Constant) and st.args[0].value == "ts":
                order_ok = True
        vcs.append(core.VC(f"{name}.kernels_in_start_time_order", [], z3.BoolVal(order_ok), "vc", fq, {}, note="device rows are sorted by ts before their names are taken"))
        vcs.append(core.VC(f"{name}.count_plus_one", [], to_z3(counts.new) == c0 + 1, "vc", fq, {}))
        vcs.append(core.VC(f"{name}.durations_accumulate", [], z3.And(to_z3(durs.new[0]) == g0 + kds, to_z3(durs.new[1]) == d0 + dur), "vc", fq, {},
                           note="GPU duration += the instance's kernel_dur_sum; CPU duration += the instance's dur"))
        ok_occ = len(occ.ops) == 1 and isinstance(occ.ops[0], _NameList) and occ.ops[0].col == "index" and occ.ops[0].df.uni is stack.uni
        vcs.append(core.VC(f"{name}.occurrences_are_stack_ids", [], z3.BoolVal(ok_occ), "vc", fq, {}))
    return vcs


def results_vcs() -> List[core.VC]:
    f = extract.get_function(CK, "CudaKernelAnalysis._generate_frequent_pattern_results")
    src = ast.unparse(extract.stripped(f)).replace("'", '"')
    want = ['patterns_result["pattern"].append("|".join((sym_table[x] for x in pattern)))', 'patterns_result["count"].append(count)',
            'patterns_result["GPU kernel duration (us)"].append(pattern_durations[pattern][0])', 'patterns_result["CPU op duration (us)"].append(pattern_durations[pattern][1])',
            'patterns_df = pd.DataFrame(patterns_result).sort_values(by=["count", "pattern"], ascending=[False, True], ignore_index=True)',
            'return patterns_df.drop("pattern_indices", axis=1)']
    lines = [l.strip() for l in src.splitlines()]
    missing = [w for w in want if w not in lines]
    if missing:
        raise pyvc.Unsupported("_generate_frequent_pattern_results no longer matches the contract's reading: " + "; ".join(missing))
    return [core.VC(f"{PROP}.results.statements", [], z3.BoolVal(True), "vc", [f.fq], {},
                    note="one row per pattern (decoded with '|'), count, GPU duration = durations[0], CPU duration = durations[1]; sorted by count descending then pattern")]


# ---------------------------------------------------------------------------------------------- bounded


def _repetitive_events(n_inst: int, op_dur: int) -> List[Dict[str, Any]]:
    """n_inst instances of one operator, each launching the same two kernels; every entry has a duration and all durations
    fit the narrowest integer type, while the per-pattern totals do not."""
    from hv import synth

    evs: List[Dict[str, Any]] = []
    t, corr = 1_000_000, 700
    evs.append(synth.host_op("aten::first_op", t, 5))
    t += 10
    for i in range(n_inst):
        evs.append(synth.host_op("aten::linear", t, op_dur))
        evs.append(synth.host_op("aten::addmm", t + 2, op_dur - 4))
        for j, kn in enumerate(["void gemm_kernel_a", "void elementwise_kernel_b"]):
            corr += 1
            evs.append(synth.launch(t + 4 + 6 * j, 4, corr))
            evs.append(synth.kernel(kn, t + 6 + 6 * j, op_dur // 3, 7 + 2 * j, corr))
        t += op_dur + 5
    return evs


def _case(arg) -> Dict[str, Any]:
    seed, min_len, top_k = arg[:3]
    from hv import gen, rt

    kw = dict(n_threads=1 + seed % 2, n_streams=2, steps=1 + seed % 2, p_launch=0.8, p_zero=0.0, min_launch_q=1, p_sync=0.0, n_top=3 + seed % 2, max_depth=3, p_missing_kernel=0.05)
    if seed % 3 == 1:
        kw["p_frac_kernel_dur"] = 0.7  # fractional kernel durations (whole-number timestamps): the GPU totals are sums of the exact durations
    if seed % 3 == 2:
        kw.update(steps=0, n_top=6, noncomplete_events=False)  # no long annotation, no entry without a duration: the loader stores `dur` in one byte while pattern totals exceed it
    if seed % 4 == 3:
        kw["corr_start"] = -1  # correlation ids numbered from 0: the first launch / kernel pair of the file carries id 0
    per_rank = gen.gen_trace_set(seed, n_ranks=1, **kw)
    if len(arg) > 3:
        per_rank = {0: _repetitive_events(*arg[3])}
    if seed % 6 == 4 and len(arg) <= 3:
        # recorded with Python stack frames (with_stack=True): frames wrap some operators (identical span, written first, hence the parent), so instances of one
        # operator sit at different depths; every entry of the file, frames included, is an event of the trace
        k_ = 0
        evs_ = per_rank[0]
        for pos in range(len(evs_) - 1, 0, -1):
            e = evs_[pos]
            if e.get("cat") == "cpu_op" and e.get("dur", 0) >= 10 and e.get("name") != "aten::first_op":
                k_ += 1
                if k_ % 2:
                    evs_.insert(pos, {"ph": "X", "cat": "python_function", "name": f"model.py({10 + k_}): forward", "pid": e["pid"], "tid": e["tid"], "ts": e["ts"], "dur": e["dur"]})
    RK = 0
    if seed % 5 == 3 and len(arg) <= 3:
        # two ranks, the SECOND one (a larger file than the first) is analysed; loaded through the default entry point (worker pool)
        big = gen.gen_trace_set(seed + 7, n_ranks=1, **{**kw, "n_top": 6, "steps": max(1, kw.get("steps", 1))})[0]
        per_rank = {0: per_rank[0], 1: big}
        RK = 1
    ops = ["aten::mm", "aten::", "autograd", "aten::linear"]
    if seed % 4 == 1 and len(arg) <= 3:
        # operator names as the profiler writes them for Python frames and modules: parentheses, dots, brackets, '+', '*' are ordinary characters of a name
        from collections import Counter

        common = [nm for nm, _ in Counter(e["name"] for e in per_rank[0] if e.get("cat") == "cpu_op" and e["name"] != "aten::first_op").most_common(2)]
        ren = dict(zip(common, ["nn.Module: Linear_0 (fwd) [a+b]*", "nnXModule: Linear_0 (fwd) [a+b]*"]))
        for e in per_rank[0]:
            if e.get("cat") == "cpu_op" and e["name"] in ren:
                e["name"] = ren[e["name"]]
        ops = ["nn.Module: Linear_0 (fwd) [a+b]*", "nn.Module", "(fwd)", "aten::"]
    fails: List[Dict[str, Any]] = []
    n = 0
    outdir = tempfile.mkdtemp(prefix="hv_c16_")
    try:
        with rt.trace_dir(per_rank) as d:
            try:
                ta = rt.lib(fails, "load", {"seed": seed, "events": per_rank}, rt.load_analysis, d)
            except rt.LibFailure:
                return {"n_checks": 1, "fails": fails, "nontrivial": True}
            from contracts.C03 import in_known_class_d4
            from hta.common.trace_call_graph import CallGraph

            cg = CallGraph(ta.t, ranks=[RK])
            df = cg.trace_data.get_trace(RK)
            stab = ta.t.symbol_table.get_sym_table()
            def num(x):
                return int(x) if float(x) == int(x) else float(x)  # quarter fractions are exact in binary

            rows = {int(i): dict(ts=num(ts), dur=num(du), stream=int(s), parent=int(p), depth=int(dp), name=stab[int(nm)], tid=int(tid), pid=int(pid), corr=int(c))
                    for i, ts, du, s, p, dp, nm, tid, pid, c in zip(df["index"], df["ts"], df["dur"], df["stream"], df["parent"], df["depth"], df["name"], df["tid"], df["pid"], df["correlation"])}
            # the analysed rank holds the events of ITS file (row id = position in that file)
            fnames = {i: e["name"] for i, e in gen.complete_events(per_rank[RK])}
            wrong = [i for i, rw in rows.items() if fnames.get(i) != rw["name"]]
            n_steps = len({e["name"] for e in per_rank[RK] if str(e.get("name", "")).startswith("ProfilerStep")})
            if not wrong and n_steps < 2 and set(fnames) != set(rows):
                # fewer than two profiler steps: nothing is trimmed, every complete event of the file is a row
                miss = sorted(set(fnames) - set(rows))
                fails.append({"what": "every_complete_event_of_the_file_is_an_event_of_the_trace", "input": {"seed": seed, "rank": RK, "events": per_rank},
                              "observed": {"missing_rows": miss[:6]}, "expected": [fnames[i] for i in miss[:6]]})
                return {"n_checks": 1, "fails": fails, "nontrivial": True}
            if wrong:
                fails.append({"what": "rank_frame_holds_the_events_of_its_own_file", "input": {"seed": seed, "rank": RK, "events": per_rank},
                              "observed": {"row": wrong[0], "name": rows[wrong[0]]["name"]}, "expected": fnames.get(wrong[0])})
                return {"n_checks": 1, "fails": fails, "nontrivial": True}
            by_thread: Dict[Any, List[Any]] = {}
            for i, rw in rows.items():
                if rw["stream"] < 0:
                    by_thread.setdefault((rw["pid"], rw["tid"]), []).append((i, rw["ts"], rw["dur"]))
            if any(in_known_class_d4(v) for v in by_thread.values()):
                return {"n_checks": 0, "fails": [], "nontrivial": False, "sample": {"seed": seed, "skipped": "C03-D4 input class"}}
            children: Dict[int, List[int]] = {}
            for i, rw in rows.items():
                children.setdefault(rw["parent"], []).append(i)

            # device activities launched beneath a host event: linked by the FILE's correlation ids (one host call and one device activity per id),
            # not by the parent column the library wrote for the device rows (a lost link must not vanish from the oracle too)
            host_of_corr: Dict[int, int] = {}
            for i, rw in rows.items():
                if rw["stream"] < 0 and rw["corr"] >= 0 and rw["corr"] not in host_of_corr:
                    host_of_corr[rw["corr"]] = i
            under: Dict[int, List[int]] = {}
            for k, rw in rows.items():
                if rw["stream"] > 0 and rw["corr"] in host_of_corr:
                    h = host_of_corr[rw["corr"]]
                    seen = set()
                    while h in rows and h not in seen:
                        seen.add(h)
                        under.setdefault(h, []).append(k)
                        h = rows[h]["parent"]

            def kernels_under(i):
                return list(under.get(i, []))

            for op in ops:
                inp = {"seed": seed, "operator_name": op, "min_pattern_len": min_len, "top_k": top_k, "rank": RK, "events": per_rank}
                try:
                    res = rt.lib(fails, "get_frequent_cuda_kernel_sequences", inp, ta.get_frequent_cuda_kernel_sequences, operator_name=op, output_dir=outdir,
                                 min_pattern_len=min_len, rank=RK, top_k=top_k, visualize=False)
                except rt.LibFailure:
                    continue
                inst = [i for i, rw in rows.items() if op in rw["name"]]
                exp: Dict[str, List[int]] = {}
                ambiguous = False
                if inst:
                    md = min(rows[i]["depth"] for i in inst)
                    for i in inst:
                        ks = kernels_under(i)
                        if rows[i]["depth"] != md or len(ks) < min_len:
                            continue
                        if len({rows[k]["ts"] for k in ks}) != len(ks):
                            ambiguous = True
                        ks.sort(key=lambda k: rows[k]["ts"])
                        pat = "|".join([rows[i]["name"]] + [rows[k]["name"] for k in ks])
                        e = exp.setdefault(pat, [0, 0, 0])
                        e[0] += 1
                        e[1] += sum(rows[k]["dur"] for k in ks)
                        e[2] += rows[i]["dur"]
                if ambiguous:
                    continue
                n += 1
                got = {r["pattern"]: [int(r["count"]), num(r["GPU kernel duration (us)"]), num(r["CPU op duration (us)"])] for _, r in res.iterrows()} if len(res) else {}
                if got != exp:
                    fails.append({"what": "patterns_counts_durations", "input": inp, "observed": dict(list(got.items())[:4]), "expected": dict(list(exp.items())[:4])})
                elif len(res):
                    order = [(-int(r["count"]), r["pattern"]) for _, r in res.iterrows()]
                    if order != sorted(order):
                        fails.append({"what": "rows_ordered_by_descending_count", "input": inp, "observed": order[:6]})
    finally:
        shutil.rmtree(outdir, ignore_errors=True)
    return {"n_checks": n, "fails": fails, "nontrivial": n > 0, "sample": {"seed": seed, "min_pattern_len": min_len}}


def bounded(ctx):
    from hv import rt

    n = 32 if not ctx.thorough else 400
    rep = [(ctx.seed * 307 + 900 + i, 1 + i % 2, 5, spec) for i, spec in enumerate([(12, 30), (40, 1000), (9, 120)])]  # int8 / int16 / int8 totals beyond the type
    res = rt.pmap(_case, [(ctx.seed * 307 + i, [1, 2, 3][i % 3], [1, 5][i % 2]) for i in range(n)] + rep, ctx.procs)
    return rt.summarise(res, f"{PROP}.bounded", f"{n} generated traces x 4 operator names (exact, prefix, substring occurring at several depths; every fourth trace with names holding parentheses, dots, brackets, + and *) x min_pattern_len 1-3 x top_k 1/5, kernels on "
                        "two streams (overlapping, so sums exceed spans) + 3 repetitive traces whose durations fit int8 / int16 while pattern totals do not; oracle recomputed from the parent column")


def units(ctx):
    return [core.Unit(f"{PROP}.root_selection", roots_vcs, [CK + ".CudaKernelAnalysis.get_frequent_cuda_kernel_sequences"]),
            core.Unit(f"{PROP}.accumulation_loop", loop_vcs, [CK + ".CudaKernelAnalysis.get_frequent_cuda_kernel_sequences"]),
            core.Unit(f"{PROP}.results", results_vcs, [CK + ".CudaKernelAnalysis._generate_frequent_pattern_results"]),
            core.Unit(f"{PROP}.kernel_totals", lambda: [core.VC(v.name.replace("C13.", "C16.kernel_totals."), v.hyps, v.goal, v.kind, v.functions, v.model_vars, v.known_classes, v.note)
                                                          for v in C13.kernel_info_vcs()], [C13.TCS + ".CallStackGraph._add_kernel_info_to_cpu_ops._dfs"])]


SPEC = Spec(
    prop=PROP, level="other",
    functions=[(CK, "CudaKernelAnalysis.get_frequent_cuda_kernel_sequences"), (CK, "CudaKernelAnalysis._generate_frequent_pattern_results"),
               (C13.TCS, "CallStackGraph._add_kernel_info_to_cpu_ops"), ("hta.common.trace_call_graph", "CallGraph.get_stack_of_node")],
    units=units, bounded=[Bounded("sequences_vs_recomputation", bounded), Bounded("history_independence", history.stage(PROP, "sequences", "gen"))],
    trusted=["get_stack_of_node(index, skip_ancestors=True) = the node and all its descendants including device activities (bounded stage only)",
             "substring matching of the operator name is the code's definition of 'matching'", "dict accumulators modelled per key (defaultdict semantics)"],
    explanation="Proved (z3 from the AST): root selection (shallowest depth over all candidates, then the kernel-count filter), one iteration of the accumulation loop, the kernel "
                "totals recursion (shared with C13). Bounded: the stack of a node, decoding and ordering of the result rows, the whole getter against a recomputation.",
)
