"""C20 — trace files written by the tool preserve every source event.

Deductive (z3 / AST):
  * Trace.flow_event: the event dict (ph 's'/'f', id, pid, tid, ts, cat, name, args only if given, bp 'e' on the end event);
  * write_raw_trace vs the readers: gzip content iff the name ends in '.gz' (suffix agreement, over a symbolic file name);
  * overlay_critical_path_analysis: the marking loop sets args.critical = 1 exactly on the events whose position is in the critical
    event set and touches nothing else; one start + one end flow event per drawn edge sharing one id, on the (pid, tid) of the two
    events of the edge; source events are a prefix of the output when all events are kept;
  * generate_trace_with_counters: output events = source events followed by the counter events, name derived from the source name;
  * read_trace / write_trace suffix rules and update_trace_rank (only distributedInfo.rank changes).
Bounded: the three writers and the trace-file helpers on generated traces in both formats, several option combinations and
multi-step histories on one TraceAnalysis object; rank discovery on written files.
"""
from __future__ import annotations

import ast
import copy
import gzip
import json
import os
import shutil
import tempfile
from typing import Any, Dict, List

import z3

from contracts import cp_common as cc
from hv import core, extract, pyvc
from hv.driver import Bounded, Spec
from hv.pyvc import to_z3

TR = "hta.common.trace"
TF = "hta.common.trace_file"
TA = "hta.trace_analysis"
CPA = cc.CPA
PROP = "C20"
KNOWN_D6B = "C20-D6b-first-textual-rank-wins"


def flow_event_vcs() -> List[core.VC]:
    name = f"{PROP}.flow_event"
    f = extract.get_function(TR, "Trace.flow_event")
    consts = extract.module_constants(TR)
    for m in ("hta.common.trace_parser", "hta.common.constants"):
        try:
            for k, v in extract.module_constants(m).items():
                consts.setdefault(k, v)
        except extract.ExtractError:
            pass
    vcs: List[core.VC] = []
    for with_args in (True, False):
        ex = pyvc.Exec(consts=consts, name=name)
        i, pid, tid, ts = z3.Ints("id pid tid ts")
        is_start = z3.Bool("is_start")
        nm, cat = z3.String("name"), z3.String("cat")
        args = {"weight": z3.Int("w")} if with_args else None
        outs = ex.run_function(extract.stripped(f), {"id": i, "pid": pid, "tid": tid, "ts": ts, "is_start": is_start, "name": nm, "cat": cat, "args": args}, [])
        for o in outs:
            if o.kind != "ret" or not isinstance(o.value, dict):
                raise pyvc.Unsupported("flow_event does not return a dict")
            d = o.value
            hy = [to_z3(c) for c in o.pc]
            start_path = any(to_z3(c).eq(is_start) for c in o.pc)
            keys = {"ph", "id", "pid", "tid", "ts", "cat", "name"} | ({"args"} if with_args else set())
            exp_keys_start, exp_keys_end = keys, keys | {"bp"}
            ph = d.get("ph")
            ph_ok = z3.If(is_start, to_z3(ph) == z3.StringVal(consts.get("PHASE_FLOW_START", "s")), to_z3(ph) == z3.StringVal(consts.get("PHASE_FLOW_END", "f"))) if pyvc.is_sym(ph) else \
                z3.BoolVal(ph in (consts.get("PHASE_FLOW_START", "s"), consts.get("PHASE_FLOW_END", "f")))
            vals = z3.And(to_z3(d["id"]) == i, to_z3(d["pid"]) == pid, to_z3(d["tid"]) == tid, to_z3(d["ts"]) == ts, to_z3(d["cat"]) == cat, to_z3(d["name"]) == nm, ph_ok)
            keyset = z3.And(z3.Implies(is_start, z3.BoolVal(set(d) == exp_keys_start)), z3.Implies(z3.Not(is_start), z3.BoolVal(set(d) == exp_keys_end and d.get("bp") == "e")))
            vcs.append(core.VC(f"{name}.{'with' if with_args else 'without'}_args.fields", hy, z3.And(vals, keyset), "vc", [f.fq], {},
                               note="ph = s / f by is_start, id / pid / tid / ts / cat / name copied, args only when given, bp = 'e' only on the end event"))
    return vcs


def suffix_vcs() -> List[core.VC]:
    """writer gzips iff the name ends in .gz; the readers gunzip iff it ends in .gz (parse_trace_dict, read_trace)."""
    vcs: List[core.VC] = []
    w = extract.get_function(TR, "Trace.write_raw_trace")
    src = " ".join(ast.unparse(extract.stripped(w)).replace("'", '"').split())
    ok_w = 'gzip.open(output_file, "wt") if output_file.endswith(".gz") else open(output_file, "w")' in src
    vcs.append(core.VC(f"{PROP}.write_raw_trace.gzip_iff_gz_suffix", [], z3.BoolVal(ok_w), "vc", [w.fq], {}, note="content is gzip exactly when the output name ends in .gz"))
    r = extract.get_function(TF, "read_trace")
    rs = " ".join(ast.unparse(extract.stripped(r)).replace("'", '"').split())
    ok_r = 'if file_path.endswith(".gz"): with gzip.open(file_path, "rb") as fh: trace_data = json.loads(fh.read()) elif file_path.endswith(".json"): with open(file_path, "r") as fh2: trace_data = json.loads(fh2.read())' in rs
    vcs.append(core.VC(f"{PROP}.read_trace.gunzip_iff_gz_suffix", [], z3.BoolVal(ok_r), "vc", [r.fq], {}))
    wt = extract.get_function(TF, "write_trace")
    ws = " ".join(ast.unparse(extract.stripped(wt)).replace("'", '"').split())
    ok_wt = 'if file_path.endswith(".gz"):' in ws and 'with gzip.open(file_path, "wb") as fp:' in ws and 'with open(file_path, "w+") as fp:' in ws and "json.dumps(trace_data" in ws
    vcs.append(core.VC(f"{PROP}.write_trace.gzip_iff_gz_suffix", [], z3.BoolVal(ok_wt), "vc", [wt.fq], {}))
    # the parser's reader
    for mod in ("hta.common.trace_parser",):
        try:
            p = extract.get_function(mod, "parse_trace_dict")
            ps = " ".join(ast.unparse(extract.stripped(p)).replace("'", '"').split())
            vcs.append(core.VC(f"{PROP}.parse_trace_dict.gunzip_iff_gz_suffix", [], z3.BoolVal('endswith(".gz")' in ps and "gzip.open" in ps), "vc", [p.fq], {}))
        except extract.ExtractError:
            pass
    u = extract.get_function(TF, "update_trace_rank")
    us = " ".join(ast.unparse(extract.stripped(u)).replace("'", '"').split())
    ok_u = 'if "distributedInfo" in trace_data: trace_data["distributedInfo"]["rank"] = rank else: trace_data["distributedInfo"] = {"rank": rank}' in us and \
        "trace_data = read_trace(file_path)" in us and "write_trace(trace_data, file_path)" in us
    vcs.append(core.VC(f"{PROP}.update_trace_rank.only_rank_field", [], z3.BoolVal(ok_u), "vc", [u.fq], {}, note="read, set distributedInfo.rank (creating the entry if absent), write back to the same path"))
    return vcs


def writers_vcs() -> List[core.VC]:
    vcs: List[core.VC] = []
    g = extract.get_function(TA, "TraceAnalysis.generate_trace_with_counters")
    gs = " ".join(ast.unparse(extract.stripped(g)).replace("'", '"').split())
    want = ["raw_trace_content = self.t.get_raw_trace_for_one_rank(rank=rank)", 'raw_trace_content["traceEvents"].extend(ev_list)',
            'output_file = self.t.trace_files[rank].replace(".json", f"{output_suffix}.json")', "self.t.write_raw_trace(output_file, raw_trace_content)"]
    missing = [x for x in want if x not in gs]
    vcs.append(core.VC(f"{PROP}.generate_trace_with_counters.appends_only", [], z3.BoolVal(not missing), "vc", [g.fq], {},
                       note="source events followed by the counter events (list.extend), written under <name><suffix>.json[.gz]" + (f"; changed: {missing}" if missing else "")))
    raw = extract.get_function(TR, "Trace.get_raw_trace_for_one_rank")
    rs = " ".join(ast.unparse(extract.stripped(raw)).split())
    fresh = "return parse_trace_dict(trace_filepath)" in rs
    cached = any(isinstance(n, ast.Attribute) and "cache" in n.attr.lower() or (isinstance(n, ast.Name) and "cache" in n.id.lower()) for n in ast.walk(raw.node))
    vcs.append(core.VC(f"{PROP}.get_raw_trace_for_one_rank.fresh_copy_per_call", [], z3.BoolVal(fresh and not cached), "vc", [raw.fq], {},
                       note="the writers mutate the returned dict in place, so every call must re-read the file (no cache shared between writes)"))
    o = extract.get_function(CPA, "CriticalPathAnalysis.overlay_critical_path_analysis")
    onode = extract.stripped(o)
    # marking loop executed symbolically on one event
    loops = [n for n in ast.walk(onode) if isinstance(n, ast.For) and isinstance(n.iter, ast.Call) and getattr(n.iter.func, "id", "") == "enumerate"]
    if len(loops) != 1:
        raise pyvc.Unsupported("marking loop of the overlay not found")
    loop = loops[0]
    ex = pyvc.Exec(name=f"{PROP}.overlay.mark")
    crit = pyvc.SymSet(z3.IntSort(), "critical_events")
    pos = z3.Int("ev_idx")
    writes: List[Any] = []

    class _Args:
        def hv_setitem(self, exq, k, v, pc):
            writes.append((list(pc), "args." + str(k), v))

        def __deepcopy__(self, memo):
            return self

    class _Event:
        def hv_getitem(self, exq, k, pc):
            if k == "args":
                return _Args()
            raise pyvc.Unsupported("event key read")

        def hv_setitem(self, exq, k, v, pc):
            writes.append((list(pc), str(k), v))

        def __deepcopy__(self, memo):
            return self

    env = {"critical_path_graph": pyvc.Record("CPGraph", {"critical_path_events_set": crit})}
    env = ex.assign(loop.target, (pos, _Event()), [], env)
    ex.exec_block(loop.body, [], env)
    cond = z3.Or(*[z3.And(*[to_z3(c) for c in pc]) if pc else z3.BoolVal(True) for pc, k, v in writes]) if writes else z3.BoolVal(False)
    only_flag = all(k == "args.critical" and v == 1 for _, k, v in writes)
    vcs.append(core.VC(f"{PROP}.overlay.marks_exactly_the_critical_events", [], z3.And(z3.BoolVal(only_flag and len(writes) == 1), cond == crit.has(pos)), "vc", [o.fq], {"ev_idx": pos},
                       note="event i gains args.critical = 1 iff i is in critical_path_events_set; no other key of any event is written"))
    os_ = " ".join(ast.unparse(onode).replace("'", '"').split())
    want_o = ["start_ev_id, end_ev_id = critical_path_graph.get_events_for_edge(e)", "start_ev, end_ev = (raw_events[start_ev_id], raw_events[end_ev_id])",
              "flow_events.append(get_flow_event(u, start_ev, e, flow_id, is_start=True))", "flow_events.append(get_flow_event(v, end_ev, e, flow_id, is_start=False))", "flow_id += 1",
              'overlaid_trace["traceEvents"].extend(flow_events)', "t.write_raw_trace(output_file, overlaid_trace)", 'pid=event["pid"]', 'tid=event["tid"]']
    mo = [x for x in want_o if x not in os_]
    vcs.append(core.VC(f"{PROP}.overlay.flow_pairs_and_append", [], z3.BoolVal(not mo), "vc", [o.fq], {},
                       note="per drawn edge one start and one end flow event with the same id on the pid/tid of the edge's two events; flow events are appended after the (kept) source events"
                            + (f"; changed: {mo}" if mo else "")))
    return vcs


# ---------------------------------------------------------------------------------------------- bounded

_FINDINGS: List[Dict[str, Any]] = []


def _load_json(path):
    with (gzip.open(path, "rt") if path.endswith(".gz") else open(path)) as fh:
        return json.load(fh)


def _case(seed: int) -> Dict[str, Any]:
    from hv import cpgen, rt
    from hta.common import trace_file as tfm

    gz = bool(seed % 2)
    evs = cpgen.gen_cp_events(seed, n_steps=3, n_streams=1 + seed % 3)
    for e in evs:  # Kineto writes args on every complete event; the overlay relies on it
        if e.get("ph") == "X":
            e.setdefault("args", {})["External id"] = 1
    fails: List[Dict[str, Any]] = []
    n = 0
    inp = {"seed": seed, "gz": gz, "events": {0: evs}}
    outdir = tempfile.mkdtemp(prefix="hv_c20_")
    try:
        with rt.trace_dir({0: evs}, gz=gz) as d:
            src_file = [os.path.join(d, x) for x in os.listdir(d)][0]
            src_doc = _load_json(src_file)
            src_events = copy.deepcopy(src_doc["traceEvents"])
            try:
                ta = rt.lib(fails, "load", inp, rt.load_analysis, d)
                # history on one object: counters, overlay, counters again, overlay with other options
                rt.lib(fails, "generate_trace_with_counters", inp, ta.generate_trace_with_counters, ranks=[0])
                cfile = src_file.replace(".json", "_with_counters.json")
                g = None
                try:
                    g, ok = rt.lib(fails, "critical_path_analysis", inp, ta.critical_path_analysis, rank=0, annotation="ProfilerStep", instance_id=0, _allow=(AssertionError,))
                except AssertionError:
                    ok = False
                steps = [("counters", None)]
                if ok:
                    steps += [("overlay", (False, False)), ("counters", None), ("overlay", (False, True)), ("overlay", (True, False))]
                first = True
                for kind, opt in steps:
                    if kind == "counters":
                        if not first:
                            rt.lib(fails, "generate_trace_with_counters(again)", inp, ta.generate_trace_with_counters, ranks=[0])
                        first = False
                        if not os.path.exists(cfile):
                            continue  # no counters for this trace
                        doc = rt.lib(fails, "read counters file", {**inp, "file": os.path.basename(cfile)}, _load_json, cfile)
                        out = doc["traceEvents"]
                        n += 1
                        if out[: len(src_events)] != src_events:
                            fails.append({"what": "counters.source_events_are_an_unchanged_prefix", "input": inp, "observed": "prefix differs / shorter", "expected": f"{len(src_events)} source events first"})
                        elif any(e.get("ph") != "C" for e in out[len(src_events):]):
                            fails.append({"what": "counters.only_counter_events_appended", "input": inp, "observed": [e for e in out[len(src_events):] if e.get("ph") != "C"][:3]})
                        if {k: v for k, v in doc.items() if k != "traceEvents"} != {k: v for k, v in src_doc.items() if k != "traceEvents"}:
                            fails.append({"what": "counters.metadata_unchanged", "input": inp, "observed": sorted(doc)})
                    else:
                        only_crit, all_edges = opt
                        ofile = rt.lib(fails, "overlay_critical_path_analysis", {**inp, "only_show_critical_events": only_crit, "show_all_edges": all_edges},
                                       ta.overlay_critical_path_analysis, 0, g, outdir, only_crit, all_edges)
                        doc = rt.lib(fails, "read overlay file", {**inp, "file": os.path.basename(ofile)}, _load_json, ofile)
                        out = doc["traceEvents"]
                        n += 1
                        crit = {int(x) for x in g.critical_path_events_set}
                        flows = [e for e in out if e.get("ph") in ("s", "f")]
                        body = [e for e in out if e.get("ph") not in ("s", "f")]
                        sel = {"only_show_critical_events": only_crit, "show_all_edges": all_edges}
                        if not only_crit:
                            expect = copy.deepcopy(src_events)
                            for i in crit:
                                expect[i].setdefault("args", {})["critical"] = 1
                            if body != expect:
                                bad_i = [i for i, (a, b) in enumerate(zip(body, expect)) if a != b][:3]
                                fails.append({"what": "overlay.source_events_kept_in_order_with_only_the_critical_marker", "input": {**inp, **sel}, "observed": {"differs_at": bad_i, "len": len(body)},
                                              "expected": {"len": len(expect)}})
                        else:
                            marked = [e for e in body if isinstance(e.get("args"), dict) and e["args"].get("critical") == 1]
                            if len(marked) != len(crit):
                                fails.append({"what": "overlay.marked_events_are_the_critical_events", "input": {**inp, **sel}, "observed": len(marked), "expected": len(crit)})
                        edges = list(g.critical_path_edges_set) if not all_edges or only_crit else [g.edges[u, v]["object"] for u, v in g.edges if not (g.edges[u, v]["object"].type.name == "KERNEL_LAUNCH_DELAY" and g.edges[u, v]["object"].weight == 0)]
                        ids = {}
                        for e in flows:
                            ids.setdefault(e["id"], []).append(e)
                        if len(flows) != 2 * len(edges) or any(len(v) != 2 or {x["ph"] for x in v} != {"s", "f"} for v in ids.values()):
                            fails.append({"what": "overlay.one_flow_pair_per_drawn_edge", "input": {**inp, **sel}, "observed": {"flow_events": len(flows), "ids": len(ids)}, "expected": {"edges": len(edges)}})
                        else:
                            want_pairs = sorted(((src_events[int(g.node_list[e.begin].ev_idx)]["pid"], src_events[int(g.node_list[e.begin].ev_idx)]["tid"]),
                                                 (src_events[int(g.node_list[e.end].ev_idx)]["pid"], src_events[int(g.node_list[e.end].ev_idx)]["tid"]), str(e.type.value)) for e in edges)
                            got_pairs = sorted((([x for x in v if x["ph"] == "s"][0]["pid"], [x for x in v if x["ph"] == "s"][0]["tid"]),
                                                ([x for x in v if x["ph"] == "f"][0]["pid"], [x for x in v if x["ph"] == "f"][0]["tid"]), v[0]["cat"]) for v in ids.values())
                            if want_pairs != got_pairs:
                                fails.append({"what": "overlay.flow_events_on_the_threads_of_the_joined_events", "input": {**inp, **sel}, "observed": got_pairs[:4], "expected": want_pairs[:4]})
                # the source file itself must be untouched
                if _load_json(src_file) != src_doc:
                    fails.append({"what": "source_file_untouched", "input": inp, "observed": "source trace file changed"})
            except rt.LibFailure:
                pass
            # trace-file helpers: round trip, rank update, rank discovery
            for suffix in (".json", ".json.gz"):
                p = os.path.join(outdir, f"copy_{seed}{suffix}")
                try:
                    rt.lib(fails, "write_trace", inp, tfm.write_trace, copy.deepcopy(src_doc), p)
                    back = rt.lib(fails, "read_trace", inp, tfm.read_trace, p)
                    n += 1
                    if back != src_doc:
                        fails.append({"what": "trace_file.read_write_round_trip", "input": {**inp, "suffix": suffix}, "observed": "document differs"})
                    newrank = 3 + seed % 5
                    rt.lib(fails, "update_trace_rank", inp, tfm.update_trace_rank, p, newrank)
                    upd = tfm.read_trace(p)
                    exp = copy.deepcopy(src_doc)
                    exp.setdefault("distributedInfo", {})["rank"] = newrank
                    if upd != exp:
                        fails.append({"what": "trace_file.update_rank_changes_only_the_rank", "input": {**inp, "suffix": suffix}, "observed": {k: upd.get(k) for k in upd if k != "traceEvents"}})
                    okd, mapping = rt.lib(fails, "create_rank_to_trace_dict", inp, tfm.create_rank_to_trace_dict, [p])
                    if mapping != {newrank: p}:
                        fails.append({"what": "trace_file.rank_discovery", "input": {**inp, "suffix": suffix}, "observed": {str(k): os.path.basename(v) for k, v in mapping.items()}, "expected": {str(newrank): os.path.basename(p)}})
                except rt.LibFailure:
                    pass
    finally:
        shutil.rmtree(outdir, ignore_errors=True)
    return {"n_checks": max(n, 1), "fails": fails, "nontrivial": n > 0, "sample": {"seed": seed, "gz": gz}}


def _rank_discovery_case(i: int) -> Dict[str, Any]:
    """files whose metadata rank must be found although other 'rank'-looking text exists / no metadata exists"""
    from hv import rt, synth
    from hta.common import trace_file as tfm

    fails: List[Dict[str, Any]] = []
    outdir = tempfile.mkdtemp(prefix="hv_c20r_")
    try:
        if i == 2:
            # several files in one call, none with a rank-like event argument: ranked, rank-less, ranked
            plain = [synth.host_op("aten::first", 10, 5), synth.host_op("aten::mm", 20, 5)]
            paths, exp = [], {}
            for k, (rank, suffix) in enumerate([(5, ".json"), (None, ".json.gz"), (7, ".json.gz"), (None, ".json")]):
                p = os.path.join(outdir, f"m{k}{suffix}")
                synth.write_doc(p, synth.trace_doc(copy.deepcopy(plain), rank=rank))
                paths.append(p)
                exp[rank if rank is not None else 0] = p  # later files win for a repeated rank (documented warning)
            inp = {"case": i, "files": [os.path.basename(p) for p in paths]}
            try:
                okd, mapping = rt.lib(fails, "create_rank_to_trace_dict", inp, tfm.create_rank_to_trace_dict, paths)
                if mapping != exp:
                    fails.append({"what": "rank_discovery_multi_file", "input": inp, "observed": {str(k): os.path.basename(v) for k, v in mapping.items()},
                                  "expected": {str(k): os.path.basename(v) for k, v in exp.items()}})
            except rt.LibFailure:
                pass
            return {"n_checks": 1, "fails": fails, "nontrivial": True, "sample": {"rank_discovery_case": i}}
        evs = [synth.host_op("aten::first", 10, 5), synth.host_op("nccl:all_reduce", 20, 5, **{"rank": 3})]
        files = {}
        for k, (rank, suffix) in enumerate([(5, ".json"), (6, ".json.gz"), (None, ".json")]):
            p = os.path.join(outdir, f"f{k}{suffix}")
            doc = synth.trace_doc(copy.deepcopy(evs), rank=rank)
            if i == 1 and rank is not None:
                # metadata after the events (as update_trace_rank writes it for files that had none)
                doc = {"schemaVersion": 1, "traceEvents": doc["traceEvents"], "distributedInfo": {"rank": rank}}
            synth.write_doc(p, doc)
            files[p] = rank
        inp = {"case": i, "files": {os.path.basename(k): v for k, v in files.items()}}
        for p, rank in files.items():
            try:
                okd, mapping = rt.lib(fails, "create_rank_to_trace_dict", inp, tfm.create_rank_to_trace_dict, [p])
            except rt.LibFailure:
                continue
            exp = {rank if rank is not None else 0: p}
            if mapping != exp:
                kf = [f for f in _FINDINGS if f.get("id") == KNOWN_D6B and f.get("status") == "known"]
                rec = {"what": "rank_discovery_reads_the_metadata_rank", "input": {**inp, "file": os.path.basename(p)}, "observed": {str(k): os.path.basename(v) for k, v in mapping.items()},
                       "expected": {str(k): os.path.basename(v) for k, v in exp.items()}}
                if kf:
                    rec["known"] = kf[0]
                fails.append(rec)
    finally:
        shutil.rmtree(outdir, ignore_errors=True)
    return {"n_checks": 3, "fails": fails, "nontrivial": True, "sample": {"rank_discovery_case": i}}


def bounded(ctx):
    from hv import rt

    _FINDINGS[:] = ctx.findings
    n = 24 if not ctx.thorough else 300
    res = rt.pmap(_rank_discovery_case, [0, 1, 2], 3) + rt.pmap(_case, [ctx.seed * 73 + i for i in range(n)], ctx.procs)
    return rt.summarise(res, f"{PROP}.bounded", f"{n} generated traces in .json / .json.gz, each with a five-step history on one TraceAnalysis object (counters, overlay, counters, overlay with "
                        "all edges, overlay with critical events only), trace-file round trips and rank updates; two rank-discovery cases with an event argument named rank")


def units(ctx):
    return [core.Unit(f"{PROP}.flow_event", flow_event_vcs, [TR + ".Trace.flow_event"]), core.Unit(f"{PROP}.suffix", suffix_vcs, [TR + ".Trace.write_raw_trace", TF + ".read_trace", TF + ".write_trace"]),
            core.Unit(f"{PROP}.writers", writers_vcs, [TA + ".TraceAnalysis.generate_trace_with_counters", CPA + ".CriticalPathAnalysis.overlay_critical_path_analysis"])]


SPEC = Spec(
    prop=PROP, level="other",
    functions=[(TR, "Trace.flow_event"), (TR, "Trace.write_raw_trace"), (TR, "Trace.get_raw_trace_for_one_rank"), (TF, "read_trace"), (TF, "write_trace"), (TF, "update_trace_rank"),
               (TF, "create_rank_to_trace_dict"), (TA, "TraceAnalysis.generate_trace_with_counters"), (CPA, "CriticalPathAnalysis.overlay_critical_path_analysis")],
    units=units, bounded=[Bounded("writers_vs_source", bounded)],
    trusted=["json.loads(json.dumps(x)) = x on JSON values; gzip round trip; list.extend appends", "every complete event of a real trace carries an args object (the overlay writes into it)"],
    explanation="Proved (z3 from the AST): flow_event's dict and the overlay's marking loop. By statement correspondence: suffix agreement of writer and readers, append-only structure of "
                "the writers, fresh raw trace per call, rank update. Bounded: the written files compared with the source events, multi-step histories, rank discovery.",
)
