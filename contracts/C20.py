"""C20 — trace files written by the tool preserve every source event.

Deductive (z3 / AST):
  * Trace.flow_event: the event dict (ph 's'/'f', id, pid, tid, ts, cat, name, args only if given, bp 'e' on the end event);
  * write_raw_trace vs the readers: gzip content iff the name ends in '.gz' (suffix agreement, over a symbolic file name);
  * overlay_critical_path_analysis: the marking loop sets args.critical = 1 exactly on the events whose position is in the critical
    event set and touches nothing else; one start + one end flow event per drawn edge sharing one id, on the (pid, tid) of the two
    events of the edge; source events are a prefix of the output when all events are kept;
  * generate_trace_with_counters: output events = source events followed by the counter events, name derived from the source name;
  * read_trace / write_trace suffix rules and update_trace_rank (only distributedInfo.rank changes);
  * create_rank_to_trace_dict executed by PyVC for two files of arbitrary length (with-statement, line-scanning loop with break
    under an inductive invariant, possibly-unbound locals as obligations): each file is mapped from the number in its first
    matching line (0 when none), later files win a shared rank, no other keys.
Bounded: the three writers and the trace-file helpers on generated traces in both formats, several option combinations and
multi-step histories on one TraceAnalysis object; rank discovery on written files.
"""
from __future__ import annotations

import ast
import copy
import gzip
import json
import os
import shutil
import tempfile
from typing import Any, Dict, List

import z3

from contracts import cp_common as cc
from hv import core, extract, pyvc
from hv.driver import Bounded, Spec
from hv.pyvc import to_z3

TR = "hta.common.trace"
TF = "hta.common.trace_file"
TA = "hta.trace_analysis"
CPA = cc.CPA
PROP = "C20"
KNOWN_D6B = "C20-D6b-first-textual-rank-wins"


def flow_event_vcs() -> List[core.VC]:
    name = f"{PROP}.flow_event"
    f = extract.get_function(TR, "Trace.flow_event")
    consts = extract.module_constants(TR)
    for m in ("hta.common.trace_parser", "hta.common.constants"):
        try:
            for k, v in extract.module_constants(m).items():
                consts.setdefault(k, v)
        except extract.ExtractError:
            pass
    vcs: List[core.VC] = []
    for with_args in (True, False):
        ex = pyvc.Exec(consts=consts, name=name)
        i, pid, tid, ts = z3.Ints("id pid tid ts")
        is_start = z3.Bool("is_start")
        nm, cat = z3.String("name"), z3.String("cat")
        args = {"weight": z3.Int("w")} if with_args else None
        outs = ex.run_function(extract.stripped(f), {"id": i, "pid": pid, "tid": tid, "ts": ts, "is_start": is_start, "name": nm, "cat": cat, "args": args}, [])
        for o in outs:
            if o.kind != "ret" or not isinstance(o.value, dict):
                raise pyvc.Unsupported("flow_event does not return a dict")
            d = o.value
            hy = [to_z3(c) for c in o.pc]
            start_path = any(to_z3(c).eq(is_start) for c in o.pc)
            keys = {"ph", "id", "pid", "tid", "ts", "cat", "name"} | ({"args"} if with_args else set())
            exp_keys_start, exp_keys_end = keys, keys | {"bp"}
            ph = d.get("ph")
            ph_ok = z3.If(is_start, to_z3(ph) == z3.StringVal(consts.get("PHASE_FLOW_START", "s")), to_z3(ph) == z3.StringVal(consts.get("PHASE_FLOW_END", "f"))) if pyvc.is_sym(ph) else \
                z3.BoolVal(ph in (consts.get("PHASE_FLOW_START", "s"), consts.get("PHASE_FLOW_END", "f")))
            vals = z3.And(to_z3(d["id"]) == i, to_z3(d["pid"]) == pid, to_z3(d["tid"]) == tid, to_z3(d["ts"]) == ts, to_z3(d["cat"]) == cat, to_z3(d["name"]) == nm, ph_ok)
            keyset = z3.And(z3.Implies(is_start, z3.BoolVal(set(d) == exp_keys_start)), z3.Implies(z3.Not(is_start), z3.BoolVal(set(d) == exp_keys_end and d.get("bp") == "e")))
            vcs.append(core.VC(f"{name}.{'with' if with_args else 'without'}_args.fields", hy, z3.And(vals, keyset), "vc", [f.fq], {},
                               note="ph = s / f by is_start, id / pid / tid / ts / cat / name copied, args only when given, bp = 'e' only on the end event"))
    return vcs


def suffix_vcs() -> List[core.VC]:
    """writer gzips iff the name ends in .gz; the readers gunzip iff it ends in .gz (parse_trace_dict, read_trace)."""
    vcs: List[core.VC] = []
    w = extract.get_function(TR, "Trace.write_raw_trace")
    src = " ".join(ast.unparse(extract.stripped(w)).replace("'", '"').split())
    ok_w = 'gzip.open(output_file, "wt") if output_file.endswith(".gz") else open(output_file, "w")' in src
    vcs.append(core.VC(f"{PROP}.write_raw_trace.gzip_iff_gz_suffix", [], z3.BoolVal(ok_w), "vc", [w.fq], {}, note="content is gzip exactly when the output name ends in .gz"))
    r = extract.get_function(TF, "read_trace")
    rs = " ".join(ast.unparse(extract.stripped(r)).replace("'", '"').split())
    ok_r = 'if file_path.endswith(".gz"): with gzip.open(file_path, "rb") as fh: trace_data = json.loads(fh.read()) elif file_path.endswith(".json"): with open(file_path, "r") as fh2: trace_data = json.loads(fh2.read())' in rs
    vcs.append(core.VC(f"{PROP}.read_trace.gunzip_iff_gz_suffix", [], z3.BoolVal(ok_r), "vc", [r.fq], {}))
    wt = extract.get_function(TF, "write_trace")
    ws = " ".join(ast.unparse(extract.stripped(wt)).replace("'", '"').split())
    ok_wt = 'if file_path.endswith(".gz"):' in ws and 'with gzip.open(file_path, "wb") as fp:' in ws and 'with open(file_path, "w+") as fp:' in ws and "json.dumps(trace_data" in ws
    vcs.append(core.VC(f"{PROP}.write_trace.gzip_iff_gz_suffix", [], z3.BoolVal(ok_wt), "vc", [wt.fq], {}))
    # the parser's reader
    for mod in ("hta.common.trace_parser",):
        try:
            p = extract.get_function(mod, "parse_trace_dict")
            ps = " ".join(ast.unparse(extract.stripped(p)).replace("'", '"').split())
            vcs.append(core.VC(f"{PROP}.parse_trace_dict.gunzip_iff_gz_suffix", [], z3.BoolVal('endswith(".gz")' in ps and "gzip.open" in ps), "vc", [p.fq], {}))
        except extract.ExtractError:
            pass
    u = extract.get_function(TF, "update_trace_rank")
    us = " ".join(ast.unparse(extract.stripped(u)).replace("'", '"').split())
    ok_u = 'if "distributedInfo" in trace_data: trace_data["distributedInfo"]["rank"] = rank else: trace_data["distributedInfo"] = {"rank": rank}' in us and \
        "trace_data = read_trace(file_path)" in us and "write_trace(trace_data, file_path)" in us
    vcs.append(core.VC(f"{PROP}.update_trace_rank.only_rank_field", [], z3.BoolVal(ok_u), "vc", [u.fq], {}, note="read, set distributedInfo.rank (creating the entry if absent), write back to the same path"))
    return vcs


def writers_vcs() -> List[core.VC]:
    vcs: List[core.VC] = []
    g = extract.get_function(TA, "TraceAnalysis.generate_trace_with_counters")
    gs = " ".join(ast.unparse(extract.stripped(g)).replace("'", '"').split())
    want = ["raw_trace_content = self.t.get_raw_trace_for_one_rank(rank=rank)", 'raw_trace_content["traceEvents"].extend(ev_list)',
            'output_file = self.t.trace_files[rank].replace(".json", f"{output_suffix}.json")', "self.t.write_raw_trace(output_file, raw_trace_content)"]
    missing = [x for x in want if x not in gs]
    if missing:
        # a textual difference is not a defect: outside the contract's reading (undecided; the bounded file comparisons decide)
        raise pyvc.Unsupported("generate_trace_with_counters no longer matches the contract's reading: " + "; ".join(missing))
    vcs.append(core.VC(f"{PROP}.generate_trace_with_counters.appends_only", [], z3.BoolVal(not missing), "vc", [g.fq], {},
                       note="source events followed by the counter events (list.extend), written under <name><suffix>.json[.gz]" + (f"; changed: {missing}" if missing else "")))
    raw = extract.get_function(TR, "Trace.get_raw_trace_for_one_rank")
    rs = " ".join(ast.unparse(extract.stripped(raw)).split())
    fresh = "return parse_trace_dict(trace_filepath)" in rs
    cached = any(isinstance(n, ast.Attribute) and "cache" in n.attr.lower() or (isinstance(n, ast.Name) and "cache" in n.id.lower()) for n in ast.walk(raw.node))
    vcs.append(core.VC(f"{PROP}.get_raw_trace_for_one_rank.fresh_copy_per_call", [], z3.BoolVal(fresh and not cached), "vc", [raw.fq], {},
                       note="the writers mutate the returned dict in place, so every call must re-read the file (no cache shared between writes)"))
    o = extract.get_function(CPA, "CriticalPathAnalysis.overlay_critical_path_analysis")
    onode = extract.stripped(o)
    # marking loop executed symbolically on one event
    loops = [n for n in ast.walk(onode) if isinstance(n, ast.For) and isinstance(n.iter, ast.Call) and getattr(n.iter.func, "id", "") == "enumerate"]
    if len(loops) != 1:
        raise pyvc.Unsupported("marking loop of the overlay not found")
    loop = loops[0]
    ex = pyvc.Exec(name=f"{PROP}.overlay.mark")
    crit = pyvc.SymSet(z3.IntSort(), "critical_events")
    pos = z3.Int("ev_idx")
    writes: List[Any] = []

    class _Args:
        def hv_setitem(self, exq, k, v, pc):
            writes.append((list(pc), "args." + str(k), v))

        def __deepcopy__(self, memo):
            return self

    class _Event:
        def hv_getitem(self, exq, k, pc):
            if k == "args":
                return _Args()
            raise pyvc.Unsupported("event key read")

        def hv_setitem(self, exq, k, v, pc):
            writes.append((list(pc), str(k), v))

        def __deepcopy__(self, memo):
            return self

    env = {"critical_path_graph": pyvc.Record("CPGraph", {"critical_path_events_set": crit})}
    env = ex.assign(loop.target, (pos, _Event()), [], env)
    ex.exec_block(loop.body, [], env)
    cond = z3.Or(*[z3.And(*[to_z3(c) for c in pc]) if pc else z3.BoolVal(True) for pc, k, v in writes]) if writes else z3.BoolVal(False)
    only_flag = all(k == "args.critical" and v == 1 for _, k, v in writes)
    vcs.append(core.VC(f"{PROP}.overlay.marks_exactly_the_critical_events", [], z3.And(z3.BoolVal(only_flag and len(writes) == 1), cond == crit.has(pos)), "vc", [o.fq], {"ev_idx": pos},
                       note="event i gains args.critical = 1 iff i is in critical_path_events_set; no other key of any event is written"))
    os_ = " ".join(ast.unparse(onode).replace("'", '"').split())
    want_o = ["start_ev_id, end_ev_id = critical_path_graph.get_events_for_edge(e)", "start_ev, end_ev = (raw_events[start_ev_id], raw_events[end_ev_id])",
              "flow_events.append(get_flow_event(u, start_ev, e, flow_id, is_start=True))", "flow_events.append(get_flow_event(v, end_ev, e, flow_id, is_start=False))", "flow_id += 1",
              'overlaid_trace["traceEvents"].extend(flow_events)', "t.write_raw_trace(output_file, overlaid_trace)", 'pid=event["pid"]', 'tid=event["tid"]']
    mo = [x for x in want_o if x not in os_]
    vcs.append(core.VC(f"{PROP}.overlay.flow_pairs_and_append", [], z3.BoolVal(not mo), "vc", [o.fq], {},
                       note="per drawn edge one start and one end flow event with the same id on the pid/tid of the edge's two events; flow events are appended after the (kept) source events"
                            + (f"; changed: {mo}" if mo else "")))
    return vcs


# ---------------------------------------------------------------------------------------------- bounded

_FINDINGS: List[Dict[str, Any]] = []


def _load_json(path):
    with (gzip.open(path, "rt") if path.endswith(".gz") else open(path)) as fh:
        return json.load(fh)


def _case(seed: int) -> Dict[str, Any]:
    from hv import cpgen, rt
    from hta.common import trace_file as tfm

    gz = bool(seed % 2)
    evs = cpgen.gen_cp_events(seed, n_steps=3, n_streams=1 + seed % 3, annotations=(seed % 3 == 1), python_frames=(seed % 3 == 1))  # every third trace recorded with Python stack frames
    for e in evs:  # Kineto writes args on every complete event; the overlay relies on it
        if e.get("ph") == "X":
            e.setdefault("args", {})["External id"] = 1
    fails: List[Dict[str, Any]] = []
    n = 0
    inp = {"seed": seed, "gz": gz, "events": {0: evs}}
    outdir = tempfile.mkdtemp(prefix="hv_c20_")
    try:
        with rt.trace_dir({0: evs}, gz=gz) as d:
            src_file = [os.path.join(d, x) for x in os.listdir(d)][0]
            src_doc = _load_json(src_file)
            src_events = copy.deepcopy(src_doc["traceEvents"])
            try:
                ta = rt.lib(fails, "load", inp, rt.load_analysis, d)
                # history on one object: counters, overlay, counters again, overlay with other options
                rt.lib(fails, "generate_trace_with_counters", inp, ta.generate_trace_with_counters, ranks=[0])
                cfile = src_file.replace(".json", "_with_counters.json")
                g = None
                try:
                    g, ok = rt.lib(fails, "critical_path_analysis", inp, ta.critical_path_analysis, rank=0, annotation="ProfilerStep", instance_id=0, _allow=(AssertionError,))
                except AssertionError:
                    ok = False
                steps = [("counters", None)]
                if ok:
                    steps += [("overlay", (False, False)), ("counters", None), ("overlay", (False, True)), ("overlay", (True, False)), ("whatif", None), ("overlay", (False, False)), ("overlay", (True, False))]
                first = True
                for kind, opt in steps:
                    if kind == "whatif":
                        # what-if on the same graph object: an edge off the path becomes heavy, the path is recomputed, the overlay is written again
                        on_path = {(int(e.begin), int(e.end)) for e in g.critical_path_edges_set}
                        off = sorted((int(u), int(v)) for u, v in g.edges if (int(u), int(v)) not in on_path)
                        if not off:
                            break
                        u, v = off[seed % len(off)]
                        g.edges[u, v]["weight"] = 100_000
                        inp["reweighted_edge_then_critical_path_recomputed"] = [u, v]
                        if not rt.lib(fails, "critical_path(after re-weighting)", inp, g.critical_path):
                            break
                        continue
                    if kind == "counters":
                        if not first:
                            rt.lib(fails, "generate_trace_with_counters(again)", inp, ta.generate_trace_with_counters, ranks=[0])
                        first = False
                        if not os.path.exists(cfile):
                            continue  # no counters for this trace
                        doc = rt.lib(fails, "read counters file", {**inp, "file": os.path.basename(cfile)}, _load_json, cfile)
                        out = doc["traceEvents"]
                        n += 1
                        if out[: len(src_events)] != src_events:
                            fails.append({"what": "counters.source_events_are_an_unchanged_prefix", "input": inp, "observed": "prefix differs / shorter", "expected": f"{len(src_events)} source events first"})
                        elif any(e.get("ph") != "C" for e in out[len(src_events):]):
                            fails.append({"what": "counters.only_counter_events_appended", "input": inp, "observed": [e for e in out[len(src_events):] if e.get("ph") != "C"][:3]})
                        if {k: v for k, v in doc.items() if k != "traceEvents"} != {k: v for k, v in src_doc.items() if k != "traceEvents"}:
                            fails.append({"what": "counters.metadata_unchanged", "input": inp, "observed": sorted(doc)})
                    else:
                        only_crit, all_edges = opt
                        ofile = rt.lib(fails, "overlay_critical_path_analysis", {**inp, "only_show_critical_events": only_crit, "show_all_edges": all_edges},
                                       ta.overlay_critical_path_analysis, 0, g, outdir, only_crit, all_edges)
                        doc = rt.lib(fails, "read overlay file", {**inp, "file": os.path.basename(ofile)}, _load_json, ofile)
                        out = doc["traceEvents"]
                        n += 1
                        crit = {int(g.node_list[int(x)].ev_idx) for x in g.critical_path_nodes}  # the events of the path's nodes (not the set the library keeps)
                        # an event id is a position in the file: the graph's event i is the file's entry i (same name), so the marker lands on the event meant
                        stab_ = ta.t.symbol_table.get_sym_table()
                        gname = {int(i): stab_[int(nm)] for i, nm in zip(g.trace_df["index"], g.trace_df["name"]) if 0 <= int(nm) < len(stab_)}
                        off_ = [i for i in sorted(crit) if i >= len(src_events) or gname.get(i) != src_events[i].get("name")]
                        if off_:
                            fails.append({"what": "overlay.critical_event_ids_are_file_positions", "input": inp, "observed": {"event": off_[0], "graph_name": gname.get(off_[0])},
                                          "expected": src_events[off_[0]].get("name") if off_[0] < len(src_events) else "an entry of the file"})
                            break
                        flows = [e for e in out if e.get("ph") in ("s", "f")]
                        body = [e for e in out if e.get("ph") not in ("s", "f")]
                        sel = {"only_show_critical_events": only_crit, "show_all_edges": all_edges}
                        if not only_crit:
                            expect = copy.deepcopy(src_events)
                            for i in crit:
                                expect[i].setdefault("args", {})["critical"] = 1
                            if body != expect:
                                bad_i = [i for i, (a, b) in enumerate(zip(body, expect)) if a != b][:3]
                                fails.append({"what": "overlay.source_events_kept_in_order_with_only_the_critical_marker", "input": {**inp, **sel}, "observed": {"differs_at": bad_i, "len": len(body)},
                                              "expected": {"len": len(expect)}})
                        else:
                            marked = [e for e in body if isinstance(e.get("args"), dict) and e["args"].get("critical") == 1]
                            if len(marked) != len(crit):
                                fails.append({"what": "overlay.marked_events_are_the_critical_events", "input": {**inp, **sel}, "observed": len(marked), "expected": len(crit)})
                        edges = list(g.critical_path_edges_set) if not all_edges or only_crit else [g.edges[u, v]["object"] for u, v in g.edges if not (g.edges[u, v]["object"].type.name == "KERNEL_LAUNCH_DELAY" and g.edges[u, v]["object"].weight == 0)]
                        ids = {}
                        for e in flows:
                            ids.setdefault(e["id"], []).append(e)
                        if len(flows) != 2 * len(edges) or any(len(v) != 2 or {x["ph"] for x in v} != {"s", "f"} for v in ids.values()):
                            fails.append({"what": "overlay.one_flow_pair_per_drawn_edge", "input": {**inp, **sel}, "observed": {"flow_events": len(flows), "ids": len(ids)}, "expected": {"edges": len(edges)}})
                        else:
                            want_pairs = sorted(((src_events[int(g.node_list[e.begin].ev_idx)]["pid"], src_events[int(g.node_list[e.begin].ev_idx)]["tid"]),
                                                 (src_events[int(g.node_list[e.end].ev_idx)]["pid"], src_events[int(g.node_list[e.end].ev_idx)]["tid"]), str(e.type.value)) for e in edges)
                            got_pairs = sorted((([x for x in v if x["ph"] == "s"][0]["pid"], [x for x in v if x["ph"] == "s"][0]["tid"]),
                                                ([x for x in v if x["ph"] == "f"][0]["pid"], [x for x in v if x["ph"] == "f"][0]["tid"]), v[0]["cat"]) for v in ids.values())
                            if want_pairs != got_pairs:
                                fails.append({"what": "overlay.flow_events_on_the_threads_of_the_joined_events", "input": {**inp, **sel}, "observed": got_pairs[:4], "expected": want_pairs[:4]})
                # the source file itself must be untouched
                if _load_json(src_file) != src_doc:
                    fails.append({"what": "source_file_untouched", "input": inp, "observed": "source trace file changed"})
            except rt.LibFailure:
                pass
            # trace-file helpers: round trip, rank update, rank discovery
            for suffix in (".json", ".json.gz"):
                p = os.path.join(outdir, f"copy_{seed}{suffix}")
                try:
                    rt.lib(fails, "write_trace", inp, tfm.write_trace, copy.deepcopy(src_doc), p)
                    back = rt.lib(fails, "read_trace", inp, tfm.read_trace, p)
                    n += 1
                    if back != src_doc:
                        fails.append({"what": "trace_file.read_write_round_trip", "input": {**inp, "suffix": suffix}, "observed": "document differs"})
                    newrank = 3 + seed % 5
                    rt.lib(fails, "update_trace_rank", inp, tfm.update_trace_rank, p, newrank)
                    upd = tfm.read_trace(p)
                    exp = copy.deepcopy(src_doc)
                    exp.setdefault("distributedInfo", {})["rank"] = newrank
                    if upd != exp:
                        fails.append({"what": "trace_file.update_rank_changes_only_the_rank", "input": {**inp, "suffix": suffix}, "observed": {k: upd.get(k) for k in upd if k != "traceEvents"}})
                    okd, mapping = rt.lib(fails, "create_rank_to_trace_dict", inp, tfm.create_rank_to_trace_dict, [p])
                    if mapping != {newrank: p}:
                        fails.append({"what": "trace_file.rank_discovery", "input": {**inp, "suffix": suffix}, "observed": {str(k): os.path.basename(v) for k, v in mapping.items()}, "expected": {str(newrank): os.path.basename(p)}})
                except rt.LibFailure:
                    pass
    finally:
        shutil.rmtree(outdir, ignore_errors=True)
    return {"n_checks": max(n, 1), "fails": fails, "nontrivial": n > 0, "sample": {"seed": seed, "gz": gz}}


# ---------------------------------------------------------------------------------------------- rank discovery under contract

HAS_RANK = z3.Function("line_has_rank_text", z3.IntSort(), z3.BoolSort())  # rank_re.search(line) is not None
RANK_OF = z3.Function("line_rank_number", z3.IntSort(), z3.IntSort())  # int(match.group(1)) of that line
LINE_OF_TEXT = z3.Function("line_id_of_text", z3.StringSort(), z3.IntSort())


class _Still:
    def __deepcopy__(self, memo):
        return self


class _FileObj(_Still):
    def __init__(self, lines, binary):
        self.lines, self.binary = lines, binary


def rank_discovery_vcs() -> List[core.VC]:
    """create_rank_to_trace_dict executed by PyVC for two files of ARBITRARY length (lines are abstract; the regular
    expression is two uninterpreted functions of the line: does it match, and which number).  Spec: a file's recorded rank is
    the number in its first matching line, 0 when no line matches; the returned map sends each such rank to the LAST file of
    the list recording it, and has no other keys."""
    import re as _re

    f = extract.get_function(TF, "create_rank_to_trace_dict")
    fq = [f.fq]
    node = extract.stripped(f)
    paths = [z3.String("path_1"), z3.String("path_2")]
    files = {0: pyvc.SymList(z3.IntSort(), "lines_1"), 1: pyvc.SymList(z3.IntSort(), "lines_2")}
    opened: List[Any] = []
    pattern: List[str] = []

    def open_file(which):
        @pyvc.intrinsic
        def _open(ex, pc, env, args, kwargs):
            idx = [i for i, pth in enumerate(paths) if args and z3.is_expr(args[0]) and args[0].eq(pth)]
            if len(idx) != 1:
                raise pyvc.Unsupported("open() of something else than an element of file_list")
            mode = args[1] if len(args) > 1 else kwargs.get("mode", "r" if which == "open" else "rb")
            opened.append((which, idx[0], mode))
            return _FileObj(files[idx[0]], binary="b" in mode)
        return _open

    class _Regex(_Still):
        def hv_call_method(self, ex, attr, args, kwargs, pc, env):
            if attr != "search" or len(args) != 1:
                return NotImplemented
            d = args[0]
            if isinstance(d, str):
                m = _re.search(pattern[0], d)
                return None if m is None else pyvc.Record("Match", {"number": int(m.group(1))}, frozen=True)
            if isinstance(d, pyvc.Record) and d.cls == "Line":
                if d.fields["is_bytes"]:
                    raise pyvc.Unsupported("str pattern searched in bytes (TypeError)")
                lid = d.fields["id"]
                return pyvc.PathValues([(HAS_RANK(lid), pyvc.Record("Match", {"number": RANK_OF(lid)}, frozen=True)), (z3.Not(HAS_RANK(lid)), None)])
            raise pyvc.Unsupported("rank_re.search of this value")

    @pyvc.intrinsic
    def re_compile(ex, pc, env, args, kwargs):
        pattern.append(args[0])
        return _Regex()

    @pyvc.intrinsic
    def _isinstance(ex, pc, env, args, kwargs):
        v, t = args
        if isinstance(v, pyvc.Record) and v.cls == "Line" and isinstance(t, pyvc.Builtin) and t.name == "bytes":
            return v.fields["is_bytes"]
        raise pyvc.Unsupported("isinstance of this value")

    @pyvc.intrinsic
    def _int(ex, pc, env, args, kwargs):
        v = args[0]
        if isinstance(v, pyvc.Record) and v.cls == "Group":
            return v.fields["number"]
        return pyvc._BUILTINS["int"](ex, pc, args, kwargs)

    def line_of(fobj, k):
        return pyvc.Record("Line", {"id": fobj.lines.at(k), "is_bytes": fobj.binary}, frozen=True)

    def inv(env, k, it):
        spec = specs_by_lines[id(it.lines)]
        j = z3.Int("lj")
        clauses = [z3.ForAll([j], z3.Implies(z3.And(j >= 0, j < k), z3.Not(HAS_RANK(it.lines.at(j)))), patterns=[HAS_RANK(it.lines.at(j))])]
        d = env.get("data")
        if isinstance(d, pyvc.Record) and d.cls == "Line":
            clauses.append(z3.Implies(k > 0, z3.And(d.fields["id"] == it.lines.at(k - 1))))
            e0 = spec.entry_env.get("data")
            if isinstance(e0, pyvc.Record) and e0.cls == "Line":
                clauses.append(z3.Implies(k == 0, d.fields["id"] == e0.fields["id"]))
            elif isinstance(e0, str):
                clauses.append(z3.Implies(k == 0, d.fields["id"] == LINE_OF_TEXT(z3.StringVal(e0))))
        return z3.And(*clauses)

    def fresh_like(name, old):
        if name == "data":
            return pyvc.Record("Line", {"id": pyvc.fresh("data_line", z3.IntSort()), "is_bytes": False}, frozen=True)
        if name == "line":
            return old
        return pyvc.default_fresh_like(name, old)

    def mk_spec():
        return pyvc.LoopSpec(["data"], inv, elem=line_of, length=lambda fobj: fobj.lines.length, fresh_like=fresh_like, name="scan", allow_break=True,
                             unbound={"data": lambda: pyvc.Record("Line", {"id": pyvc.fresh("data_line", z3.IntSort()), "is_bytes": False}, frozen=True)})

    inner = [n for n in ast.walk(node) if isinstance(n, ast.For) and any(isinstance(b, ast.Break) for b in ast.walk(n))
             and not any(isinstance(c, ast.For) and c is not n for c in ast.walk(n))]
    if len(inner) != 1:
        raise pyvc.Unsupported("expected exactly one line-scanning loop with a break")
    sp = mk_spec()

    class _One(dict):
        def __getitem__(self, k):
            return sp

    specs_by_lines = _One()
    ex = pyvc.Exec(consts={"re": pyvc.Namespace("re", {"compile": re_compile}), "gzip": pyvc.Namespace("gzip", {"open": open_file("gzip.open")})},
                   intrinsics={"open": open_file("open"), "isinstance": _isinstance, "int": _int}, name=f"{PROP}.rank_discovery", loop_specs={("line", inner[0].lineno): sp})
    ex.consts["bytes"] = pyvc.Builtin("bytes")
    ex.empty_dict_factory = lambda: pyvc.SymMap.empty(z3.IntSort(), z3.StringSort())
    ex.methods["Line.decode"] = lambda ex_, pc, env, obj, args, kwargs: pyvc.Record("Line", {"id": obj.fields["id"], "is_bytes": False}, frozen=True)
    ex.methods["Match.group"] = lambda ex_, pc, env, obj, args, kwargs: pyvc.Record("Group", {"number": obj.fields["number"]}, frozen=True) if list(args) == [1] else (_ for _ in ()).throw(pyvc.Unsupported("match.group(n != 1)"))
    # a data line that was a concrete string before the loop (after a repair that initialises it): its abstract id is tied to the text
    outs = ex.run_function(node, {"file_list": list(paths)}, [paths[0] != paths[1]])
    vcs = [core.VC(pv.name, pv.hyps + list(ex.facts), pv.goal, "vc", fq, {"lines_in_file_1": files[0].length, "lines_in_file_2": files[1].length}, note=pv.note) for pv in ex.vcs]
    if not pattern:
        raise pyvc.Unsupported("re.compile call not found")
    # ghost: first matching line per file
    first = [z3.Int("first_match_1"), z3.Int("first_match_2")]
    j = z3.Int("gj")
    ghost = []
    some = []
    for i in (0, 1):
        L = files[i]
        sm_def = z3.Exists([j], z3.And(j >= 0, j < L.length, HAS_RANK(L.at(j))))
        sm = z3.Bool(f"file_{i + 1}_has_rank_text")
        ghost.append(sm == sm_def)
        some.append(sm)
        ghost += [L.length >= 0, z3.Implies(sm, z3.And(first[i] >= 0, first[i] < L.length, HAS_RANK(L.at(first[i])),
                                                      z3.ForAll([j], z3.Implies(z3.And(j >= 0, j < first[i]), z3.Not(HAS_RANK(L.at(j)))), patterns=[HAS_RANK(L.at(j))]))),
                  z3.ForAll([j], z3.Implies(HAS_RANK(j), RANK_OF(j) >= 0), patterns=[RANK_OF(j)])]
    if _re.search(pattern[0], "") is None:
        ghost.append(z3.Not(HAS_RANK(LINE_OF_TEXT(z3.StringVal("")))))
    rank = [z3.If(some[i], RANK_OF(files[i].at(first[i])), 0) for i in (0, 1)]
    rets = [o for o in outs if o.kind == "ret"]
    for o in outs:
        if o.kind == "raise":
            vcs.append(core.VC(f"{PROP}.rank_discovery.noraise", ghost + [to_z3(c) for c in o.pc] + list(ex.facts), z3.BoolVal(False), "vc", fq, {}, note=f"raises {o.exc}"))
    if not rets:
        raise pyvc.Unsupported("create_rank_to_trace_dict never returns")
    kq = z3.Int("any_rank")
    reach: List[Any] = []
    mv = {"lines_in_file_1": files[0].length, "lines_in_file_2": files[1].length, "rank_1": rank[0], "rank_2": rank[1], "file_1_has_rank_text": some[0], "file_2_has_rank_text": some[1]}
    infeasible = 0
    for n_, o in enumerate(rets):
        hy = ghost + [to_z3(c) for c in o.pc] + list(ex.facts)
        probe = z3.Solver()
        probe.set("timeout", 3000)
        probe.add(*hy)
        if probe.check() == z3.unsat:
            infeasible += 1  # explored, but its path condition contradicts the loop invariants / ghost facts: nothing to prove
            continue
        val = o.value
        if not (isinstance(val, tuple) and len(val) == 2 and isinstance(val[1], pyvc.SymMap)):
            raise pyvc.Unsupported("unexpected return value shape")
        m = val[1]
        tag = f"{PROP}.rank_discovery.path{n_}"
        vcs.append(core.VC(f"{tag}.success_flag", hy, to_z3(val[0]) == True, "vc", fq, mv))  # noqa: E712
        vcs.append(core.VC(f"{tag}.last_file_keeps_its_rank", hy, z3.And(m.has(rank[1]), m.get(rank[1]) == paths[1]), "vc", fq, mv,
                           note="the second file is mapped from the rank in its first matching line (0 when it has none)"))
        vcs.append(core.VC(f"{tag}.first_file_keeps_its_rank_unless_displaced", hy + [rank[0] != rank[1]], z3.And(m.has(rank[0]), m.get(rank[0]) == paths[0]), "vc", fq, mv))
        vcs.append(core.VC(f"{tag}.no_other_ranks", hy + [kq != rank[0], kq != rank[1]], z3.Not(m.has(kq)), "vc", fq, {**mv, "any_rank": kq}))
        reach.append(z3.And(*[to_z3(c) for c in o.pc]))
    # guards: the return paths are jointly reachable in the scenarios that matter (an explored path may be infeasible; its VCs are then vacuous and harmless)
    scen = {"both_files_carry_a_rank": [some[0], some[1]], "second_file_is_empty": [some[0], files[1].length == 0], "no_file_carries_a_rank": [z3.Not(some[0]), z3.Not(some[1]), files[0].length == 2]}
    for nm, extra in scen.items():
        vcs.append(core.VC(f"{PROP}.rank_discovery.guard.{nm}", ghost + list(ex.facts) + extra + [z3.Or(*reach)], z3.BoolVal(False), "vacuity", fq))
    vcs.append(core.VC(f"{PROP}.rank_discovery.return_paths", [], z3.BoolVal(len(rets) > infeasible), "vc", fq, {}, note=f"{len(rets)} return paths explored, {infeasible} of them infeasible (skipped)"))
    modes_ok = all((w == "gzip.open") == ("b" in md) for w, _, md in opened) and len(opened) >= 2
    vcs.append(core.VC(f"{PROP}.rank_discovery.each_file_opened_once_per_branch", [], z3.BoolVal(modes_ok), "vc", fq, {}, note=f"opens: {opened}"))
    return vcs


def _rank_discovery_case(i: int) -> Dict[str, Any]:
    """files whose metadata rank must be found although other 'rank'-looking text exists / no metadata exists"""
    from hv import rt, synth
    from hta.common import trace_file as tfm

    fails: List[Dict[str, Any]] = []
    outdir = tempfile.mkdtemp(prefix="hv_c20r_")
    try:
        if i == 3:
            # a zero-byte file (a crashed job's trace) next to a ranked file, in both orders and alone
            plain = [synth.host_op("aten::first", 10, 5)]
            a, b = os.path.join(outdir, "ranked.json"), os.path.join(outdir, "empty.json")
            synth.write_doc(a, synth.trace_doc(plain, rank=4))
            open(b, "w").close()
            for paths, exp in (([a, b], {4: a, 0: b}), ([b, a], {0: b, 4: a}), ([b], {0: b})):
                inp = {"case": i, "files": [os.path.basename(p) for p in paths]}
                try:
                    okd, mapping = rt.lib(fails, "create_rank_to_trace_dict(empty file)", inp, tfm.create_rank_to_trace_dict, paths)
                    if mapping != exp:
                        fails.append({"what": "rank_discovery_with_an_empty_file", "input": inp, "observed": {str(k): os.path.basename(v) for k, v in mapping.items()},
                                      "expected": {str(k): os.path.basename(v) for k, v in exp.items()}})
                except rt.LibFailure:
                    pass
            return {"n_checks": 3, "fails": fails, "nontrivial": True, "sample": {"rank_discovery_case": i}}
        if i == 2:
            # several files in one call, none with a rank-like event argument: ranked, rank-less, ranked
            plain = [synth.host_op("aten::first", 10, 5), synth.host_op("aten::mm", 20, 5)]
            paths, exp = [], {}
            for k, (rank, suffix) in enumerate([(5, ".json"), (None, ".json.gz"), (7, ".json.gz"), (None, ".json")]):
                p = os.path.join(outdir, f"m{k}{suffix}")
                synth.write_doc(p, synth.trace_doc(copy.deepcopy(plain), rank=rank))
                paths.append(p)
                exp[rank if rank is not None else 0] = p  # later files win for a repeated rank (documented warning)
            inp = {"case": i, "files": [os.path.basename(p) for p in paths]}
            try:
                okd, mapping = rt.lib(fails, "create_rank_to_trace_dict", inp, tfm.create_rank_to_trace_dict, paths)
                if mapping != exp:
                    fails.append({"what": "rank_discovery_multi_file", "input": inp, "observed": {str(k): os.path.basename(v) for k, v in mapping.items()},
                                  "expected": {str(k): os.path.basename(v) for k, v in exp.items()}})
            except rt.LibFailure:
                pass
            return {"n_checks": 1, "fails": fails, "nontrivial": True, "sample": {"rank_discovery_case": i}}
        evs = [synth.host_op("aten::first", 10, 5), synth.host_op("nccl:all_reduce", 20, 5, **{"rank": 3})]
        files = {}
        for k, (rank, suffix) in enumerate([(5, ".json"), (6, ".json.gz"), (None, ".json")]):
            p = os.path.join(outdir, f"f{k}{suffix}")
            doc = synth.trace_doc(copy.deepcopy(evs), rank=rank)
            if i == 1 and rank is not None:
                # metadata after the events (as update_trace_rank writes it for files that had none)
                doc = {"schemaVersion": 1, "traceEvents": doc["traceEvents"], "distributedInfo": {"rank": rank}}
            synth.write_doc(p, doc)
            files[p] = rank
        inp = {"case": i, "files": {os.path.basename(k): v for k, v in files.items()}}
        for p, rank in files.items():
            try:
                okd, mapping = rt.lib(fails, "create_rank_to_trace_dict", inp, tfm.create_rank_to_trace_dict, [p])
            except rt.LibFailure:
                continue
            exp = {rank if rank is not None else 0: p}
            if mapping != exp:
                kf = [f for f in _FINDINGS if f.get("id") == KNOWN_D6B and f.get("status") == "known"]
                rec = {"what": "rank_discovery_reads_the_metadata_rank", "input": {**inp, "file": os.path.basename(p)}, "observed": {str(k): os.path.basename(v) for k, v in mapping.items()},
                       "expected": {str(k): os.path.basename(v) for k, v in exp.items()}}
                if kf:
                    rec["known"] = kf[0]
                fails.append(rec)
    finally:
        shutil.rmtree(outdir, ignore_errors=True)
    return {"n_checks": 3, "fails": fails, "nontrivial": True, "sample": {"rank_discovery_case": i}}


def bounded(ctx):
    from hv import rt

    _FINDINGS[:] = ctx.findings
    n = 24 if not ctx.thorough else 300
    res = rt.pmap(_rank_discovery_case, [0, 1, 2, 3], 4) + rt.pmap(_case, [ctx.seed * 73 + i for i in range(n)], ctx.procs)
    return rt.summarise(res, f"{PROP}.bounded", f"{n} generated traces in .json / .json.gz, each with a five-step history on one TraceAnalysis object (counters, overlay, counters, overlay with "
                        "all edges, overlay with critical events only), trace-file round trips and rank updates; two rank-discovery cases with an event argument named rank")


def replay(ctx, rec: Dict[str, Any]) -> Dict[str, Any]:
    """Counter-models of the rank-discovery obligations as real files: file i has lines_in_file_i lines; a file with a rank
    text carries it as pretty-printed distributedInfo metadata on its first lines, the other lines are event text."""
    name = rec.get("name", "")
    m = rec.get("model") or {}
    if ".rank_discovery." not in name or "lines_in_file_1" not in m:
        return {"confirmed": False, "why": "no replay for this obligation"}
    from hta.common import trace_file as tfm

    def as_int(x, default):
        try:
            return int(str(x))
        except ValueError:
            return default

    n = [max(0, as_int(m.get("lines_in_file_1"), 0)), max(0, as_int(m.get("lines_in_file_2"), 0))]
    ranks = [as_int(m.get("rank_1"), 3), as_int(m.get("rank_2"), 0)]
    work = tempfile.mkdtemp(prefix="hv_c20_replay_")
    try:
        paths, expect = [], {}
        for i in (0, 1):
            p = os.path.join(work, f"file_{i + 1}.json")
            lines = []
            has = str(m.get(f"file_{i + 1}_has_rank_text", "True")) == "True"
            if n[i] > 0 and not has:
                lines = json.dumps({"schemaVersion": 1, "traceEvents": []}, indent=2).splitlines()
                ranks[i] = 0
            elif n[i] > 0:
                doc = json.dumps({"distributedInfo": {"rank": ranks[i]}, "traceEvents": []}, indent=2).splitlines()
                lines = doc[:]
                while len(lines) < min(n[i], 50):
                    lines.append("")
            with open(p, "w") as fh:
                fh.write("\n".join(lines) + ("\n" if lines else ""))
            paths.append(p)
            expect[ranks[i] if n[i] > 0 else 0] = p  # later file wins a shared rank
        only_first = "unbound" in name and n[0] == 0
        use = paths[:1] if only_first else paths
        if only_first:
            expect = {0: paths[0]}
        try:
            ok, got = tfm.create_rank_to_trace_dict(use)
        except Exception as e:  # noqa: BLE001
            return {"confirmed": True, "input": {"files": [f"{os.path.basename(p)}: {k} lines" for p, k in zip(use, n)]}, "observed": f"{type(e).__name__}: {e}",
                    "expected": {str(k): os.path.basename(v) for k, v in expect.items()}, "how": "hta.common.trace_file.create_rank_to_trace_dict on files written from the counter-model"}
        return {"confirmed": (not ok) or got != expect, "input": {"files": [f"{os.path.basename(p)}: {k} lines, rank text {r if k else None}" for p, k, r in zip(use, n, ranks)]},
                "observed": {str(k): os.path.basename(v) for k, v in got.items()}, "expected": {str(k): os.path.basename(v) for k, v in expect.items()},
                "how": "hta.common.trace_file.create_rank_to_trace_dict on files written from the counter-model"}
    finally:
        shutil.rmtree(work, ignore_errors=True)


def units(ctx):
    return [core.Unit(f"{PROP}.flow_event", flow_event_vcs, [TR + ".Trace.flow_event"]), core.Unit(f"{PROP}.suffix", suffix_vcs, [TR + ".Trace.write_raw_trace", TF + ".read_trace", TF + ".write_trace"]),
            core.Unit(f"{PROP}.writers", writers_vcs, [TA + ".TraceAnalysis.generate_trace_with_counters", CPA + ".CriticalPathAnalysis.overlay_critical_path_analysis"]),
            core.Unit(f"{PROP}.rank_discovery", rank_discovery_vcs, [TF + ".create_rank_to_trace_dict"]),
            # the overlay marks `critical_path_events_set` and draws `critical_path_edges_set`: that both are exactly the sets of THIS call's path,
            # for arbitrary stale contents, is C09's contract of critical_path, re-generated here from the current source
            core.Unit(f"{PROP}.critical_sets", _critical_sets_vcs, [CPA + ".CPGraph.critical_path"])]


def _critical_sets_vcs() -> List[core.VC]:
    from contracts import C09

    return C09.critical_path_exec_vcs(PROP)


SPEC = Spec(
    prop=PROP, level="other",
    functions=[(TR, "Trace.flow_event"), (TR, "Trace.write_raw_trace"), (TR, "Trace.get_raw_trace_for_one_rank"), (TF, "read_trace"), (TF, "write_trace"), (TF, "update_trace_rank"),
               (TF, "create_rank_to_trace_dict"), (TA, "TraceAnalysis.generate_trace_with_counters"), (CPA, "CriticalPathAnalysis.overlay_critical_path_analysis")],
    units=units, bounded=[Bounded("writers_vs_source", bounded)], replay=replay,
    trusted=["json.loads(json.dumps(x)) = x on JSON values; gzip round trip; list.extend appends", "every complete event of a real trace carries an args object (the overlay writes into it)",
             "rank discovery: the regular expression is abstracted to two uninterpreted functions of a line (matches / number); iterating a file yields its lines in order; "
             "`with` is binding + body (the context manager's __exit__ is not modelled); two files stand for the list (the loop body is the same for every file)"],
    explanation="Proved (z3 from the AST): flow_event's dict and the overlay's marking loop. By statement correspondence: suffix agreement of writer and readers, append-only structure of "
                "the writers, fresh raw trace per call, rank update. Proved for files of any length: the rank-discovery scan (first matching line decides, no state carried "
                "from one file to the next). Bounded: the written files compared with the source events, multi-step histories, rank discovery on real files (incl. empty ones).",
)
