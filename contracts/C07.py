"""C07 — communication/computation overlap is the exact time ratio.

Deductive (z3, from the AST of the nested get_comm_comp_overlap_value):
  phase 1 (relational): device rows, kernel-type selections, two calls of merge_kernel_intervals (callee contract M1-M3),
      marker table = one (lo, +1) and one (hi, -1) per merged communication row, (lo, +2)/(hi, -2) per computation row   [S1]
  phase 2 (forward window over the markers sorted by time [S2]): running = prefix sum of status [S3]; the numerator is
      sum over rows i, i not last, with running(i) == 3 of time(i+1) - time(i) [S4]; denominator = summed length of the
      merged communication rows; reported value = round(100 * ratio, 2).
  The step from S1-S4 + M1 to "time during which both kinds run / time during which communication runs" is Lean (L3, L4).
Bounded: public get_comm_comp_overlap on generated traces vs. a measure oracle.
"""
from __future__ import annotations

import ast
from typing import Any, Dict, List

import z3

from contracts import merge_contract as mc
from contracts.C04 import _find_kernel_type, union_measure
from hv import core, extract, framevc as fv, pyvc, scanvc
from hv import history
from hv.driver import Bounded, Spec
from hv.pyvc import to_z3

CA = "hta.analyzers.communication_analysis"
UT = "hta.utils.utils"
PROP = "C07"
COLS = {"index": (z3.IntSort(), False, "int"), "ts": (z3.IntSort(), False, "int"), "dur": (z3.IntSort(), False, "int"),
        "stream": (z3.IntSort(), False, "int"), "name": (z3.IntSort(), False, "int")}


def _split(fn_node: ast.FunctionDef):
    """statements up to and including the one that builds the sorted marker table / the rest"""
    for i, st in enumerate(fn_node.body):
        if isinstance(st, ast.Assign) and any(isinstance(n, ast.Attribute) and n.attr == "sort_values" for n in ast.walk(st.value)):
            if len(st.targets) == 1 and isinstance(st.targets[0], ast.Name):
                return fn_node.body[: i + 1], fn_node.body[i + 1:], st.targets[0].id
    raise pyvc.Unsupported("statement building the sorted marker table not found")


def overlap_vcs() -> List[core.VC]:
    name = f"{PROP}.overlap_value"
    f = extract.get_function(CA, "CommunicationAnalysis.get_comm_comp_overlap.get_comm_comp_overlap_value")
    node = extract.stripped(f)
    head, tail, marker_var = _split(node)
    fq = [f.fq]
    # ------------------------------------------------------------------ phase 1
    ex = pyvc.Exec(consts=extract.module_constants(CA), name=name)
    fv.install(ex)
    fv.install_symtab(ex)
    made: List[Any] = []
    mc.install_merge_contract(ex, on_call=lambda d, m: made.append((d, m)))
    st = fv.SymTab("st")
    ktype = z3.Function("kernel_type_of", z3.StringSort(), z3.StringSort())

    @pyvc.intrinsic
    def get_kernel_type(exq, pc, env, args, kwargs):
        return ktype(to_z3(args[0]))

    ex.intrinsics["get_kernel_type"] = get_kernel_type
    ex.consts["KernelType"] = pyvc.EnumCls("KernelType", _find_kernel_type())
    df = fv.SymDF.base("ev", COLS)
    before = dict(df.cols)
    r = df.uni.skolem("r")
    pres = df.present
    ex.facts += [z3.ForAll(list(r), z3.Implies(to_z3(pres(r)), z3.And(df.cols["dur"].val(r) >= 0, st.valid(df.cols["name"].val(r)))))]
    env: Dict[str, Any] = {"trace_df": df, "sym_table": fv.SymTableList(st)}
    pc: List[Any] = []
    for stt in head:
        outs = ex.exec_stmt(stt, pc, env)
        if len(outs) != 1 or outs[0].kind != "fall":
            raise pyvc.Unsupported("phase 1 forks")
        pc, env = outs[0].pc, outs[0].env
    markers = env[marker_var]
    if not isinstance(markers, fv.SymDF) or len(made) != 2 or not getattr(markers, "order", ("",))[0] == "sorted":
        raise pyvc.Unsupported("marker table is not a sorted frame built from two merged tables")
    vcs: List[core.VC] = [core.VC(pv.name, pv.hyps + list(ex.facts) + st.axioms(), pv.goal, "vc", fq, {}, note=pv.note) for pv in ex.vcs]
    by_kind = {}
    dev = lambda rr: z3.And(to_z3(pres(rr)), before["stream"].val(rr) != -1)
    for d, m in made:
        by_kind[id(m)] = d
    # which merged table is communication / computation: decide by proving the row predicate
    def rows_of(kind):
        return lambda rr: z3.And(dev(rr), ktype(st.sym(before["name"].val(rr))) == z3.StringVal(kind))
    (d1, m1), (d2, m2) = made
    hyps1 = list(ex.facts) + st.axioms() + [to_z3(c) for c in pc]
    vcs.append(core.VC(f"{name}.computation_rows", hyps1, z3.And(z3.BoolVal(d1.uni is df.uni), to_z3(d1.present(r)) == rows_of("COMPUTATION")(r)), "vc", fq, {"row": r[0]},
                       note="first merged table: device rows (stream != -1) of kernel type COMPUTATION"))
    vcs.append(core.VC(f"{name}.communication_rows", hyps1, z3.And(z3.BoolVal(d2.uni is df.uni), to_z3(d2.present(r)) == rows_of("COMMUNICATION")(r)), "vc", fq, {"row": r[0]},
                       note="second merged table: device rows of kernel type COMMUNICATION"))
    vcs.append(core.VC(f"{name}.input_not_modified", hyps1, z3.BoolVal(not df.written and df.inplace_row_changes == 0 and d1 is not df and d2 is not df and d1 is not d2), "vc", fq, {}))
    m_comp, m_comm = m1, m2
    # S1: marker rows
    mr = markers.uni.skolem("m")
    ok_shape = markers.uni.arity == 3 and sorted(markers.cols) == ["status", "time"]
    vcs.append(core.VC(f"{name}.S1_marker_table_shape", [], z3.BoolVal(ok_shape), "vc", fq, {}, note=f"marker table columns {sorted(markers.cols)}, row universe arity {markers.uni.arity}"))
    if ok_shape:
        tag, g, which = mr
        parts = getattr(markers, "concat_parts", None)
        def spec_present(tab):
            return z3.And(g >= 0, g < tab.n, which >= 0, which <= 1)
        # the two blocks may come in either order in the concat: identify by proving
        spec = z3.Or(z3.And(tag == 0, spec_present(m_comm)), z3.And(tag == 1, spec_present(m_comp)))
        val_ok = z3.And(
            z3.Implies(tag == 0, z3.And(to_z3(markers.cols["status"].val(mr)) == z3.If(which == 0, 1, -1), to_z3(markers.cols["time"].val(mr)) == z3.If(which == 0, m_comm.lo(g), m_comm.hi(g)))),
            z3.Implies(tag == 1, z3.And(to_z3(markers.cols["status"].val(mr)) == z3.If(which == 0, 2, -2), to_z3(markers.cols["time"].val(mr)) == z3.If(which == 0, m_comp.lo(g), m_comp.hi(g)))))
        vcs.append(core.VC(f"{name}.S1_markers_present", hyps1, to_z3(markers.present(mr)) == spec, "vc", fq, {"tag": tag, "g": g, "which": which},
                           note="exactly two markers per merged row of each kind"))
        vcs.append(core.VC(f"{name}.S1_marker_values", hyps1 + [to_z3(markers.present(mr))], val_ok, "vc", fq, {"tag": tag, "g": g, "which": which},
                           note="communication: (lo,+1),(hi,-1); computation: (lo,+2),(hi,-2)"))
        vcs.append(core.VC(f"{name}.S2_sorted_by_time", [], z3.BoolVal(_sorted_by(markers, "time")), "vc", fq, {}, note="markers are sorted by time"))
    # ------------------------------------------------------------------ phase 2: forward window over the sorted markers
    terms = {}
    for mode in ("step", "last"):
        w = scanvc.Window(mode, f"sw_{mode}")
        wf, syms = scanvc.window_frame(w, {"status": "int", "time": "int"}, "time", f"sw_{mode}")
        ex2 = pyvc.Exec(consts=extract.module_constants(CA), name=f"{name}.{mode}")
        fv.install(ex2)
        env2 = dict(env)
        env2[marker_var] = wf
        pc2: List[Any] = []
        ret = None
        for stt in tail:
            outs = ex2.exec_stmt(stt, pc2, env2)
            if len(outs) != 1:
                raise pyvc.Unsupported("phase 2 forks")
            if outs[0].kind == "ret":
                ret = outs[0].value
                break
            pc2, env2 = outs[0].pc, outs[0].env
        if not isinstance(ret, scanvc.WExpr) or not isinstance(ret.op, ast.Div) or ret.reflected:
            raise pyvc.Unsupported("the function does not return <sum over rows> / <expression>")
        terms[mode] = (w, syms, ret)
        for nm, cond, note in w.obligations:
            vcs.append(core.VC(f"{name}.{mode}.{nm}", [], cond, "vc", fq, {}, note=note))
    w, syms, ret = terms["step"]
    cums = [n for n in w.state_prev if n.startswith("cumsum#")]
    if len(cums) != 1:
        raise pyvc.Unsupported("expected exactly one cumsum over the markers")
    R_prev = w.state_prev[cums[0]]
    S_cur = syms["status"][1]
    T_prev, T_cur = syms["time"]
    mv = {"running_i": R_prev, "time_i": T_prev, "time_next": T_cur}
    vcs.append(core.VC(f"{name}.S3_running_is_prefix_sum", [], to_z3(w.state_cur[cums[0]]) == R_prev + S_cur, "vc", fq, mv, note="running(i+1) = running(i) + status(i+1)"))
    vcs.append(core.VC(f"{name}.S4_numerator_term", [T_cur >= T_prev], to_z3(ret.wsum.term) == z3.If(R_prev == 3, T_cur - T_prev, 0), "vc", fq, mv,
                       note="row i contributes time(i+1) - time(i) iff running(i) == 3"))
    wl, symsl, retl = terms["last"]
    vcs.append(core.VC(f"{name}.S4_last_row_contributes_nothing", [], to_z3(retl.wsum.term) == 0, "vc", fq, {}, note="the last marker has no successor and is dropped"))
    vcs.append(core.VC(f"{name}.denominator_is_communication_time", hyps1, to_z3(ret.other) == m_comm.total, "vc", fq, {},
                       note="denominator = summed length of the merged communication rows (= time during which communication runs, by L1)"))
    vcs.append(core.VC(f"{name}.guard.canary_false", [T_cur >= T_prev, R_prev == 3], z3.BoolVal(False), "canary", fq))
    return vcs


def _sorted_by(df: fv.SymDF, col: str) -> bool:
    o = df.order
    return bool(o) and o[0] == "sorted" and o[2] == col and o[3] == "True"


def tail_vcs() -> List[core.VC]:
    """get_comm_comp_overlap around the per-rank value: the loop body executed for an arbitrary iteration (each list receives
    this rank's value once) and the statements after the loop executed relationally (reported cell = round(100 * ratio, 2) of
    its row, rank passed through, one row per rank). See contracts/collect_contract.py."""
    from contracts import collect_contract as cc

    fn = "CommunicationAnalysis.get_comm_comp_overlap"
    name = f"{PROP}.get_comm_comp_overlap"
    f, rank, _frame, parts, appends, _ex = cc.loop_appends(CA, fn, "get_comm_comp_overlap_value", 1)
    fq = [f.fq]
    ok, why = cc.appends_ok(appends, {"rank": rank, "comp_comm_overlap_ratio": parts[0]})
    vcs = [core.VC(f"{name}.loop", [], z3.BoolVal(ok), "vc", fq, {}, note="per iteration: " + why)]
    cols = {"rank": (z3.IntSort(), False, "int"), "comp_comm_overlap_ratio": (z3.RealSort(), False, "float")}
    _f, ex, df, pres0, cols0, out, round_fn = cc.run_tail(CA, fn, cols, f"{name}.tail")
    vcs += [core.VC(pv.name, pv.hyps, pv.goal, "vc", fq, {}, note=pv.note) for pv in ex.vcs]
    r = df.uni.skolem("r")
    facts = [to_z3(x) for x in ex.facts]
    hyp = facts + [to_z3(pres0(r))]
    vcs.append(core.VC(f"{name}.tail.rows", facts, to_z3(out.present(r)) == to_z3(pres0(r)), "vc", fq, {"row": r[0]}, note="one row per rank: none added, none lost"))
    have = all(c in out.cols for c in ("rank", "comp_comm_overlap_pctg"))
    vcs.append(core.VC(f"{name}.tail.columns", [], z3.BoolVal(have), "vc", fq, {}, note=f"reported columns {list(out.cols)}"))
    if have:
        ratio = to_z3(cols0["comp_comm_overlap_ratio"].val(r))
        vcs.append(core.VC(f"{name}.tail.rank", hyp, to_z3(out.cols["rank"].val(r)) == to_z3(cols0["rank"].val(r)), "vc", fq, {"row": r[0]}, note="rank reported as collected"))
        vcs.append(core.VC(f"{name}.tail.pctg", hyp, to_z3(out.cols["comp_comm_overlap_pctg"].val(r)) == round_fn(100 * ratio, 2), "vc", fq,
                           {"row": r[0], "ratio": ratio, "reported": to_z3(out.cols["comp_comm_overlap_pctg"].val(r))}, note="comp_comm_overlap_pctg = round(100 * this rank's ratio, 2)"))
    vcs.append(core.VC(f"{name}.tail.vacuity", hyp, z3.BoolVal(False), "vacuity", fq, {}))
    return vcs


# ---------------------------------------------------------------------------------------------- bounded


def intersect_measure(a, b) -> int:
    pts = sorted({p for s, e in a + b for p in (s, e)})
    tot = 0
    for x, y in zip(pts, pts[1:]):
        mid2 = x + y
        ina = any(2 * s <= mid2 < 2 * e for s, e in a)
        inb = any(2 * s <= mid2 < 2 * e for s, e in b)
        if ina and inb:
            tot += y - x
    return tot


def _case(seed: int) -> Dict[str, Any]:
    import re
    from fractions import Fraction

    from hv import gen, rt

    kw = dict(n_streams=2 + seed % 2, steps=seed % 3, p_zero_kernel=0.15, n_top=3, p_launch=0.8, overlap_streams=True)
    if seed % 4 == 2:
        kw.update(p_orphan_kernel=0.2, p_orphan_no_corr=0.8)  # device activities whose launch was not captured: no correlation id at all; they still run on the device
    if seed % 4 == 3:
        kw["p_frac_kernel_dur"] = 0.6  # whole-number timestamps, fractional kernel durations: nothing is rounded, the ratio is over the exact lengths
    per_rank = gen.gen_trace_set(seed, n_ranks=1 + seed % 2, **kw)
    if seed % 6 == 4:
        per_rank = gen.wide_narrow_set(seed, **kw)  # rank 1's kernel names get trace-wide symbol ids beyond 127 while its own table is small
    if seed % 5 == 2:  # the first device stream is stream 0 (the default stream): a legitimate stream id, and a falsy value
        for evs in per_rank.values():
            for e in evs:
                a = e.get("args")
                if isinstance(a, dict) and a.get("stream") == 7:
                    a["stream"] = 0
                    if e.get("tid") == 7:
                        e["tid"] = 0
    if seed % 4 == 3:  # the analysed ranks are a subset of the job's trainers: rank ids 1 and 3, not 0..n-1 (results are keyed by rank id, not by position)
        per_rank = {2 * rk + 1: evs for rk, evs in per_rank.items()}
    fails: List[Dict[str, Any]] = []
    n = 0
    with rt.trace_dir(per_rank) as d:
        try:
            ta = rt.lib(fails, "load", {"seed": seed, "events": per_rank}, rt.load_analysis, d)
            stab = ta.t.symbol_table.get_sym_table()
            def _on_device(e):
                a = e.get("args")
                try:
                    return isinstance(a, dict) and int(a.get("stream", -1)) != -1
                except (TypeError, ValueError):
                    return False
            loaded_ids = {rk: set(int(i) for i in ta.t.get_trace(rk)["index"]) for rk in per_rank}
            has_comm = all(any(re.match(r"^nccl.*Kernel", str(e.get("name", ""))) and e.get("dur", 0) > 0 and _on_device(e) and i in loaded_ids[rk] for i, e in gen.complete_events(per_rank[rk]))
                           for rk in per_rank)
            if not has_comm:
                return {"n_checks": 0, "fails": [], "nontrivial": False, "clauses": {}}
            out = rt.lib(fails, "get_comm_comp_overlap", {"seed": seed, "events": per_rank}, ta.get_comm_comp_overlap, visualize=False)
        except rt.LibFailure:
            return {"n_checks": 1, "fails": fails, "nontrivial": True, "clauses": {}}
        for rk in per_rank:
            df = ta.t.get_trace(rk)
            # which rows are device activities is read from the FILE (row id = position in the file): a loader that loses a stream id must not move the oracle with it
            def _file_stream(e):
                a = e.get("args")
                try:
                    return int(a.get("stream", -1)) if isinstance(a, dict) else -1
                except (TypeError, ValueError):
                    return -1
            fstream = {i: _file_stream(e) for i, e in gen.complete_events(per_rank[rk])}
            dev = df[[fstream.get(int(i), -1) != -1 for i in df["index"]]]
            comm, comp = [], []
            fname = {i: e["name"] for i, e in gen.complete_events(per_rank[rk])}  # kernel names are the file's, not what the frame's ids decode to
            for a, b, i in zip(dev["ts"], dev["dur"], dev["index"]):
                nm = fname[int(i)]
                iv = (Fraction(float(a)), Fraction(float(a)) + Fraction(float(b)))  # exact (quarters are binary fractions)
                if re.match(r"^nccl.*Kernel", nm):
                    comm.append(iv)
                elif re.match(r"(^Memcpy)|(^Memset)|(^dma)", nm):
                    pass
                elif not re.match(r"(^nccl.*Kernel)|(.*(Memcpy)|(Memset))|(.*Sync)", nm):
                    comp.append(iv)
            den = union_measure(comm)
            if den == 0:
                continue
            exp = round(100 * intersect_measure(comm, comp) / den, 2)
            got = float(out[out["rank"] == rk]["comp_comm_overlap_pctg"].iloc[0])
            n += 1
            if abs(got - float(100 * intersect_measure(comm, comp) / den)) > 0.005 + 1e-9 or not (0 <= got <= 100):  # any correct rounding to two decimals
                fails.append({"what": "overlap_matches_measure", "input": {"seed": seed, "rank": rk, "events": per_rank[rk]}, "observed": got, "expected": exp})
    return {"n_checks": n, "fails": fails, "nontrivial": n > 0, "sample": {"seed": seed}, "clauses": {"overlap_matches_measure": n}}


def bounded(ctx):
    from hv import rt

    n = 60 if not ctx.thorough else 700
    res = rt.pmap(_case, [ctx.seed * 5003 + i for i in range(n)], ctx.procs)
    return rt.summarise(res, f"{PROP}.bounded", f"{n} generated traces (2-3 streams, communication and computation kernels overlapping / nested / touching / tied / zero length) "
                        "through TraceAnalysis.get_comm_comp_overlap; oracle = measure of intersection / measure of communication union")


def units(ctx):
    return [core.Unit(f"{PROP}.merge_kernel_intervals", lambda: mc.merge_vcs(PROP), [UT + ".merge_kernel_intervals"]),
            core.Unit(f"{PROP}.merge_kernel_intervals.stale_helper_columns", lambda: mc.merge_vcs(PROP, stale=True), [UT + ".merge_kernel_intervals"]),
            core.Unit(f"{PROP}.overlap_value", overlap_vcs, [CA + ".CommunicationAnalysis.get_comm_comp_overlap.get_comm_comp_overlap_value"]),
            core.Unit(f"{PROP}.tail", tail_vcs, [CA + ".CommunicationAnalysis.get_comm_comp_overlap"])]


SPEC = Spec(
    lean=['IntervalMeasure.lean', 'Folds.lean', 'Sweep.lean'],
    prop=PROP, level="proof",
    functions=[(UT, "merge_kernel_intervals"), (CA, "CommunicationAnalysis.get_comm_comp_overlap.get_comm_comp_overlap_value"), (CA, "CommunicationAnalysis.get_comm_comp_overlap")],
    units=units, bounded=[Bounded("overlap_vs_measure", bounded), Bounded("history_independence", history.stage(PROP, "overlap", "gen"))],
    trusted=["Lean lemmas L1, L4 (lean/IntervalMeasure.lean) and L3 (lean/Sweep.lean), machine-checked, turn S1-S4 + M1 into the measure statement; the z3 part proves S1-S4 and M1-M3 from the code; the instantiation of the lemmas with those facts is by reading, not mechanised",
             "fold meta-lemma for ghost accumulators and sums (L5)",
             "get_kernel_type uninterpreted; sort_values(by='time') yields non-decreasing times (any order among equal times)"],
    assumptions=["at least one communication kernel of positive total length (else 0/0)"],
)
