"""C11 — symbol ids are a stable bijection; results ignore id numbering and parse order.

Deductive (z3 from the AST):
  * TraceSymbolTable.add_symbols: cut-point invariant with the quantified bijection (table[index[s]] = s, index[table[i]] = i),
    the old table is a prefix (ids never change), every processed input symbol is in the table — for EVERY input sequence
    (arbitrary order, repeats), which is how set-iteration order, hash seeds and the drain order of add_symbols_mp are covered;
  * the re-encoding lambdas of parse_single_rank / parse_multiple_ranks / update_encoded_df and encode_df / decode_df /
    _compress_df's encode step: new id decodes (global table) to the string the old id decoded to (local table);
  * clone copies both structures; combine / add_symbols_mp reduce to add_symbols on some sequence (statement correspondence).
Not expressible as a contract: "all analysis results are independent of numbering / parse order / pool completion order" relates
two runs of the whole library (2-safety).  Bounded stand-in: digest of all decoded getter outputs under 4 hash seeds x
multiprocessing on/off x reversed rank discovery order must be identical; random add sequences on the real class.
"""
from __future__ import annotations

import ast
import hashlib
import json
import os
import subprocess
import sys
from typing import Any, Dict, List

import z3

from hv import core, extract, framevc as fv, pyvc
from hv.driver import Bounded, Spec
from hv.pyvc import to_z3

ST = "hta.common.trace_symbol_table"
TR = "hta.common.trace"
TP = "hta.common.trace_parser"
PROP = "C11"
S = z3.StringSort()
I = z3.IntSort()


def add_symbols_vcs() -> List[core.VC]:
    name = f"{PROP}.add_symbols"
    f = extract.get_function(ST, "TraceSymbolTable.add_symbols")
    fq = [f.fq]
    table = pyvc.SymList(S, "sym_table")
    index = pyvc.SymMap(S, I, "sym_index")
    L0, A0, D0, V0 = table.length, table.arr, index.dom, index.val
    inputs = pyvc.SymList(S, "symbols")
    i, j = z3.Ints("i j")
    s = z3.String("s")

    def wf(L, A, D, V):
        return z3.And(L >= 0,
                      z3.ForAll([i], z3.Implies(z3.And(i >= 0, i < L), z3.And(z3.Select(D, z3.Select(A, i)), z3.Select(V, z3.Select(A, i)) == i))),
                      z3.ForAll([s], z3.Implies(z3.Select(D, s), z3.And(z3.Select(V, s) >= 0, z3.Select(V, s) < L, z3.Select(A, z3.Select(V, s)) == s))))

    def inv(env, k, it):
        t, m = env["self"].fields["sym_table"], env["self"].fields["sym_index"]
        L, A, D, V = t.length, t.arr, m.dom, m.val
        return z3.And(wf(L, A, D, V), L >= L0,
                      z3.ForAll([i], z3.Implies(z3.And(i >= 0, i < L0), z3.Select(A, i) == z3.Select(A0, i))),          # old table is a prefix
                      z3.ForAll([s], z3.Implies(z3.Select(D0, s), z3.And(z3.Select(D, s), z3.Select(V, s) == z3.Select(V0, s)))),  # ids never change
                      z3.ForAll([j], z3.Implies(z3.And(j >= 0, j < k), z3.Select(D, inputs.at(j)))))               # processed symbols are in the table

    spec = pyvc.LoopSpec(state_vars=["self"], invariant=inv, elem=lambda it, k: it.at(k), length=lambda it: it.length, name="symbols")
    ex = pyvc.Exec(name=name, loop_specs={0: spec})
    selfrec = pyvc.Record("TraceSymbolTable", {"sym_table": table, "sym_index": index})
    pre = [wf(L0, A0, D0, V0), inputs.length >= 0]
    outs = ex.run_function(extract.stripped(f), {"self": selfrec, "symbols": inputs}, pre)
    vcs = [core.VC(pv.name, pv.hyps, pv.goal, "vc", fq, {}, note=pv.note) for pv in ex.vcs]
    for o in outs:
        if o.kind == "ret":
            t, m = o.env["self"].fields["sym_table"], o.env["self"].fields["sym_index"]
            hy = [to_z3(c) for c in o.pc]
            vcs.append(core.VC(f"{name}.post.bijection", hy, wf(t.length, t.arr, m.dom, m.val), "vc", fq, {}, note="afterwards the table is a bijection id <-> string on 0..len-1"))
            vcs.append(core.VC(f"{name}.post.all_inputs_present", hy + [j >= 0, j < inputs.length], z3.Select(m.dom, inputs.at(j)), "vc", fq, {}, note="every input symbol has an id"))
            vcs.append(core.VC(f"{name}.post.stable", hy + [z3.Select(D0, s)], z3.And(z3.Select(m.dom, s), z3.Select(m.val, s) == z3.Select(V0, s)), "vc", fq, {},
                               note="an id once assigned never changes"))
        elif o.kind == "raise":
            vcs.append(core.VC(f"{name}.noraise", [to_z3(c) for c in o.pc], z3.BoolVal(False), "vc", fq, {}))
    vcs.append(core.VC(f"{name}.guard.canary_false", pre + [inputs.length >= 2, inputs.at(0) != inputs.at(1)], z3.BoolVal(False), "canary", fq))
    return vcs


def _lambdas_in(fn: extract.FuncInfo) -> List[ast.Lambda]:
    return [n for n in ast.walk(fn.node) if isinstance(n, ast.Lambda)]


def reencode_vcs() -> List[core.VC]:
    """Every re-encoding / encoding / decoding lambda maps an id (or string) to the id (or string) with the same meaning."""
    vcs: List[core.VC] = []
    L, G = fv.SymTab("local"), fv.SymTab("global")
    idx = z3.Int("idx")
    sym = z3.String("sym")
    # post of add_symbols(global <- local table): every local symbol is in the global table
    carried = [L.valid(idx), G.has(L.sym(idx))]

    def run_lambda(lam, env, arg, pc):
        ex = pyvc.Exec(name="lam")
        fv.install(ex)
        fv.install_symtab(ex)
        res = ex.call_closure(pyvc.Closure(lam, env), [arg], {}, pc)
        return ex, res

    cases = [
        (TR, "Trace.parse_single_rank", {"global_map": fv.SymIndexDict(G), "local_table": fv.SymTableList(L)}, "reencode"),
        (TR, "Trace.parse_multiple_ranks", {"global_map": fv.SymIndexDict(G), "local_table": fv.SymTableList(L)}, "reencode"),
        (ST, "TraceSymbolTable.update_encoded_df", {"new_map": fv.SymIndexDict(G), "old_table": fv.SymTableList(L)}, "reencode"),
        (ST, "TraceSymbolTable.encode_df", {"self": G}, "encode"),
        (ST, "TraceSymbolTable.decode_df", {"self": G}, "decode"),
        (TP, "_compress_df", {"sym_index": fv.SymIndexDict(G)}, "encode_compress"),
    ]
    for mod, qn, env, kind in cases:
        fn = extract.get_function(mod, qn)
        lams = _lambdas_in(fn)
        picked = None
        for lam in lams:
            src = ast.unparse(lam)
            if kind == "reencode" and ("global_map[" in src or "new_map[" in src):
                picked = lam
            elif kind == "encode" and "sym_index[" in src:
                picked = lam
            elif kind == "decode" and "sym_table[" in src:
                picked = lam
            elif kind == "encode_compress" and src.replace(" ", "") == "lambdas:sym_index[s]":
                picked = lam
        if picked is None:
            raise pyvc.Unsupported(f"{qn}: the {kind} lambda was not found")
        name = f"{PROP}.{qn.split('.')[-1]}.{kind}"
        if kind == "reencode":
            ex, res = run_lambda(picked, env, idx, carried)
            hy = carried + L.axioms([idx]) + G.axioms()
            vcs += [core.VC(pv.name.replace("lam.", name + "."), pv.hyps + hy, pv.goal, "vc", [fn.fq], {}, note=pv.note) for pv in ex.vcs]
            vcs.append(core.VC(f"{name}.same_string", hy, z3.And(G.valid(to_z3(res)), G.sym(to_z3(res)) == L.sym(idx)), "vc", [fn.fq], {"idx": idx},
                               note="the re-encoded id decodes (global table) to the string the local id stood for"))
        elif kind in ("encode", "encode_compress"):
            pre = [G.has(sym)]
            ex, res = run_lambda(picked, env, sym, pre)
            hy = pre + G.axioms([], [sym])
            vcs += [core.VC(pv.name.replace("lam.", name + "."), pv.hyps + hy, pv.goal, "vc", [fn.fq], {}, note=pv.note) for pv in ex.vcs]
            vcs.append(core.VC(f"{name}.decodes_back", hy, z3.And(G.valid(to_z3(res)), G.sym(to_z3(res)) == sym), "vc", [fn.fq], {}, note="encoding then decoding yields the string"))
        else:
            pre = [G.valid(idx)]
            ex, res = run_lambda(picked, env, idx, pre)
            hy = pre + G.axioms([idx])
            vcs += [core.VC(pv.name.replace("lam.", name + "."), pv.hyps + hy, pv.goal, "vc", [fn.fq], {}, note=pv.note) for pv in ex.vcs]
            vcs.append(core.VC(f"{name}.is_table_entry", hy, z3.And(to_z3(res) == G.sym(idx), G.idof(to_z3(res)) == idx), "vc", [fn.fq], {}, note="decoding an id yields the string that was encoded"))
    return vcs


def structure_vcs() -> List[core.VC]:
    """clone / combine / add_symbols_mp / the sequential vs pool branches: statement correspondence (reduce to add_symbols on some sequence)."""
    checks = [
        (ST, "TraceSymbolTable.clone", ["tst.sym_table = symbol_table.sym_table.copy()", "tst.sym_index = symbol_table.sym_index.copy()", "return tst"]),
        (ST, "TraceSymbolTable.combine_symbol_tables", ["for t in tables:", "result.add_symbols(t.get_sym_table())", "return result"]),
        (ST, "TraceSymbolTable.add_symbols_mp", ["pool.map(collector, symbols_list)", "while not shared_queue.empty():", "all_symbols.append(shared_queue.get())", "self.add_symbols(all_symbols)"]),
        (TR, "Trace.parse_multiple_ranks", ["results = pool.map(_parser, trace_paths, chunksize=1)", "for rank, result in zip(ranks, results):",
                                            "self.symbol_table.add_symbols(local_symbol_tables[rank].get_sym_table())", "global_map = self.symbol_table.get_sym_id_map()",
                                            "local_table = local_symbol_tables[rank].get_sym_table()",
                                            "self.traces[rank][col] = self.traces[rank][col].apply(lambda idx: global_map[local_table[idx]])"]),
        (TP, "_compress_df", ['symbols = set(df["cat"].unique()).union(set(df["name"].unique()))', "local_symbol_table.add_symbols(symbols)", "sym_index = local_symbol_table.get_sym_id_map()",
                              'df[col] = df[col].apply(lambda s: sym_index[s])']),
    ]
    vcs = []
    for mod, qn, want in checks:
        fn = extract.get_function(mod, qn)
        src = ast.unparse(extract.stripped(fn)).replace("'", '"')
        lines = [l.strip() for l in src.splitlines()]
        missing = [w for w in want if w not in lines]
        if missing:
            raise pyvc.Unsupported(f"{qn} no longer matches the contract's reading: {missing}")
        # each re-encoding statement must occur exactly once (a second application would re-encode already global ids)
        dup = [w for w in want if "apply(lambda" in w and lines.count(w) != 1]
        vcs.append(core.VC(f"{PROP}.{qn.split('.')[-1]}.structure", [], z3.BoolVal(not dup), "vc", [fn.fq], {},
                           note="reduces to add_symbols on some sequence / applies the re-encoding exactly once per column" + (f"; duplicated: {dup}" if dup else "")))
    # update_encoded_df / re-encoding must be applied once per rank: count the calls in parse_multiple_ranks
    fn = extract.get_function(TR, "Trace.parse_multiple_ranks")
    n_upd = sum(1 for n in ast.walk(fn.node) if isinstance(n, ast.Call) and isinstance(n.func, ast.Attribute) and n.func.attr == "update_encoded_df")
    n_apply = sum(1 for n in ast.walk(fn.node) if isinstance(n, ast.Lambda) and "global_map[" in ast.unparse(n))
    vcs.append(core.VC(f"{PROP}.parse_multiple_ranks.reencoded_exactly_once", [], z3.BoolVal(n_upd + n_apply == 1), "vc", [fn.fq], {},
                       note=f"re-encoding sites in parse_multiple_ranks: {n_apply} lambda(s) + {n_upd} update_encoded_df call(s); applying it twice decodes through the wrong table"))
    return vcs


# ---------------------------------------------------------------------------------------------- bounded

_DIGEST_SCRIPT = r'''
import sys, json, hashlib, logging, warnings
logging.disable(logging.CRITICAL); warnings.filterwarnings("ignore")
sys.path.insert(0, sys.argv[4])
d, use_mp, reverse = sys.argv[1], sys.argv[2] == "1", sys.argv[3] == "1"
from hta.common import trace_file as tfm
if reverse:
    _orig = tfm.create_rank_to_trace_dict
    def rev(file_list):
        return _orig(list(reversed(sorted(file_list))))
    tfm.create_rank_to_trace_dict = rev
from hta.common.trace import Trace
from hta.trace_analysis import TraceAnalysis
t = Trace(trace_dir=d); t.load_traces(use_multiprocessing=use_mp)
ta = TraceAnalysis.__new__(TraceAnalysis); ta.t = t
out = {}
tab = t.symbol_table.get_sym_table()
for rk in sorted(t.traces):
    df = t.get_trace(rk).copy()
    df["name"] = [tab[i] if 0 <= i < len(tab) else f"<bad id {i}>" for i in df["name"]]; df["cat"] = [tab[i] if 0 <= i < len(tab) else f"<bad id {i}>" for i in df["cat"]]
    cols = [c for c in ["index","name","cat","ts","dur","stream","correlation","index_correlation","iteration"] if c in df.columns]
    out[f"trace{rk}"] = df.sort_values("index")[cols].values.tolist()
def rec(k, f):
    try:
        r = f()
        if isinstance(r, tuple): r = [x.to_dict("records") if hasattr(x, "to_dict") else x for x in r]
        elif isinstance(r, dict): r = {str(a): (b.to_dict("records") if hasattr(b, "to_dict") else b) for a, b in r.items()}
        elif hasattr(r, "to_dict"): r = r.to_dict("records")
        out[k] = r
    except Exception as e:
        out[k] = "EXC " + type(e).__name__
# absolute check: every loaded row decodes to the strings of the file event it came from (row id = position in traceEvents)
bad = 0
ok_files, files = tfm.create_rank_to_trace_dict_from_dir(d)
import gzip as _gz
for rk in sorted(t.traces):
    path = files[rk]
    with (_gz.open(path, "rt") if path.endswith(".gz") else open(path)) as fh:
        src = json.load(fh)["traceEvents"]
    df = t.get_trace(rk)
    for i, n_, c_ in zip(df["index"], df["name"], df["cat"]):
        if not (0 <= int(n_) < len(tab) and 0 <= int(c_) < len(tab)) or tab[int(n_)] != src[int(i)]["name"] or tab[int(c_)] != src[int(i)]["cat"]:
            bad += 1
print("DECODE", bad)
rec("temporal", lambda: ta.get_temporal_breakdown(visualize=False))
rec("kernel", lambda: ta.get_gpu_kernel_breakdown(visualize=False, num_kernels=3))
rec("overlap", lambda: ta.get_comm_comp_overlap(visualize=False))
rec("launch", lambda: ta.get_cuda_kernel_launch_stats(ranks=sorted(t.traces), visualize=False))
rec("queue", lambda: ta.get_queue_length_time_series(ranks=sorted(t.traces)))
rec("idle", lambda: ta.get_idle_time_breakdown(ranks=[0], visualize=False))
print(hashlib.sha256(json.dumps(out, sort_keys=True, default=str).encode()).hexdigest())
'''


def _matrix_case(seed: int) -> Dict[str, Any]:
    from hv import gen, rt, synth

    wide_narrow = seed < 0  # marker: rank 0 with a vocabulary of several hundred symbols next to ranks with a few dozen (ids beyond 127 / local ids below)
    seed = abs(seed)
    per_rank = gen.gen_trace_set(seed, n_ranks=2 + seed % 2, steps=2, n_top=2, n_streams=2)
    if wide_narrow:
        t_end = max(e["ts"] + e.get("dur", 0) for e in per_rank[0] if "dur" in e and e.get("cat") != "Trace")
        for k in range(300):
            per_rank[0].append(synth.host_op(f"wide::op_{k:04d}", t_end + 10 + 3 * k, 2))
    if seed % 2 == 1:
        # a string that is an event NAME on one row and a CATEGORY on others (a user annotation called "kernel"): one symbol, one id
        first = per_rank[0][0]
        per_rank[0].append(synth.annotation("kernel", first["ts"] + 1, 2, tid=first["tid"]))
        per_rank[0].append(synth.annotation("cpu_op", first["ts"] + 1, 1, tid=first["tid"]))
    # different vocabularies per rank
    for rk, evs in per_rank.items():
        for e in evs:
            if e.get("cat") == "cpu_op" and (hash((rk, e["ts"])) % 3 == 0):
                e["name"] = f"aten::rank{rk}_only_{e['ts'] % 7}"
    fails: List[Dict[str, Any]] = []
    digests = {}
    decode_bad: Dict[str, str] = {}
    with rt.trace_dir(per_rank) as d:
        script = os.path.join(d, "_digest.py")
        with open(script, "w") as fh:
            fh.write(_DIGEST_SCRIPT)
        for hs in (0, 1, 2, 3):
            for use_mp in (0, 1):
                for rev in ((0, 1) if hs < 2 else (0,)):
                    env = dict(os.environ, PYTHONHASHSEED=str(hs))
                    p = subprocess.run([sys.executable, "-W", "ignore", script, d, str(use_mp), str(rev), os.environ.get("HV_REPO", "/repo")], capture_output=True, text=True, env=env, timeout=300)
                    key = f"hashseed={hs} mp={use_mp} reversed={rev}"
                    lines = p.stdout.strip().splitlines()
                    digests[key] = lines[-1] if p.returncode == 0 and lines else f"ERROR rc={p.returncode}: {p.stderr[-300:]}"
                    dec = [ln for ln in lines if ln.startswith("DECODE ")]
                    if p.returncode == 0 and (not dec or dec[-1] != "DECODE 0"):
                        decode_bad[key] = dec[-1] if dec else "no DECODE line"
        os.unlink(script)
    if decode_bad:
        fails.append({"what": "rows_decode_to_their_file_strings", "input": {"seed": seed, "wide_narrow": wide_narrow, "events": {k: v[:40] for k, v in per_rank.items()}},
                      "observed": decode_bad, "expected": "every loaded row's name / cat id decodes to the string of the file event at its index"})
    vals = set(digests.values())
    if len(vals) != 1 or any(v.startswith("ERROR") for v in vals):
        fails.append({"what": "results_independent_of_numbering_and_order", "input": {"seed": seed, "events": per_rank}, "observed": digests, "expected": "one digest for all configurations"})
    return {"n_checks": len(digests), "fails": fails, "nontrivial": True, "sample": {"seed": seed, "configurations": len(digests)}}


def _seq_case(seed: int) -> Dict[str, Any]:
    import random

    from hta.common.trace_symbol_table import TraceSymbolTable

    rng = random.Random(seed)
    st = TraceSymbolTable()
    seen: Dict[str, int] = {}
    fails: List[Dict[str, Any]] = []
    ops = []
    for _ in range(rng.randint(1, 6)):
        batch = [f"s{rng.randint(0, 12)}" for _ in range(rng.randint(0, 8))]
        how = rng.choice(["list", "set", "tuple", "clone", "combine"])
        ops.append((how, batch))
        if how == "clone":
            st = TraceSymbolTable.clone(st)
            st.add_symbols(batch)
        elif how == "combine":
            other = TraceSymbolTable()
            other.add_symbols(batch)
            st = TraceSymbolTable.combine_symbol_tables([st, other])
        else:
            st.add_symbols({"list": list, "set": set, "tuple": tuple}[how](batch))
        tab, idx = st.get_sym_table(), st.get_sym_id_map()
        ok = len(tab) == len(idx) and all(idx[s] == i for i, s in enumerate(tab)) and all(tab[i] == s for s, i in idx.items())
        stable = all(idx.get(s) == i for s, i in seen.items())
        present = all(s in idx for s in batch)
        if not (ok and stable and present):
            fails.append({"what": "bijection_and_stability", "input": {"seed": seed, "ops": ops}, "observed": {"table": tab, "index": idx}, "expected": "bijection; earlier ids unchanged; all inputs present"})
            break
        seen = dict(idx)
    return {"n_checks": len(ops), "fails": fails, "nontrivial": True, "sample": {"seed": seed, "ops": len(ops)}}


def _launch_query_vcs() -> List[core.VC]:
    from contracts import C14

    return C14.query_vcs(PROP)


_RENUMBER_GETTERS = {
    "temporal": lambda ta, rk: ta.get_temporal_breakdown(visualize=False),
    "kernel": lambda ta, rk: ta.get_gpu_kernel_breakdown(visualize=False, num_kernels=3),
    "overlap": lambda ta, rk: ta.get_comm_comp_overlap(visualize=False),
    "launch": lambda ta, rk: ta.get_cuda_kernel_launch_stats(ranks=rk, visualize=False),
    "queue": lambda ta, rk: ta.get_queue_length_time_series(ranks=rk),
    "queue_summary": lambda ta, rk: ta.get_queue_length_summary(ranks=rk),
    "idle": lambda ta, rk: ta.get_idle_time_breakdown(ranks=[0], visualize=False, show_idle_interval_stats=False),
    "membw": lambda ta, rk: ta.get_memory_bw_time_series(ranks=rk),
    "critical_path": lambda ta, rk: ta.critical_path_analysis(rank=0, annotation="ProfilerStep", instance_id=0),
}


def _renumber(ta, first: str) -> None:
    """the same loaded trace under another numbering of its symbols: `first` gets id 0, the others follow in reversed order"""
    from hta.common.trace_symbol_table import TraceSymbolTable

    t = ta.t
    old = list(t.symbol_table.get_sym_table())
    order = [first] + [s for s in reversed(old) if s != first]
    st = TraceSymbolTable()
    st.add_symbols(order)
    new_id = st.get_sym_id_map()
    remap = {i: new_id[s] for i, s in enumerate(old)}
    for rk in t.traces:
        df = t.traces[rk]
        for c in ("name", "cat"):
            df[c] = df[c].map(lambda i: remap.get(int(i), int(i))).astype("int64")
    t.symbol_table = st


def _renumber_case(arg) -> Dict[str, Any]:
    """Every analysis getter on one loaded trace set vs. the same getters after the symbol table was renumbered so that a chosen
    symbol owns id 0 -- once for every symbol of the trace in the thorough tier, for the launch / sync / category names and a sample otherwise."""
    from hv import gen, history, rt

    seed, thorough = arg
    per_rank = gen.gen_trace_set(seed, n_ranks=1 + seed % 2, steps=2, n_top=2, n_streams=2, p_launch=0.8, p_memcpy=0.3, p_sync=0.2)
    if seed % 2 == 0:
        # five kernel names with EXACTLY equal totals (3 x 20 each), more names than the breakdown keeps (num_kernels=3): which of the tied
        # names keep a row of their own must not depend on the numbering of the symbols
        from hv import synth

        evs = per_rank[0]
        step = next(e for e in evs if str(e.get("name", "")).startswith("ProfilerStep"))
        corr = 900_000
        for k, nm in enumerate(["void tie_kernel_c", "void tie_kernel_a", "void tie_kernel_e", "void tie_kernel_b", "void tie_kernel_d"]):
            for j in range(3):
                corr += 1
                t0 = step["ts"] + 1 + 2 * (3 * k + j)
                evs.append(synth.launch(t0, 1, corr, tid=99))
                evs.append(synth.kernel(nm, t0 + 1, 20, 21 + (k + j) % 2, corr))
    fails: List[Dict[str, Any]] = []
    n = 0
    with rt.trace_dir(per_rank) as d:
        base = rt.load_analysis(d)
        ranks = sorted(base.t.traces)
        ref = {}
        for k, g in _RENUMBER_GETTERS.items():
            try:
                ref[k] = history.canon(g(base, ranks))
            except Exception as e:  # noqa: BLE001  (judged by the property that owns the getter)
                ref[k] = f"EXC {type(e).__name__}"
        syms = list(base.t.symbol_table.get_sym_table())
        special = [s for s in syms if s.startswith(("cuda", "cu", "hip")) or s in ("kernel", "gpu_memcpy", "gpu_memset", "cpu_op", "cuda_runtime", "user_annotation", "Context Sync", "Event Sync", "Stream Sync")
                   or s.startswith(("ProfilerStep", "Memcpy", "Memset", "nccl"))]
        chosen = syms if thorough else (special + syms[:: max(1, len(syms) // 4)])[:14]
        for first in dict.fromkeys(chosen):
            ta = rt.load_analysis(d)
            _renumber(ta, first)
            for k, g in _RENUMBER_GETTERS.items():
                try:
                    got = history.canon(g(ta, ranks))
                except Exception as e:  # noqa: BLE001
                    got = f"EXC {type(e).__name__}"
                n += 1
                if got != ref[k] and len(fails) < 3:
                    fails.append({"what": f"renumbered.{k}", "input": {"seed": seed, "symbol_given_id_0": first, "events": per_rank}, "observed": repr(got)[:500], "expected": repr(ref[k])[:500]})
    return {"n_checks": n, "fails": fails, "nontrivial": n > 0, "sample": {"seed": seed, "symbols": len(syms), "renumberings": len(set(chosen))}}


def bounded_renumber(ctx):
    from hv import rt

    n = 4 if not ctx.thorough else 16
    res = rt.pmap(_renumber_case, [(ctx.seed * 53 + 9000 + i, ctx.thorough) for i in range(n)], ctx.procs)
    return rt.summarise(res, f"{PROP}.renumbered", f"{n} generated trace sets: nine getters (breakdowns, overlap, launch statistics, queue length, memory bandwidth, idle time, critical path) on the loaded trace vs. "
                        "the same trace after its symbol table was renumbered so that a chosen symbol owns id 0 (every launch / sync / category / step name and a sample of the others; every symbol in the thorough tier)")


def _decode_history_case(seed: int) -> Dict[str, Any]:
    """Trace.decode_symbol_ids in both modes, in both orders, on one loaded trace: with use_shorten_name=False every row's s_name / s_cat is the
    string of the file event at its id (whatever was decoded before); with True it is shorten_name of that string."""
    import contextlib
    import io

    from hv import gen, rt
    from hta.utils.utils import shorten_name

    per_rank = gen.gen_trace_set(seed, n_ranks=1 + seed % 2, steps=2, n_top=2, n_streams=2, p_launch=0.9)
    fails: List[Dict[str, Any]] = []
    n = 0
    with rt.trace_dir(per_rank) as d, contextlib.redirect_stdout(io.StringIO()):
        t = rt.load_trace(d, True, use_multiprocessing=False)
        files = {rk: {i: e for i, e in gen.complete_events(evs)} for rk, evs in per_rank.items()}
        order = [True, False, True, False] if seed % 2 else [False, True, False]
        for step, short in enumerate(order):
            t.decode_symbol_ids(use_shorten_name=short)
            for rk in per_rank:
                df = t.get_trace(rk)
                n += 1
                for i, sn, sc in zip(df["index"], df["s_name"], df["s_cat"]):
                    e = files[rk][int(i)]
                    wn, wc = (shorten_name(e["name"]), shorten_name(e["cat"])) if short else (e["name"], e["cat"])
                    if sn != wn or sc != wc:
                        fails.append({"what": "decoded_strings_after_a_history_of_decodes", "input": {"seed": seed, "decode_calls_use_shorten_name": order[: step + 1], "rank": rk, "events": per_rank},
                                      "observed": {"event": int(i), "s_name": sn, "s_cat": sc}, "expected": {"s_name": wn, "s_cat": wc}})
                        break
                if fails:
                    break
            if fails:
                break
    return {"n_checks": n, "fails": fails, "nontrivial": n > 0, "sample": {"seed": seed, "order": order}}


def bounded_decode_history(ctx):
    from hv import rt

    k = 8 if not ctx.thorough else 80
    res = rt.pmap(_decode_history_case, [ctx.seed * 61 + 300 + i for i in range(k)], ctx.procs)
    return rt.summarise(res, f"{PROP}.decode_history", f"{k} loaded trace sets: decode_symbol_ids(short) / (long) alternating 3-4 times on one Trace, every row's s_name / s_cat against the file's strings")


def bounded_matrix(ctx):
    from hv import rt

    n = 3 if not ctx.thorough else 12
    res = rt.pmap(_matrix_case, [ctx.seed * 31 + i for i in range(n)] + [-(ctx.seed * 31 + 7)], min(ctx.procs, n + 1))
    return rt.summarise(res, f"{PROP}.bounded", f"{n} multi-rank trace sets with rank-specific vocabularies + 1 set with a 300-symbol rank next to small-vocabulary ranks; 12 configurations each (PYTHONHASHSEED 0-3 x multiprocessing on/off x reversed "
                        "rank discovery order for two seeds); digest over decoded loaded frames and six getters")


def bounded_seq(ctx):
    from hv import rt

    n = 300 if not ctx.thorough else 5000
    res = rt.pmap(_seq_case, [ctx.seed * 17 + i for i in range(n)], ctx.procs)
    return rt.summarise(res, f"{PROP}.bounded_seq", f"{n} random sequences of add_symbols (list/set/tuple inputs, repeats), clone and combine on the real TraceSymbolTable")


def units(ctx):
    return [core.Unit(f"{PROP}.add_symbols", add_symbols_vcs, [ST + ".TraceSymbolTable.add_symbols"]),
            core.Unit(f"{PROP}.reencode", reencode_vcs, [TR + ".Trace.parse_multiple_ranks", TR + ".Trace.parse_single_rank", ST + ".TraceSymbolTable.update_encoded_df"]),
            core.Unit(f"{PROP}.launch_query", _launch_query_vcs, [ST + ".TraceSymbolTable.get_runtime_launch_events_query"]),
            core.Unit(f"{PROP}.structure", structure_vcs, [ST + ".TraceSymbolTable.clone", ST + ".TraceSymbolTable.combine_symbol_tables", ST + ".TraceSymbolTable.add_symbols_mp"])]


SPEC = Spec(
    prop=PROP, level="other",
    functions=[(ST, "TraceSymbolTable.add_symbols"), (ST, "TraceSymbolTable.add_symbols_mp"), (ST, "TraceSymbolTable.clone"), (ST, "TraceSymbolTable.combine_symbol_tables"),
               (ST, "TraceSymbolTable.encode_df"), (ST, "TraceSymbolTable.decode_df"), (ST, "TraceSymbolTable.update_encoded_df"), (TR, "Trace.parse_single_rank"),
               (TR, "Trace.parse_multiple_ranks"), (TP, "_compress_df"), (ST, "TraceSymbolTable.get_runtime_launch_events_query")],
    units=units, bounded=[Bounded("numbering_independence_matrix", bounded_matrix), Bounded("add_sequences", bounded_seq), Bounded("renumbered_symbol_table", bounded_renumber), Bounded("decode_history", bounded_decode_history)],
    trusted=["multiprocessing.Pool.map returns results in argument order; Manager().Queue drain yields some permutation of what was put",
             "python list.append / dict insertion / `in` as modelled by PyVC (arrays + quantifiers)"],
    explanation="Proved: the bijection / prefix-stability / presence invariant of add_symbols for every input sequence, and that every (re-)encoding and decoding lambda preserves the "
                "string an id stands for. The independence of ALL analysis results from numbering, hash seed, parse order and pool completion order is a 2-safety property of the "
                "whole library: no contract within reach states it; it is covered by the bounded configuration matrix only (labelled bounded).",
)
