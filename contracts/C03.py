"""C03 — call stack: parent = innermost enclosing event (both builders).

Deductive part (z3, from the AST of the real functions):
  * comparator order obligations on `_less_than` (+ inlined `_cmp_events_with_zero_duration`) and `compare_events`:
    totality / asymmetry / transitivity (= precondition of the `sorted`/`cmp_to_key` contract) and the orderings the
    tree depends on (T0, R1, R2a, R2b, R3, R5 of DESIGN.md section 5/C03);
  * loop body of both `_construct_call_stack_graph` against the push-on-open / pop-on-close transition function;
  * `_add_edge` of both builders against its contract (parent link, depth = parent depth + 1, appended once).
Bounded stand-in: both real builders on every laminar family of <= k spans on a small grid, against the spec oracle.
"""
from __future__ import annotations

import ast
import itertools
import os
from typing import Any, Dict, List, Tuple

import z3

from hv import core, extract, pyvc
from hv.driver import Bounded, Spec
from hv.pyvc import to_z3

TCS = "hta.common.trace_call_stack"
CS = "hta.common.call_stack"
PROP = "C03"

KNOWN_D4 = "C03-D4-zero-duration-at-shared-close-open-instant"

# ---------------------------------------------------------------------------------------------- symbolic endpoints


class Ev:
    def __init__(self, name: str):
        self.idx = z3.Int(f"{name}_idx")
        self.ts = z3.Real(f"{name}_ts")  # instants and durations are reals: Kineto writes fractional microseconds
        self.dur = z3.Real(f"{name}_dur")
        self.name = name

    @property
    def end(self):
        return self.ts + self.dur

    def wf(self):
        return z3.And(self.dur >= 0, self.idx >= 0)


class Ep:
    """An endpoint: an event plus a side."""

    def __init__(self, name: str):
        self.ev = Ev(name)
        self.open = z3.Bool(f"{name}_open")
        self.name = name

    @property
    def time(self):
        return z3.If(self.open, self.ev.ts, self.ev.end)

    def vars(self):
        return {f"{self.name}.idx": self.ev.idx, f"{self.name}.ts": self.ev.ts, f"{self.name}.dur": self.ev.dur, f"{self.name}.open": self.open}


def laminar(a: Ev, b: Ev):
    return z3.Or(a.end <= b.ts, b.end <= a.ts, z3.And(a.ts <= b.ts, b.end <= a.end), z3.And(b.ts <= a.ts, a.end <= b.end))


def coherent(p: Ep, q: Ep):
    """p and q are distinct endpoints of a well-formed thread: same id => same event, opposite sides; else laminar."""
    same = p.ev.idx == q.ev.idx
    return z3.And(
        p.ev.wf(), q.ev.wf(),
        z3.If(same, z3.And(p.ev.ts == q.ev.ts, p.ev.dur == q.ev.dur, p.open != q.open), laminar(p.ev, q.ev)),
    )


def contains(a: Ev, b: Ev):
    """a is a (strict, in file order for identical spans) container of positive-duration b."""
    return z3.And(a.idx != b.idx, a.dur > 0, b.dur > 0, a.ts <= b.ts, b.end <= a.end,
                  z3.Or(a.ts != b.ts, a.end != b.end, a.idx < b.idx))


# ---------------------------------------------------------------------------------------------- comparator translation


def _less_new_factory():
    """Returns less(p, q) -> (z3 Bool, raise_conditions) generated from the AST of _less_than / _cmp_events_with_zero_duration."""
    f_less = extract.get_function(TCS, "_less_than")
    f_cmp0 = extract.get_function(TCS, "_cmp_events_with_zero_duration")
    consts = extract.module_constants(TCS)
    less_ast = extract.stripped(f_less)
    cmp0_ast = extract.stripped(f_cmp0)

    def less(p: Ep, q: Ep):
        raises: List[Any] = []
        ex = pyvc.Exec(consts=consts, name="C03.less_than")
        ex.intrinsics["_cmp_events_with_zero_duration"] = pyvc.inline_function(
            cmp0_ast, on_raise=lambda pc, exc: raises.append(pyvc.z_and(*pc)))

        def row(e: Ep):
            kind = z3.If(e.open, z3.IntVal(consts["OPEN_END"]), z3.IntVal(consts["CLOSE_END"]))
            r = [None] * 4
            r[consts["_I_INDEX"]] = e.ev.idx
            r[consts["_I_DUR"]] = e.ev.dur
            r[consts["_I_KIND"]] = kind
            r[consts["_I_TIME"]] = e.time
            return r

        outs = ex.run_function(less_ast, {"x": row(p), "y": row(q)})
        val, rc = pyvc.merged_return(outs)
        if rc is not False:
            raises.append(rc)
        return pyvc.to_z3(pyvc.truth(val)), raises

    return less, [f_less, f_cmp0]


def _less_old_factory():
    f = extract.get_function(CS, "compare_events")
    consts = extract.module_constants(CS)
    fast = extract.stripped(f)

    def less(p: Ep, q: Ep):
        ex = pyvc.Exec(consts=consts, name="C03.compare_events")

        def ev(e: Ep):
            typ = z3.If(e.open, z3.IntVal(consts["EVENT_START"]), z3.IntVal(consts["EVENT_END"]))
            return pyvc.Record("Event", {"idx": e.ev.idx, "time": e.time, "dur": e.ev.dur, "type": typ}, frozen=True)

        outs = ex.run_function(fast, {"x": ev(p), "y": ev(q)})
        val, rc = pyvc.merged_return(outs)
        raises = [] if rc is False else [rc]
        return pyvc.to_z3(val) < 0, raises

    return less, [f]


def comparator_vcs(tag: str, factory, total_strict: bool) -> List[core.VC]:
    less, fns = factory()
    fq = [f.fq for f in fns]
    p, q, r = Ep("p"), Ep("q"), Ep("r")
    mv = {}
    for e in (p, q, r):
        mv.update(e.vars())
    lpq, r1 = less(p, q)
    lqp, r2 = less(q, p)
    lqr, r3 = less(q, r)
    lpr, r4 = less(p, r)
    lrq, r5 = less(r, q)
    lrp, r6 = less(r, p)
    c_pq, c_qr, c_pr = coherent(p, q), coherent(q, r), coherent(p, r)
    vcs: List[core.VC] = []
    name = f"{PROP}.{tag}"

    def vc(n, hyps, goal, note="", known=None, mvars=None):
        vcs.append(core.VC(f"{name}.{n}", hyps, goal, "vc", fq, mvars or mv, known or {}, note))

    # absence of the explicit raise
    vc("noraise", [c_pq], z3.Not(z3.Or(*[pyvc.to_z3(x) for x in r1])) if r1 else z3.BoolVal(True), "comparator never raises on endpoints of a well-formed thread")
    same_inst_close = z3.And(z3.Not(p.open), z3.Not(q.open), p.time == q.time)
    if total_strict:
        vc("total", [c_pq], z3.Or(lpq, lqp), "any two distinct endpoints are ordered one way")
    else:
        vc("total", [c_pq], z3.Or(lpq, lqp, same_inst_close), "incomparable endpoints are only close/close at one instant (pops are anonymous)")
    vc("asym", [c_pq], z3.Not(z3.And(lpq, lqp)), "not both x<y and y<x")

    # known class of D4: a zero-duration endpoint, a positive close and a positive open at one instant
    def cls(eps):
        same_t = z3.And(*[eps[0].time == e.time for e in eps[1:]])
        zero = z3.Or(*[e.ev.dur == 0 for e in eps])
        pclose = z3.Or(*[z3.And(e.ev.dur > 0, z3.Not(e.open)) for e in eps])
        popen = z3.Or(*[z3.And(e.ev.dur > 0, e.open) for e in eps])
        return z3.And(same_t, zero, pclose, popen)

    trans_hyps = [c_pq, c_qr, c_pr, lpq, lqr]
    if not total_strict:
        # compare_events is not a strict weak order on three zero-duration events at one instant (close/close of equal
        # spans compare 1/0 while open/close compare by id).  The tree clauses do not depend on the relative order of such
        # endpoints beyond R1 (pops are anonymous, every open precedes its own close), so that class is excluded here and
        # covered by R1 + the exhaustive bounded stage (DESIGN.md, C03, "false alarm corrected").
        trans_hyps.append(z3.Not(z3.And(p.time == q.time, q.time == r.time, p.ev.dur == 0, q.ev.dur == 0, r.ev.dur == 0)))
    vc("trans", trans_hyps, lpr,
       "transitivity: with totality and asymmetry this is the strict-order precondition of sorted(key=cmp_to_key(...))",
       known={KNOWN_D4: cls([p, q, r])})
    if not total_strict:
        vc("incomp_trans", [c_pq, c_qr, c_pr, z3.Not(lpq), z3.Not(lqp), z3.Not(lqr), z3.Not(lrq)], z3.And(z3.Not(lpr), z3.Not(lrp)),
           "incomparability is transitive (strict weak order)")
    # orderings the tree depends on
    vc("T0_time", [c_pq, p.time < q.time], lpq, "earlier endpoint first")
    a, b = Ep("a"), Ep("b")
    mab = {}
    mab.update(a.vars())
    mab.update(b.vars())

    def ep(e: Ep, is_open: bool) -> Ep:
        x = Ep.__new__(Ep)
        x.ev, x.open, x.name = e.ev, z3.BoolVal(is_open), e.name
        return x

    oa, ca, ob, cb = ep(a, True), ep(a, False), ep(b, True), ep(b, False)
    wfab = z3.And(a.ev.wf(), b.ev.wf(), a.ev.idx != b.ev.idx, laminar(a.ev, b.ev))
    vc("R1_open_before_own_close", [a.ev.wf()], less(oa, ca)[0], "an event opens before it closes (also for zero duration)", mvars=a.vars())
    vc("R2a_container_opens_first", [wfab, contains(a.ev, b.ev)], less(oa, ob)[0], "the enclosing event (file order for identical spans) opens first", mvars=mab)
    vc("R2b_inner_opens_before_container_closes", [wfab, contains(a.ev, b.ev)], less(ob, ca)[0], "", mvars=mab)
    vc("R2c_container_does_not_close_first", [wfab, contains(a.ev, b.ev)], z3.Not(less(ca, ob)[0]), "", mvars=mab)
    vc("R3_touching_are_siblings", [wfab, a.ev.dur > 0, b.ev.dur > 0, a.ev.end <= b.ev.ts], less(ca, ob)[0],
       "a positive event that ends where another begins closes first (siblings)", mvars=mab)
    # R5: nothing of a positive event sorts between the two ends of a zero-duration event
    e = Ep("e")
    z = Ep("z")
    oz, cz = ep(z, True), ep(z, False)
    mz = {}
    mz.update(e.vars())
    mz.update(z.vars())
    vc("R5_zero_duration_brackets_nothing_positive",
       [z.ev.wf(), e.ev.wf(), z.ev.dur == 0, e.ev.dur > 0, z.ev.idx != e.ev.idx, laminar(z.ev, e.ev)],
       z3.Not(z3.And(less(oz, e)[0], less(e, cz)[0])), "a zero-duration event never becomes the parent of a positive one", mvars=mz)
    # guards
    vcs.append(core.VC(f"{name}.guard.hyps_satisfiable", [c_pq, c_qr, c_pr, lpq, lqr], z3.BoolVal(True), "vacuity", fq))
    vcs.append(core.VC(f"{name}.guard.canary_false", [c_pq, p.time < q.time], z3.BoolVal(False), "canary", fq, note="`False` behind the hypotheses must be refutable"))
    return vcs


# ---------------------------------------------------------------------------------------------- loop body and _add_edge


class EdgeLog:
    def __init__(self):
        self.calls: List[Tuple[Any, Any, Any]] = []  # (path condition, parent, child)


def loop_body_vcs_new() -> List[core.VC]:
    """One iteration of the `for ev_idx, _, ev_kind, _ in events` loop of the new builder against the transition function."""
    f = extract.get_function(TCS, "CallStackGraph._construct_call_stack_graph")
    node = extract.stripped(f)
    loops = [n for n in ast.walk(node) if isinstance(n, ast.For)]
    if len(loops) != 1:
        raise pyvc.Unsupported(f"expected exactly one for-loop in the new builder, found {len(loops)}")
    loop = loops[0]
    it = loop.iter
    if not (isinstance(it, ast.Name) and it.id == "events"):
        raise pyvc.Unsupported("the builder loop no longer iterates over `events`")
    # the statements between the array construction and the loop must only be the sortedness checks and `stack = []`
    consts = extract.module_constants(TCS)
    idx, dur, kind, tm = z3.Ints("ev_idx ev_dur ev_kind ev_time")
    root = z3.Int("root_index")
    stack = pyvc.SymList(z3.IntSort(), "stack")
    len0, arr0 = stack.length, stack.arr
    log = EdgeLog()
    ex = pyvc.Exec(consts=consts, name=f"{PROP}.tcs.loop")

    def add_edge(exq, pc, env, obj, args, kwargs):
        log.calls.append((list(pc), args[0], args[1]))
        return None

    ex.methods["Record._add_edge"] = add_edge
    ex.methods["CallStackGraph._add_edge"] = add_edge
    selfrec = pyvc.Record("CallStackGraph", {"root_index": root})
    env = {"self": selfrec, "stack": stack}
    pc0 = [stack.length >= 0, z3.Or(kind == -1, kind == 1)]
    env = ex.assign(loop.target, (idx, dur, kind, tm), pc0, env)
    outs = ex.exec_block(loop.body, pc0, env)
    vcs: List[core.VC] = []
    fq = [f.fq]
    mv = {"ev_idx": idx, "ev_kind": kind, "stack_len": len0}
    name = f"{PROP}.tcs.loop"
    is_open = kind == consts["OPEN_END"]
    for pv in ex.vcs:
        vcs.append(core.VC(pv.name, pv.hyps, pv.goal, "vc", fq, mv, note=pv.note))
    # spec: open => exactly one edge (top or root -> ev), push; close => no edge, pop if non-empty
    edge_conds = []
    for pc, par, ch in log.calls:
        c = z3.And(*[pyvc.to_z3(x) for x in pc])
        edge_conds.append(c)
        exp_parent = z3.If(len0 > 0, z3.Select(arr0, len0 - 1), root)
        vcs.append(core.VC(f"{name}.edge_parent_is_top", [c], z3.And(is_open, pyvc.to_z3(par) == exp_parent, pyvc.to_z3(ch) == idx), "vc", fq, mv,
                           note="an edge is added only on open, from the stack top (root if empty) to the opening event"))
    any_edge = z3.Or(*edge_conds) if edge_conds else z3.BoolVal(False)
    vcs.append(core.VC(f"{name}.open_adds_one_edge", pc0 + [is_open], any_edge, "vc", fq, mv, note="every opening endpoint gets a parent"))
    if len(edge_conds) > 1:
        vcs.append(core.VC(f"{name}.at_most_one_edge", pc0, z3.AtMost(*edge_conds, 1), "vc", fq, mv))
    for o in outs:
        if o.kind not in ("fall", "continue"):
            raise pyvc.Unsupported("loop body leaves the loop")
        st: pyvc.SymList = o.env["stack"]
        c = [pyvc.to_z3(x) for x in o.pc]
        exp_len = z3.If(is_open, len0 + 1, z3.If(len0 > 0, len0 - 1, 0))
        j = z3.Int("j")
        vcs.append(core.VC(f"{name}.stack_transition", c,
                           z3.And(st.length == exp_len,
                                  z3.Implies(is_open, st.at(len0) == idx),
                                  z3.Implies(z3.And(j >= 0, j < z3.If(is_open, len0, exp_len)), st.at(j) == z3.Select(arr0, j))),
                           "vc", fq, dict(mv, j=j), note="push on open, pop top on close (if non-empty), rest of the stack unchanged"))
    vcs.append(core.VC(f"{name}.guard.canary_false", pc0 + [is_open], z3.BoolVal(False), "canary", fq))
    return vcs


def loop_body_vcs_old() -> List[core.VC]:
    f = extract.get_function(CS, "CallStackGraph._construct_call_stack_graph")
    node = extract.stripped(f)
    loops = [n for n in ast.walk(node) if isinstance(n, ast.For)]
    main = [lp for lp in loops if isinstance(lp.iter, ast.Name) and lp.iter.id == "events"]
    if len(main) != 1:
        raise pyvc.Unsupported("expected exactly one loop over `events` in the old builder")
    loop = main[0]
    consts = extract.module_constants(CS)
    idx, tm, dur, typ = z3.Ints("e_idx e_time e_dur e_type")
    e = pyvc.Record("Event", {"idx": idx, "time": tm, "dur": dur, "type": typ}, frozen=True)
    # stack of Events: model as list of idx (only .idx of stack entries is read)
    stack = pyvc.SymList(z3.IntSort(), "stack")
    len0, arr0 = stack.length, stack.arr
    seen = pyvc.SymSet(z3.IntSort(), "seen")
    log = EdgeLog()
    ex = pyvc.Exec(consts=consts, name=f"{PROP}.cs.loop")

    def add_edge(exq, pc, env, obj, args, kwargs):
        log.calls.append((list(pc), args[0], args[1]))
        return None

    ex.methods["Record._add_edge"] = add_edge

    class EvStack(pyvc.SymList):
        pass

    # stack elements are Events; wrap: getitem returns a Record with idx field only
    def st_getitem(exq, pc, obj, i, n):
        v = pyvc.Exec.getitem(exq, obj.inner, i, pc, n)
        return pyvc.Record("Event", {"idx": v}, frozen=True)

    class StackOfEvents:
        def __init__(self, inner):
            self.inner = inner

        def __deepcopy__(self, memo):
            import copy as _c
            return StackOfEvents(_c.deepcopy(self.inner, memo))

    def st_append(exq, pc, env, obj, args, kwargs):
        obj.inner.append(args[0].fields["idx"])

    def st_pop(exq, pc, env, obj, args, kwargs):
        if args and args[0] != -1:
            raise pyvc.Unsupported("pop index")
        exq.oblige("indexerror_pop", pc, obj.inner.length > 0, "pop from empty list")
        return pyvc.Record("Event", {"idx": obj.inner.pop_last()}, frozen=True)

    ex.methods["getitem:StackOfEvents"] = st_getitem
    ex.methods["StackOfEvents.append"] = st_append
    ex.methods["StackOfEvents.pop"] = st_pop
    old_len = pyvc._BUILTINS["len"]

    @pyvc.intrinsic
    def my_len(exq, pc, env, args, kwargs):
        if isinstance(args[0], StackOfEvents):
            return args[0].inner.length
        return old_len(exq, pc, args, kwargs)

    ex.intrinsics["len"] = my_len
    sstack = StackOfEvents(stack)
    selfrec = pyvc.Record("CallStackGraph", {})
    j = z3.Int("j")
    pc0 = [stack.length >= 0, z3.Or(typ == 1, typ == -1),
           # ghost invariant: everything on the stack has been seen (pushed together with seen.add)
           z3.ForAll([j], z3.Implies(z3.And(j >= 0, j < len0), seen.has(z3.Select(arr0, j))))]
    env = {"self": selfrec, "stack": sstack, "seen_nodes": seen}
    env = ex.assign(loop.target, e, pc0, env)
    outs = ex.exec_block(loop.body, pc0, env)
    vcs: List[core.VC] = []
    fq = [f.fq]
    mv = {"e_idx": idx, "e_type": typ, "stack_len": len0}
    name = f"{PROP}.cs.loop"
    is_open = typ == consts["EVENT_START"]
    for pv in ex.vcs:
        vcs.append(core.VC(pv.name, pv.hyps, pv.goal, "vc", fq, mv, note=pv.note))
    edge_conds = []
    null_idx = consts["NULL_NODE_INDEX"]
    for pc, par, ch in log.calls:
        c = z3.And(*[pyvc.to_z3(x) for x in pc])
        edge_conds.append(c)
        exp_parent = z3.If(len0 > 0, z3.Select(arr0, len0 - 1), z3.IntVal(null_idx))
        vcs.append(core.VC(f"{name}.edge_parent_is_top", [c], z3.And(is_open, pyvc.to_z3(par) == exp_parent, pyvc.to_z3(ch) == idx), "vc", fq, mv))
    any_edge = z3.Or(*edge_conds) if edge_conds else z3.BoolVal(False)
    vcs.append(core.VC(f"{name}.open_adds_one_edge", pc0 + [is_open], any_edge, "vc", fq, mv))
    if len(edge_conds) > 1:
        vcs.append(core.VC(f"{name}.at_most_one_edge", pc0, z3.AtMost(*edge_conds, 1), "vc", fq, mv))
    for o in outs:
        if o.kind not in ("fall", "continue"):
            raise pyvc.Unsupported("loop body leaves the loop")
        st = o.env["stack"].inner
        c = [pyvc.to_z3(x) for x in o.pc]
        exp_len = z3.If(is_open, len0 + 1, z3.If(len0 > 0, len0 - 1, 0))
        jj = z3.Int("jj")
        vcs.append(core.VC(f"{name}.stack_transition", c,
                           z3.And(st.length == exp_len, z3.Implies(is_open, st.at(len0) == idx),
                                  z3.Implies(z3.And(jj >= 0, jj < z3.If(is_open, len0, exp_len)), st.at(jj) == z3.Select(arr0, jj))),
                           "vc", fq, dict(mv, jj=jj)))
    vcs.append(core.VC(f"{name}.guard.canary_false", pc0 + [is_open], z3.BoolVal(False), "canary", fq))
    return vcs


class NodesModel:
    """`self.nodes`: dict id -> CallStackNode, as maps present/parent/depth plus a log of children appends."""

    def __init__(self):
        self.present = pyvc.SymSet(z3.IntSort(), "nodes_present")
        self.parent = pyvc.fresh("nodes_parent", z3.ArraySort(z3.IntSort(), z3.IntSort()))
        self.depth = pyvc.fresh("nodes_depth", z3.ArraySort(z3.IntSort(), z3.IntSort()))
        self.appends: List[Tuple[Any, Any, Any]] = []  # (pc, owner, child)
        self.created: List[Tuple[Any, Any, Dict[str, Any]]] = []  # (pc, key, fields)

    def __deepcopy__(self, memo):
        return self  # single-path bookkeeping: writes are logged with their path condition


class NodeRef:
    def __init__(self, model: NodesModel, key):
        self.model, self.key = model, key


class ChildrenRef:
    def __init__(self, model: NodesModel, key):
        self.model, self.key = model, key


def add_edge_vcs(module: str, tag: str, new_style: bool) -> List[core.VC]:
    f = extract.get_function(module, "CallStackGraph._add_edge")
    node = extract.stripped(f)
    consts = extract.module_constants(module)
    nodes = NodesModel()
    present0, parent0, depth0 = nodes.present.dom, nodes.parent, nodes.depth
    ex = pyvc.Exec(consts=consts, name=f"{PROP}.{tag}.add_edge")
    state = {"present": present0, "parent": parent0, "depth": depth0}

    def contains_hook(exq, container, item):
        return z3.Select(state["present"], pyvc.to_z3(item))

    def getitem(exq, pc, obj, idx, n):
        exq.oblige(f"keyerror@L{getattr(n, 'lineno', 0)}", pc, z3.Select(state["present"], pyvc.to_z3(idx)), "KeyError absence on self.nodes[...]")
        return NodeRef(obj, pyvc.to_z3(idx))

    def setitem(exq, pc, env, obj, idx, v):
        if not isinstance(v, pyvc.Record):
            raise pyvc.Unsupported("nodes[...] = non-node")
        cond = z3.And(*[pyvc.to_z3(c) for c in pc]) if pc else z3.BoolVal(True)
        k = pyvc.to_z3(idx)
        nodes.created.append((cond, k, dict(v.fields)))
        state["present"] = z3.If(cond, z3.Store(state["present"], k, z3.BoolVal(True)), state["present"])
        state["parent"] = z3.If(cond, z3.Store(state["parent"], k, pyvc.to_z3(v.fields["parent"])), state["parent"])
        state["depth"] = z3.If(cond, z3.Store(state["depth"], k, pyvc.to_z3(v.fields["depth"])), state["depth"])

    ex.methods["getitem:NodesModel"] = getitem
    ex.methods["setitem:NodesModel"] = setitem
    orig_contains = ex.contains

    def contains(container, item):
        if isinstance(container, NodesModel):
            return contains_hook(ex, container, item)
        return orig_contains(container, item)

    ex.contains = contains
    orig_attr = ex.ex_Attribute

    def ex_attr(n, pc, env):
        obj = ex.eval(n.value, pc, env)
        if isinstance(obj, NodeRef):
            if n.attr == "depth":
                return z3.Select(state["depth"], obj.key)
            if n.attr == "parent":
                return z3.Select(state["parent"], obj.key)
            if n.attr == "children":
                return ChildrenRef(obj.model, obj.key)
            raise pyvc.Unsupported(f"node attribute {n.attr}")
        return orig_attr(n, pc, env)

    ex.ex_Attribute = ex_attr

    def children_append(exq, pc, env, obj, args, kwargs):
        cond = z3.And(*[pyvc.to_z3(c) for c in pc]) if pc else z3.BoolVal(True)
        nodes.appends.append((cond, obj.key, pyvc.to_z3(args[0])))

    ex.methods["ChildrenRef.append"] = children_append
    if new_style:
        ctor = pyvc.RecordCtor("CallStackNode", ["parent", "depth", "height", "device", "children"])
        devcls = pyvc.EnumCls("DeviceType", {"UNKNOWN": 0, "CPU": 1, "GPU": 2})
        ex.consts["DeviceType"] = devcls
    else:
        ctor = pyvc.RecordCtor("CallStackNode", ["parent", "depth", "children"])
    ex.consts["CallStackNode"] = ctor
    root = z3.Int("root_index")
    num_err = z3.Int("num_errors")
    selfrec = pyvc.Record("CallStackGraph", {"nodes": nodes, "root_index": root, "_num_errors": num_err})
    par, ch = z3.Ints("parent_index child_index")
    args = {"self": selfrec, "parent_index": par, "child_index": ch}
    outs = ex.run_function(node, args, [])
    fq = [f.fq]
    mv = {"parent_index": par, "child_index": ch, "child_present": z3.Select(present0, ch), "parent_present": z3.Select(present0, par)}
    name = f"{PROP}.{tag}.add_edge"
    vcs: List[core.VC] = []
    for pv in ex.vcs:
        vcs.append(core.VC(pv.name, pv.hyps, pv.goal, "vc", fq, mv, note=pv.note))
    for o in outs:
        if o.kind == "raise":
            vcs.append(core.VC(f"{name}.noraise", [pyvc.to_z3(c) for c in o.pc], z3.BoolVal(False), "vc", fq, mv))
    fresh_child = z3.Not(z3.Select(present0, ch))
    P, Pa, D = state["present"], state["parent"], state["depth"]
    # post for a child that was not yet in the graph and a parent that is
    pre = [fresh_child, z3.Select(present0, par), par != ch]
    vcs.append(core.VC(f"{name}.child_created", pre,
                       z3.And(z3.Select(P, ch), z3.Select(Pa, ch) == par, z3.Select(D, ch) == z3.Select(depth0, par) + 1),
                       "vc", fq, mv, note="the child node exists afterwards with parent = parent_index and depth = depth(parent) + 1"))
    app_conds = [z3.And(c, owner == par, child == ch) for c, owner, child in nodes.appends]
    other_app = [z3.And(c, z3.Not(z3.And(owner == par, child == ch))) for c, owner, child in nodes.appends]
    # children list of the created child is empty and children of parent gains exactly the child
    child_nodes_created = [(c, k, flds) for c, k, flds in nodes.created]
    listed_in_ctor = []
    for c, k, flds in child_nodes_created:
        chl = flds.get("children")
        if isinstance(chl, list):
            for x in chl:
                listed_in_ctor.append(z3.And(c, k == par, pyvc.to_z3(x) == ch))
    vcs.append(core.VC(f"{name}.child_listed_once", pre, z3.And(z3.PbEq([(x, 1) for x in app_conds + listed_in_ctor], 1) if (app_conds + listed_in_ctor) else z3.BoolVal(False),
                                                                 z3.Not(z3.Or(*other_app)) if other_app else z3.BoolVal(True)),
                       "vc", fq, mv, note="the child is appended to its parent's children exactly once and nowhere else"))
    k = z3.Int("k")
    vcs.append(core.VC(f"{name}.frame_other_nodes", pre + [k != ch, z3.Select(present0, k)],
                       z3.And(z3.Select(P, k), z3.Select(Pa, k) == z3.Select(parent0, k), z3.Select(D, k) == z3.Select(depth0, k)),
                       "vc", fq, dict(mv, k=k), note="existing nodes keep parent and depth"))
    vcs.append(core.VC(f"{name}.existing_child_untouched", [z3.Select(present0, ch), z3.Select(present0, k)],
                       z3.And(z3.Select(Pa, k) == z3.Select(parent0, k), z3.Select(D, k) == z3.Select(depth0, k),
                              z3.Not(z3.Or(*[c for c, _, _ in nodes.appends])) if nodes.appends else z3.BoolVal(True)),
                       "vc", fq, dict(mv, k=k), note="a second edge to an existing child changes nothing"))
    vcs.append(core.VC(f"{name}.guard.canary_false", pre, z3.BoolVal(False), "canary", fq))
    return vcs


# ---------------------------------------------------------------------------------------------- endpoint array construction


def _prefix_until_event_loop(fn_node, ex, env, is_main_loop):
    """Execute the statements of the builder up to (not including) the loop over `events`; single path expected."""
    pc: List[Any] = []
    for st in fn_node.body:
        if isinstance(st, ast.For) and is_main_loop(st):
            return pc, env, st
        outs = ex.exec_stmt(st, pc, env)
        live = [o for o in outs if o.kind == "fall"]
        if len(live) != 1:
            # early exits (raise / return) on conditions that are false under the contract's precondition are pruned by feasibility
            live = [o for o in live if ex.feasible(o.pc)]
        if len(live) != 1:
            raise pyvc.Unsupported(f"builder prefix forks at line {st.lineno}")
        pc, env = live[0].pc, live[0].env
    raise pyvc.Unsupported("loop over events not found")


def array_vcs_new() -> List[core.VC]:
    from hv import framevc as fv

    f = extract.get_function(TCS, "CallStackGraph._construct_call_stack_graph")
    node = extract.stripped(f)
    consts = extract.module_constants(TCS)
    name = f"{PROP}.tcs.array"
    fq = [f.fq]
    ex = pyvc.Exec(consts=consts, name=name)
    fv.install(ex)
    cols = {"index": (z3.IntSort(), False, "int"), "ts": (z3.IntSort(), False, "int"), "dur": (z3.RealSort(), False, "float"),
            "stream": (z3.IntSort(), False, "int"), "index_correlation": (z3.IntSort(), False, "int")}
    df = fv.SymDF.base("thread", cols)
    captured: Dict[str, Any] = {}
    devcls = pyvc.EnumCls("DeviceType", {"UNKNOWN": 0, "CPU": 1, "GPU": 2})
    ex.consts["DeviceType"] = devcls

    @pyvc.intrinsic
    def sort_events(exq, pc, env, args, kwargs):
        captured["sorted_arg"] = args[0]
        return None

    @pyvc.intrinsic
    def is_events_sorted(exq, pc, env, args, kwargs):
        return True  # established by the comparator obligations + the sorted() contract

    @pyvc.intrinsic
    def np_unique(exq, pc, env, args, kwargs):
        arr = args[0]
        if isinstance(arr, fv.FrameArray) and kwargs.get("axis") == 0:
            exq.oblige("unique_dtype", pc, z3.BoolVal(not arr.dtype_object),
                       "np.unique(events, axis=0) requires a numeric (non-object) array: every column of the melted frame must be numeric")
            return arr
        raise pyvc.Unsupported("np.unique pattern")

    ex.intrinsics["sort_events"] = sort_events
    ex.intrinsics["is_events_sorted"] = is_events_sorted
    npn = ex.consts["np"]
    npn.members["unique"] = np_unique
    old_len = pyvc._BUILTINS["len"]

    @pyvc.intrinsic
    def my_len(exq, pc, env, args, kwargs):
        if isinstance(args[0], fv.FrameArray):
            return z3.Int("len_events")
        return old_len(exq, pc, args, kwargs)

    ex.intrinsics["len"] = my_len
    selfrec = pyvc.Record("CallStackGraph", {"device_type": devcls.member("CPU"), "root_index": z3.Int("root_index")})
    pc, env, loop = _prefix_until_event_loop(node, ex, {"self": selfrec, "df": df}, lambda st: isinstance(st.iter, ast.Name) and st.iter.id == "events")
    events = env.get("events")
    if not isinstance(events, fv.FrameArray):
        raise pyvc.Unsupported("`events` is not the to_numpy() of a frame")
    if captured.get("sorted_arg") is not events:
        raise pyvc.Unsupported("sort_events is not applied to `events`")
    t = events.df
    vcs: List[core.VC] = []
    for pv in ex.vcs:
        vcs.append(core.VC(pv.name, pv.hyps, pv.goal, "vc", fq, {}, note=pv.note))
    # spec: exactly two rows per host event (stream == -1): (index, dur, -1, ts) and (index, dur, +1, ts + dur), columns in the comparator's order
    want = [None] * 4
    want[consts["_I_INDEX"]], want[consts["_I_DUR"]], want[consts["_I_KIND"]], want[consts["_I_TIME"]] = "index", "dur", "kind", "time"
    vcs.append(core.VC(f"{name}.column_order", [], z3.BoolVal(events.columns == want), "vc", fq, {}, note=f"array columns {events.columns} must be {want} (= _I_INDEX, _I_DUR, _I_KIND, _I_TIME)"))
    if events.columns == want and t.uni.arity == 2 and t.uni.parents and t.uni.parents[0] is df.uni:
        r = t.uni.skolem("m")
        base = (r[0],)
        host = z3.And(df.present(base), df.cols["stream"].val(base) == -1)
        pres = to_z3(t.present(r))
        mv = {"row": r[0], "which": r[1], "ts": df.cols["ts"].val(base), "dur": df.cols["dur"].val(base)}
        vcs.append(core.VC(f"{name}.two_rows_per_host_event", list(ex.facts), pres == z3.And(host, r[1] >= 0, r[1] <= 1), "vc", fq, mv,
                           note="one open and one close endpoint for every event with stream == -1, nothing else"))
        is_open = r[1] == 0
        vcs.append(core.VC(f"{name}.row_values", list(ex.facts) + [pres],
                           z3.And(to_z3(t.cols["index"].val(r)) == df.cols["index"].val(base), to_z3(t.cols["dur"].val(r)) == df.cols["dur"].val(base),
                                  to_z3(t.cols["kind"].val(r)) == z3.If(is_open, consts["OPEN_END"], consts["CLOSE_END"]),
                                  to_z3(t.cols["time"].val(r)) == z3.If(is_open, df.cols["ts"].val(base), df.cols["ts"].val(base) + df.cols["dur"].val(base))),
                           "vc", fq, mv, note="(index, dur, kind, time) = (id, dur, OPEN_END, ts) / (id, dur, CLOSE_END, ts + dur)"))
        vcs.append(core.VC(f"{name}.guard.canary_false", [pres], z3.BoolVal(False), "canary", fq))
    else:
        vcs.append(core.VC(f"{name}.two_rows_per_host_event", [], z3.BoolVal(False), "vc", fq, {}, note="the events array is not a melt of the thread's frame"))
    return vcs


def array_vcs_old() -> List[core.VC]:
    from hv import framevc as fv

    f = extract.get_function(CS, "CallStackGraph._construct_call_stack_graph")
    node = extract.stripped(f)
    consts = extract.module_constants(CS)
    name = f"{PROP}.cs.array"
    fq = [f.fq]
    ex = pyvc.Exec(consts=consts, name=name)
    fv.install(ex)
    cols = {"index": (z3.IntSort(), False, "int"), "ts": (z3.IntSort(), False, "int"), "dur": (z3.RealSort(), False, "float"),  # durations may be fractional (C03-D26)
            "stream": (z3.IntSort(), False, "int"), "index_correlation": (z3.IntSort(), False, "int")}
    df = fv.SymDF.base("thread", cols)
    devcls = pyvc.EnumCls("DeviceType", {"UNKNOWN": 0, "CPU": 1, "GPU": 2})
    ex.consts["DeviceType"] = devcls
    ex.consts["CallStackNode"] = pyvc.RecordCtor("CallStackNode", ["parent", "depth", "children"])
    ex.consts["Event"] = pyvc.RecordCtor("Event", ["idx", "time", "dur", "type"], frozen=True)

    class NodesDict:
        def hv_call_method(self, exq, attr, args, kwargs, pc, env):
            if attr == "clear":
                return None
            return NotImplemented

        def hv_setitem(self, exq, idx, v, pc):
            return None

        def __deepcopy__(self, memo):
            return self

    selfrec = pyvc.Record("CallStackGraph", {"device_type": devcls.member("CPU"), "nodes": NodesDict(), "filter_func": None, "correlations": None})
    is_tuples = lambda st: isinstance(st.iter, ast.Call) and isinstance(st.iter.func, ast.Attribute) and st.iter.func.attr == "itertuples"
    pc, env, loop = _prefix_until_event_loop(node, ex, {"self": selfrec, "df": df}, is_tuples)
    t = ex.eval(loop.iter.func.value, pc, env)
    if not isinstance(t, fv.SymDF) or t.uni is not df.uni:
        raise pyvc.Unsupported("itertuples is not over a frame derived row-wise from the thread frame")
    r = df.uni.skolem("r")
    row = pyvc.Record("Row", {c: t.cols[c].val(r) for c in t.cols}, frozen=True)
    events = env.get("events")
    if events != []:
        raise pyvc.Unsupported("`events` is not an empty list before the loop")
    env2 = dict(env)
    env2["events"] = []
    env2 = ex.assign(loop.target, row, pc, env2)
    outs = ex.exec_block(loop.body, pc, env2)
    if len(outs) != 1 or outs[0].kind != "fall":
        raise pyvc.Unsupported("event creation loop body forks")
    made = outs[0].env["events"]
    d0 = z3.If(df.cols["dur"].val(r) > 0, df.cols["dur"].val(r), 0)
    ts, idx = df.cols["ts"].val(r), df.cols["index"].val(r)
    mv = {"row": r[0], "ts": ts, "dur": df.cols["dur"].val(r)}
    vcs: List[core.VC] = []
    for pv in ex.vcs:
        vcs.append(core.VC(pv.name, pv.hyps, pv.goal, "vc", fq, mv, note=pv.note))
    vcs.append(core.VC(f"{name}.rows", list(ex.facts), to_z3_bool(t.present(r)) == df.present(r), "vc", fq, mv, note="every event of the thread frame is turned into endpoints"))
    ok_shape = len(made) == 2 and all(isinstance(e, pyvc.Record) and e.cls == "Event" for e in made)
    if ok_shape:
        a, b = made
        spec = z3.And(pyvc.to_z3(a.fields["idx"]) == idx, pyvc.to_z3(a.fields["time"]) == ts, pyvc.to_z3(a.fields["dur"]) == d0, pyvc.to_z3(a.fields["type"]) == consts["EVENT_START"],
                      pyvc.to_z3(b.fields["idx"]) == idx, pyvc.to_z3(b.fields["time"]) == ts + d0, pyvc.to_z3(b.fields["dur"]) == d0, pyvc.to_z3(b.fields["type"]) == consts["EVENT_END"])
        vcs.append(core.VC(f"{name}.two_events_per_row", list(ex.facts) + [df.present(r)], spec, "vc", fq, mv,
                           note="Event(id, ts, max(dur,0), START) and Event(id, ts + max(dur,0), max(dur,0), END)"))
    else:
        vcs.append(core.VC(f"{name}.two_events_per_row", [], z3.BoolVal(False), "vc", fq, mv, note="loop body does not append exactly two Events"))
    vcs.append(core.VC(f"{name}.guard.canary_false", [df.present(r)], z3.BoolVal(False), "canary", fq))
    return vcs


def to_z3_bool(x):
    return pyvc.to_z3(x)


# ---------------------------------------------------------------------------------------------- spec oracle & bounded stage


def is_laminar(spans: List[Tuple[int, int]]) -> bool:
    for (s1, e1), (s2, e2) in itertools.combinations(spans, 2):
        if not (e1 <= s2 or e2 <= s1 or (s1 <= s2 and e2 <= e1) or (s2 <= s1 and e1 <= e2)):
            return False
    return True


def in_known_class_d4(events: List[Tuple[int, int, int]]) -> bool:
    zs = {ts for _, ts, d in events if d == 0}
    for T in zs:
        if any(d > 0 and ts + d == T for _, ts, d in events) and any(d > 0 and ts == T for _, ts, d in events):
            return True
    return False


def oracle_check(events: List[Tuple[int, int, int]], parent: Dict[int, int], depth: Dict[int, int], children: Dict[int, List[int]], root: int) -> List[str]:
    """events: (idx, ts, dur); returns list of violated clauses."""
    bad: List[str] = []
    ev = {i: (ts, ts + max(d, 0), d) for i, ts, d in events}
    ids = set(ev)
    if set(parent) != ids:
        bad.append(f"node set {sorted(parent)} != event set {sorted(ids)}")
        return bad
    cnt: Dict[int, int] = {}
    for p, chs in children.items():
        for c in chs:
            cnt[c] = cnt.get(c, 0) + 1
            if c in parent and parent[c] != p:
                bad.append(f"child {c} listed under {p} but parent field is {parent[c]}")
    for i in ids:
        if cnt.get(i, 0) != 1:
            bad.append(f"event {i} appears {cnt.get(i, 0)} times in children lists")
    for i in ids:
        ts, en, d = ev[i]
        # depth consistency
        anc = 0
        cur = parent[i]
        seen = set()
        while cur != root and cur in parent and cur not in seen:
            seen.add(cur)
            anc += 1
            cur = parent[cur]
        if cur != root:
            bad.append(f"event {i}: parent chain does not reach the root")
        if depth.get(i) != anc:
            bad.append(f"event {i}: depth {depth.get(i)} != number of ancestors {anc}")
        if d > 0:
            conts = [a for a in ids if a != i and ev[a][2] > 0 and ev[a][0] <= ts and en <= ev[a][1] and ((ev[a][0], ev[a][1]) != (ts, en) or a < i)]
            if conts:
                exp = sorted(conts, key=lambda a: (ev[a][2], -a))[0]
            else:
                exp = root
            if parent[i] != exp:
                bad.append(f"positive event {i} [{ts},{en}]: parent {parent[i]} but innermost enclosing event is {exp}")
        else:
            p = parent[i]
            if p != root and p not in ev:
                bad.append(f"zero-duration event {i}: parent {p} is neither the thread root nor an event of this thread")
            elif p != root and not (ev[p][0] <= ts <= ev[p][1]):
                bad.append(f"zero-duration event {i} at {ts}: parent {p} span [{ev[p][0]},{ev[p][1]}] does not contain its instant")
    return bad


def _mk_df(events: List[Tuple[int, int, int]]):
    import pandas as pd

    n = len(events)
    return pd.DataFrame({
        "index": [e[0] for e in events], "cat": [1] * n, "name": [1] * n, "ts": [e[1] for e in events], "dur": [e[2] for e in events],
        "pid": [1] * n, "tid": [2] * n, "stream": [-1] * n, "index_correlation": [-1] * n,
    })


def run_new_builder(events):
    import pandas as pd
    from hta.common import trace_call_stack as m
    from hta.common.trace_symbol_table import TraceSymbolTable

    df = _mk_df(events)
    full = df.set_index("index", drop=False)
    full.index.names = [None]
    corr = pd.DataFrame({"cpu_index": pd.Series(dtype="int64"), "gpu_index": pd.Series(dtype="int64")})
    st = TraceSymbolTable()
    csg = m.CallStackGraph(df, m.CallStackIdentity(0, 1, 2), corr, full, st, save_call_stack_to_df=False)
    nodes = csg.get_nodes()
    root = csg.root_index
    parent = {int(k): int(v.parent) for k, v in nodes.items() if k != root}
    depth = {int(k): int(v.depth) for k, v in nodes.items() if k != root}
    children = {int(k): [int(c) for c in v.children] for k, v in nodes.items()}
    return parent, depth, children, root


def run_old_builder(events):
    from hta.common import call_stack as m

    df = _mk_df(events)
    csg = m.CallStackGraph(df, m.CallStackIdentity(0, 1, 2))
    nodes = csg.get_nodes()
    root = m.NULL_NODE_INDEX
    parent = {int(k): int(v.parent) for k, v in nodes.items() if k != root}
    depth = {int(k): int(v.depth) for k, v in nodes.items() if k != root}
    children = {int(k): [int(c) for c in v.children] for k, v in nodes.items()}
    return parent, depth, children, root


def _families(G: int, k: int):
    spans = [(s, e) for s in range(G) for e in range(s, G)]
    for fam in itertools.product(spans, repeat=k):
        if is_laminar(list(fam)):
            yield fam


def _chunk_eval(args):
    G, k, first, known_ids = args
    import logging
    logging.disable(logging.CRITICAL)
    spans = [(s, e) for s in range(G) for e in range(s, G)]
    out = {"n": 0, "distinct": 0, "fail": [], "known": 0, "sample": None}
    for rest in itertools.product(spans, repeat=k - 1):
        fam = (first,) + rest
        if not is_laminar(list(fam)):
            continue
        half_ok = all(s % 2 == 0 for s, _ in fam)  # the same family read on a half-unit grid: whole timestamps, durations 0, 0.5, 1, 1.5, ... (C03-D26)
        for idmode in (0, 1) + ((2,) if half_ok else ()):
            ids = list(range(len(fam))) if idmode != 1 else [10 + 3 * (len(fam) - 1 - i) for i in range(len(fam))]
            if idmode == 2:
                events = [(ids[i], 100 + s // 2, (e - s) / 2) for i, (s, e) in enumerate(fam)]
            else:
                events = [(ids[i], 100 + s, e - s) for i, (s, e) in enumerate(fam)]  # unit grid: durations 0, 1, 2, ... occur
            known = in_known_class_d4(events)
            for which, runner in (("trace_call_stack", run_new_builder), ("call_stack", run_old_builder)):
                out["n"] += 1
                try:
                    parent, depth, children, root = runner(events)
                    bad = oracle_check(events, parent, depth, children, root)
                except Exception as e:  # the builders must not raise on a laminar family
                    bad = [f"{type(e).__name__}: {e}"]
                if bad:
                    if known:
                        out["known"] += 1
                    elif len(out["fail"]) < 3:
                        out["fail"].append({"builder": which, "events": events, "violations": bad[:4]})
            out["distinct"] += 1
            if out["sample"] is None and len(fam) == k:
                out["sample"] = {"events": events}
    return out


def bounded_builders(ctx) -> Dict[str, Any]:
    import multiprocessing as mp

    scopes = [(6, 1), (6, 2), (6, 3), (4, 4)] if not ctx.thorough else [(6, 1), (6, 2), (6, 3), (5, 4), (4, 5)]
    tasks = []
    for G, k in scopes:
        spans = [(s, e) for s in range(G) for e in range(s, G)]
        for first in spans:
            tasks.append((G, k, first, None))
    res = {"evaluations": 0, "distinct": 0, "failures": [], "known_class_failures": 0,
           "scope": f"all laminar families of k spans on a G-point grid (ordered = file order; two id assignments; families whose starts are all even also on the half-unit grid, i.e. with fractional durations), (G,k) in {scopes}; both real builders vs spec oracle",
           "samples": []}
    with mp.get_context("fork").Pool(min(ctx.procs, 16)) as pool:
        for o in pool.imap_unordered(_chunk_eval, tasks, chunksize=1):
            res["evaluations"] += o["n"]
            res["distinct"] += o["distinct"]
            res["known_class_failures"] += o["known"]
            if o["sample"] and len(res["samples"]) < 3:
                res["samples"].append(o["sample"])
            for f in o["fail"]:
                if len(res["failures"]) < 5:
                    res["failures"].append({"what": f"{PROP}.bounded.{f['builder']}.tree_matches_spec", "input": {"events": f["events"], "builder": f["builder"]},
                                            "observed": f["violations"], "expected": "parent = innermost enclosing event; depth = #ancestors; every event once"})
    if res["known_class_failures"]:
        kf = [f for f in ctx.findings if f.get("id") == KNOWN_D4 and f.get("status") == "known"]
        if kf:
            res["failures"].append({"what": f"{PROP}.bounded.known_class", "known": kf[0]})
        else:
            res["failures"].append({"what": f"{PROP}.bounded.zero_duration_at_shared_instant", "input": {"class": "zero-duration event at an instant where one positive event ends and another begins"},
                                    "observed": f"{res['known_class_failures']} failing (family, builder) pairs in this class"})
    res["exhaustive"] = True
    return res


def whole_graph_case(arg) -> Dict[str, Any]:
    """Two host threads of one rank, each carrying a properly nested family, loaded from a Kineto file and built by
    trace_call_graph.CallGraph (the whole-graph passes over the node map that all threads share): parent and depth columns vs the oracle."""
    import random

    from hv import rt, synth

    seed, tids = arg[:2]
    frac = len(arg) > 2 and bool(arg[2])  # nanosecond-resolution file loaded with HTA_DISABLE_NS_ROUNDING=1: fractional instants reach the builder
    rng = random.Random(seed)
    spans = [(a, b) for a in range(8) for b in range(a, 8)]
    per_thread: Dict[int, List[Tuple[int, int]]] = {}
    for tid in tids:
        while True:
            fam = [rng.choice(spans) for _ in range(rng.randint(2, 6))]
            if is_laminar(fam):
                break
        per_thread[tid] = fam
    evs: List[Dict[str, Any]] = []
    slots = [(tid, sp) for tid, fam in per_thread.items() for sp in fam]
    first = slots[0]
    rest = slots[1:]
    rng.shuffle(rest)  # the threads' events are interleaved in the file; a thread's own events keep their relative order
    order: List[Any] = [first]
    pos = {tid: 0 for tid in tids}
    pos[first[0]] = 1
    for tid, _ in rest:
        order.append((tid, per_thread[tid][pos[tid]]))
        pos[tid] += 1
    for tid, (a, b) in order:
        evs.append(synth.host_op(f"aten::t{tid}_{a}_{b}", (1000 + 0.25 * a) if frac else (1000 + 10 * a), (0.25 if frac else 10) * (b - a), tid=tid))
    if evs[0]["dur"] == 0:
        evs[0]["dur"], evs[0]["ts"] = 200, 990  # the first event of a Kineto file is a host operator that spans the others of its thread
        evs[0]["tid"] = max(tids) + 50
    inp = {"seed": seed, "thread_ids": list(tids), "events": evs}
    if frac:
        inp["environment"] = {"HTA_DISABLE_NS_ROUNDING": "1"}
    fails: List[Dict[str, Any]] = []
    old_env = os.environ.get("HTA_DISABLE_NS_ROUNDING")
    if frac:
        os.environ["HTA_DISABLE_NS_ROUNDING"] = "1"
    try:
        return _whole_graph_run(evs, inp, fails, seed, tids)
    finally:
        if frac:
            if old_env is None:
                os.environ.pop("HTA_DISABLE_NS_ROUNDING", None)
            else:
                os.environ["HTA_DISABLE_NS_ROUNDING"] = old_env


def _whole_graph_run(evs, inp, fails, seed, tids) -> Dict[str, Any]:
    from hv import rt

    with rt.trace_dir({0: evs}) as d:
        try:
            from hta.common.trace_call_graph import CallGraph

            t = rt.lib(fails, "parse_traces", inp, rt.load_trace, d, False, use_multiprocessing=False)
            cg = rt.lib(fails, "CallGraph", inp, CallGraph, t, ranks=[0])
        except rt.LibFailure:
            return {"n_checks": 1, "fails": fails, "nontrivial": True}
        df = cg.trace_data.get_trace(0)
        n = 0
        for tid in sorted(set(int(x) for x in df["tid"])):
            sub = df[df["tid"] == tid]
            events = [(int(i), _num(ts), _num(du)) for i, ts, du in zip(sub["index"], sub["ts"], sub["dur"])]
            if in_known_class_d4(events):
                continue
            root = -abs(tid)
            parent = {int(i): int(p) for i, p in zip(sub["index"], sub["parent"])}
            depth = {int(i): int(x) for i, x in zip(sub["index"], sub["depth"])}
            children: Dict[int, List[int]] = {}
            for i, p_ in parent.items():
                children.setdefault(p_, []).append(i)
            n += 1
            bad = oracle_check(events, parent, depth, children, root)
            if bad:
                fails.append({"what": "tree_matches_spec", "input": {**inp, "thread": tid}, "observed": bad[:4],
                              "expected": "parent = innermost enclosing event of the same thread (thread root -abs(tid) for top-level events); depth = number of ancestors"})
                break
    return {"n_checks": n, "fails": fails, "nontrivial": n > 0, "sample": {"seed": seed, "thread_ids": list(tids)}}


def two_rank_objects_case(seed: int) -> Dict[str, Any]:
    """ONE call graph over two ranks whose threads differ in shape: the node objects kept per rank (rank_to_nodes, the call stacks' node maps,
    get_parent / children) describe that rank's tree, whatever was built after it."""
    import contextlib
    import io
    import random

    from hv import rt, synth

    rng = random.Random(seed)
    spans = [(a, b) for a in range(8) for b in range(a + 1, 8)]
    per_rank: Dict[int, List[Dict[str, Any]]] = {}
    for rk in (0, 1):
        while True:
            fam = [rng.choice(spans) for _ in range(3 + rk + rng.randint(0, 2))]
            if is_laminar(fam):
                break
        per_rank[rk] = [synth.host_op("aten::first_op", 990, 5, tid=3)] + [synth.host_op(f"aten::r{rk}_{a}_{b}", 1000 + 10 * a, 10 * (b - a), tid=3) for a, b in fam]
    inp = {"seed": seed, "events": per_rank}
    fails: List[Dict[str, Any]] = []
    n = 0
    with rt.trace_dir(per_rank) as d, contextlib.redirect_stdout(io.StringIO()):
        try:
            from hta.common.trace_call_graph import CallGraph

            t = rt.lib(fails, "parse_traces", inp, rt.load_trace, d, False, use_multiprocessing=False)
            cg = rt.lib(fails, "CallGraph(all ranks)", inp, CallGraph, t)
        except rt.LibFailure:
            return {"n_checks": 1, "fails": fails, "nontrivial": True}
        for rk in (0, 1):
            df = t.get_trace(rk)
            events = [(int(i), int(ts), int(du)) for i, ts, du in zip(df["index"], df["ts"], df["dur"])]
            if in_known_class_d4(events):
                continue
            nodes = cg.rank_to_nodes[rk]
            root = -3
            parent = {int(k): int(v.parent) for k, v in nodes.items() if k >= 0}
            depth = {int(k): int(v.depth) for k, v in nodes.items() if k >= 0}
            children = {int(k): [int(c) for c in v.children] for k, v in nodes.items()}
            n += 1
            bad = oracle_check(events, parent, depth, children, root)
            if bad:
                fails.append({"what": "node_objects_of_each_rank_match_spec", "input": {**inp, "rank": rk}, "observed": bad[:4],
                              "expected": "the node map kept for this rank holds this rank's events, each under its innermost enclosing event"})
    return {"n_checks": n, "fails": fails, "nontrivial": n > 0, "sample": {"seed": seed}}


def bounded_whole_graph(ctx) -> Dict[str, Any]:
    from hv import rt

    n = 40 if not ctx.thorough else 600
    tidsets = [(1, 8), (7, 1), (103, 110), (2, 5), (1,), (3, 2, 1), (3_000_000_000, 4242), (2**32 - 3, 5)]  # the last two: hashed / unsigned 32-bit thread ids
    res = rt.pmap(whole_graph_case, [(ctx.seed * 97 + i, tidsets[i % len(tidsets)], i % 4 == 3) for i in range(n)], ctx.procs)
    res += rt.pmap(two_rank_objects_case, [ctx.seed * 89 + i for i in range(n // 4)], ctx.procs)
    return rt.summarise(res, f"{PROP}.whole_graph", f"{n} Kineto files with one to three host threads (thread ids 1, 2, 3, 5, 7, 8, 103, 110 in several orders), each thread a random properly nested family of 2-6 spans on an "
                        "8-point grid, events of the threads interleaved, every fourth file with quarter-microsecond instants loaded under HTA_DISABLE_NS_ROUNDING=1; parsed by Trace.parse_traces and built by trace_call_graph.CallGraph (whole-graph depth / height passes over the shared node map); plus {n // 4} two-rank call graphs whose per-rank node objects are compared with the oracle")


def translator_differential(ctx) -> Dict[str, Any]:
    """PyVC's translation of both comparators, evaluated on random concrete endpoints, against CPython running the real functions."""
    import random

    import numpy as np
    from hta.common import call_stack as cs
    from hta.common import trace_call_stack as tcs

    rng = random.Random(ctx.seed + 17)
    less_new, _ = _less_new_factory()
    less_old, _ = _less_old_factory()
    p, q = Ep("p"), Ep("q")
    t_new, _r1 = less_new(p, q)
    t_old, _r2 = less_old(p, q)
    n = 400 if not ctx.thorough else 5000
    fails, distinct = [], set()
    for _ in range(n):
        vals = {}
        for e in (p, q):
            vals[e] = dict(idx=rng.randint(0, 3), ts=rng.randint(0, 4), dur=rng.choice([0, 0, 1, 2, 3, 0.5, 1.5]), open=rng.random() < 0.5)
        if vals[p]["idx"] == vals[q]["idx"]:
            vals[q].update(ts=vals[p]["ts"], dur=vals[p]["dur"], open=not vals[p]["open"])
        subst = []
        for e in (p, q):
            v = vals[e]
            subst += [(e.ev.idx, z3.IntVal(v["idx"])), (e.ev.ts, z3.RealVal(v["ts"])), (e.ev.dur, z3.RealVal(str(v["dur"]))), (e.open, z3.BoolVal(v["open"]))]
        key = tuple(sorted((str(a), str(b)) for a, b in subst))
        distinct.add(key)

        def row(v):
            return np.array([v["idx"], v["dur"], -1 if v["open"] else 1, v["ts"] if v["open"] else v["ts"] + v["dur"]])

        def evt(v):
            return cs.Event(v["idx"], v["ts"] if v["open"] else v["ts"] + v["dur"], v["dur"], 1 if v["open"] else -1)

        for which, term, real in (("_less_than", t_new, lambda: bool(tcs._less_than(row(vals[p]), row(vals[q])))), ("compare_events", t_old, lambda: cs.compare_events(evt(vals[p]), evt(vals[q])) < 0)):
            try:
                want = real()
            except ValueError:
                continue  # the real function raises on this pair (covered by the noraise obligation)
            got = z3.is_true(z3.simplify(z3.substitute(term, *subst)))
            if got != want and len(fails) < 3:
                fails.append({"what": f"translator_differential.{which}", "input": {"p": vals[p], "q": vals[q]}, "observed": {"z3_term": got}, "expected": {"cpython": want},
                              "how": "the z3 term produced by PyVC disagrees with the real function: the ENGINE is wrong, not the repository"})
    return {"evaluations": 2 * n, "distinct": len(distinct), "failures": fails, "scope": f"{n} random endpoint pairs (ids 0-3, times 0-4, durations 0-3 and 0.5, 1.5) per comparator", "samples": [{"pairs": n}],
            "engine_check": True}


# ---------------------------------------------------------------------------------------------- replay of comparator counter-models


def _num(x):
    """a model value (int, '3', '7/2', '3.5', '3.5?') as an int when whole, else a float"""
    from fractions import Fraction

    f = Fraction(str(x).rstrip("?"))
    return int(f) if f.denominator == 1 else float(f)


def replay(ctx, rec: Dict[str, Any]) -> Dict[str, Any]:
    if ".roots." in rec.get("name", ""):
        return replay_roots(rec)
    m = rec.get("model") or {}
    evs: Dict[int, Tuple[int, int, int]] = {}
    for pfx in ("p", "q", "r", "a", "b", "e", "z"):
        if f"{pfx}.idx" in m:
            i, ts, d = int(m[f"{pfx}.idx"]), _num(m[f"{pfx}.ts"]), _num(m[f"{pfx}.dur"])
            evs[i] = (i, ts, d)
    if not evs:
        return {"confirmed": False, "why": "no event model"}
    events = list(evs.values())
    tried = []
    import logging
    logging.disable(logging.CRITICAL)
    for perm in itertools.permutations(events):
        for which, runner in (("trace_call_stack", run_new_builder), ("call_stack", run_old_builder)):
            try:
                parent, depth, children, root = runner(list(perm))
                bad = oracle_check(list(perm), parent, depth, children, root)
            except Exception as e:
                bad = [f"{type(e).__name__}: {e}"]
            if bad:
                return {"confirmed": True, "input": {"events(idx,ts,dur) in row order": list(perm), "builder": which}, "observed": bad[:4]}
        tried.append(list(perm))
    return {"confirmed": False, "why": "the builders produce the specified tree on every row order of the model's events", "events": events}


# ---------------------------------------------------------------------------------------------- spec


def units(ctx) -> List[core.Unit]:
    return [
        core.Unit("C03.less_than", lambda: comparator_vcs("less_than", _less_new_factory, True), [TCS + "._less_than", TCS + "._cmp_events_with_zero_duration"]),
        core.Unit("C03.compare_events", lambda: comparator_vcs("compare_events", _less_old_factory, False), [CS + ".compare_events"]),
        core.Unit("C03.tcs.loop", loop_body_vcs_new, [TCS + ".CallStackGraph._construct_call_stack_graph"]),
        core.Unit("C03.cs.loop", loop_body_vcs_old, [CS + ".CallStackGraph._construct_call_stack_graph"]),
        core.Unit("C03.tcs.array", array_vcs_new, [TCS + ".CallStackGraph._construct_call_stack_graph"]),
        core.Unit("C03.cs.array", array_vcs_old, [CS + ".CallStackGraph._construct_call_stack_graph"]),
        core.Unit("C03.tcs.add_edge", lambda: add_edge_vcs(TCS, "tcs", True), [TCS + ".CallStackGraph._add_edge"]),
        core.Unit("C03.cs.add_edge", lambda: add_edge_vcs(CS, "cs", False), [CS + ".CallStackGraph._add_edge"]),
        core.Unit("C03.roots", _roots_vcs, [TCS + ".CallStackGraph._get_all_root_indices", TCS + ".CallStackGraph._compute_depth"]),
    ]


def _roots_vcs() -> List[core.VC]:
    from contracts import C13

    return C13.roots_vcs(PROP)


def replay_roots(rec: Dict[str, Any]) -> Dict[str, Any]:
    """a refuted root-selection obligation, replayed as files whose host threads have the ids the counter-model points at"""
    m = rec.get("model") or {}
    cand = []
    for k in ("parent1", "parent2", "key1", "key2"):
        try:
            v = abs(int(str(m.get(k))))
            if 0 < v < 100000:
                cand.append(v)
        except (TypeError, ValueError):
            pass
    import contextlib
    import io

    from hv import rt

    rt.quiet()
    tried = []
    with contextlib.redirect_stdout(io.StringIO()):
        return _replay_roots_files(cand, tried)


def _replay_roots_files(cand, tried) -> Dict[str, Any]:
    for tid in dict.fromkeys(cand + [1]):
        for other in (tid + 7, max(1, tid - 1) if tid > 1 else tid + 3):
            for sd in range(6):
                r = whole_graph_case((sd, (tid, other)))
                tried.append((tid, other, sd))
                if r["fails"]:
                    f0 = r["fails"][0]
                    return {"confirmed": True, "input": f0["input"], "observed": f0["observed"], "expected": f0["expected"]}
    return {"confirmed": False, "why": f"no failing file among {len(tried)} two-thread files"}


SPEC = Spec(
    lean=["Bracket.lean"],
    prop=PROP,
    level="other",
    functions=[(TCS, "_less_than"), (TCS, "_cmp_events_with_zero_duration"), (TCS, "sort_events"),
               (TCS, "CallStackGraph._construct_call_stack_graph"), (TCS, "CallStackGraph._add_edge"),
               (CS, "compare_events"), (CS, "CallStackGraph._construct_call_stack_graph"), (CS, "CallStackGraph._add_edge")],
    units=units,
    bounded=[Bounded("builders_vs_oracle", bounded_builders), Bounded("whole_graph_vs_oracle", bounded_whole_graph), Bounded("translator_differential", translator_differential)],
    replay=replay,
    trusted=[
        "sorted()/list.sort with cmp_to_key returns a permutation without inversions when `<` derived from the comparator is a strict (weak) order on the elements",
        "bracket lemma L6 (order obligations + push/pop transition => every positive-duration event gets the event directly enclosing it) is machine-checked in lean/Bracket.lean from the hypotheses "
        "irreflexive + transitive processing order, a1 = R1, a2 = R2a-c (+ file order for identical spans), a3 = R3, properly nested family, every event contributes both endpoints; that the sorted array "
        "satisfies them is the conjunction of the comparator obligations with the sort contract above (transitivity fails in the D4 class, which the lemma therefore does not cover); "
        "the placement of zero-duration events is covered by R5 and the exhaustive bounded stage only",
        "construction of the endpoint array (melt/replace/astype/to_numpy; itertuples in the old builder) is covered only by the bounded stage",
    ],
    assumptions=["instants and durations are mathematical reals in the obligations; the floating-point rounding of ts + dur is not modelled"],
    explanation="Order obligations of both comparators, the loop bodies and _add_edge of both builders are generated from the AST of /repo and "
                "discharged by z3; the composition into the tree statement is the bracket lemma (lean/Bracket.lean, machine-checked for positive-duration events), whose hypotheses are "
                "those obligations plus the sort contract; zero-duration placement and the D4 class are validated exhaustively on the real builders "
                "for all laminar families within the stated scope (bounded, not counted as proved).",
)
