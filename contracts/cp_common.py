"""Shared helpers for the critical-path properties C08, C09, C10, C19, C20: running the real analysis on generated
causally consistent traces and re-deriving everything the properties state from the trace alone."""
from __future__ import annotations

import os
from typing import Any, Dict, List, Optional, Tuple

CPA = "hta.analyzers.critical_path_analysis"


def analyse(seed: int, zero_weight_launch: bool = False, n_steps: int = 3, instance=None, annotations: bool = False):
    """returns (ta, graph, success, events, window) or raises rt.LibFailure through `fails`"""
    from hv import cpgen

    evs = cpgen.gen_cp_events(seed, n_steps=n_steps, n_streams=1 + seed % 3, annotations=annotations)
    return evs


def window_of(df, stab, annotation: str, inst) -> Tuple[int, int]:
    ann = [(int(ts), int(ts + du)) for ts, du, nm in zip(df["ts"], df["dur"], df["name"]) if annotation in stab[int(nm)]]
    a, b = (inst, inst) if isinstance(inst, int) else (inst if inst is not None else (0, 0))
    sel = ann[a: b + 1]
    return min(x for x, _ in sel), max(y for _, y in sel)


def graph_facts(g) -> Dict[str, Any]:
    """plain-Python view of a CPGraph"""
    def num(x):
        return int(x) if float(x) == int(x) else float(x)  # whole numbers stay ints; quarter fractions are exact in binary

    nodes = {n.idx: dict(ev=int(n.ev_idx), ts=num(n.ts), is_start=bool(n.is_start), blocking=bool(n.is_blocking)) for n in g.node_list}
    edges = []
    for u, v in g.edges:
        e = g.edges[u, v]["object"]
        edges.append(dict(u=int(u), v=int(v), w_attr=g.edges[u, v]["weight"], w=e.weight, type=e.type.name, begin=int(e.begin), end=int(e.end)))
    return {"nodes": nodes, "edges": edges}


def longest_path_weight(nodes: List[int], edges: List[Tuple[int, int, float]]) -> float:
    """independent DP over a topological order"""
    from collections import defaultdict, deque

    out = defaultdict(list)
    indeg = defaultdict(int)
    for u, v, w in edges:
        out[u].append((v, w))
        indeg[v] += 1
    dq = deque([n for n in nodes if indeg[n] == 0])
    best = {n: 0 for n in nodes}
    seen = 0
    while dq:
        u = dq.popleft()
        seen += 1
        for v, w in out[u]:
            best[v] = max(best[v], best[u] + w)
            indeg[v] -= 1
            if indeg[v] == 0:
                dq.append(v)
    if seen != len(nodes):
        return float("nan")  # cycle
    return max(best.values()) if best else 0
