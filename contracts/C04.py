"""C04 — temporal breakdown is an exact partition of the GPU activity span.

Deductive:
  * merge_kernel_intervals: prefix-fold induction (contracts/merge_contract.py): M1 sorted/separated, M2 same points, M3 extent;
  * _get_idle_time_for_kernels against the callee contract: kernel_time = max end - min ts, idle = kernel_time - sum of row lengths;
  * idle_time_per_rank (nested in get_temporal_breakdown): device rows = stream != -1, computation rows = kernel type COMPUTATION
    (kernel type is an uninterpreted function of the decoded name), the three asserts never fire, the parts are >= 0 and add
    up to kernel_time; percentages = 100 * part / kernel_time rounded to 2 decimals.
  The step "sum of the lengths of sorted separated rows = Lebesgue measure of their union" and the monotonicity used by the
  asserts are Lean lemmas L1/L2 (lean/HtaLemmas), instantiated as hypotheses.
Bounded: the public get_temporal_breakdown on generated traces vs. a sweep-line measure oracle.
"""
from __future__ import annotations

import ast
from typing import Any, Dict, List

import z3

from contracts import merge_contract as mc
from hv import core, extract, framevc as fv, pyvc
from hv import history
from hv.driver import Bounded, Spec
from hv.pyvc import to_z3

BA = "hta.analyzers.breakdown_analysis"
UT = "hta.utils.utils"
PROP = "C04"

COLS = {"index": (z3.IntSort(), False, "int"), "ts": (z3.IntSort(), False, "int"), "dur": (z3.IntSort(), False, "int"),
        "stream": (z3.IntSort(), False, "int"), "name": (z3.IntSort(), False, "int"), "cat": (z3.IntSort(), False, "int")}


def idle_for_kernels_vcs() -> List[core.VC]:
    name = f"{PROP}.get_idle_time_for_kernels"
    f = extract.get_function(BA, "BreakdownAnalysis._get_idle_time_for_kernels")
    ex = pyvc.Exec(consts=extract.module_constants(BA), name=name)
    fv.install(ex)
    made: List[Any] = []
    mc.install_merge_contract(ex, on_call=lambda df, m: made.append((df, m)))
    df = fv.SymDF.base("k", COLS)
    r = df.uni.skolem("r")
    w = df.uni.skolem("w0")
    ex.facts += [z3.ForAll(list(r), z3.Implies(to_z3(df.present(r)), df.cols["dur"].val(r) >= 0)), to_z3(df.present(w))]  # pre: dur >= 0, at least one row
    outs = ex.run_function(extract.stripped(f), {"cls": pyvc.Record("BreakdownAnalysis", {}), "kernels_df": df}, [])
    rets = [o for o in outs if o.kind == "ret"]
    if len(rets) != 1 or len(made) != 1 or made[0][0] is not df:
        raise pyvc.Unsupported("_get_idle_time_for_kernels: expected one call of merge_kernel_intervals on its argument and one return")
    idle, kt = rets[0].value
    m = made[0][1]
    fq = [f.fq]
    hyps = list(ex.facts) + [to_z3(c) for c in rets[0].pc]
    mv = {"lo0": m.lo0, "hi_last": m.hi_last, "sum_lo": m.sum_lo, "sum_hi": m.sum_hi}
    vcs = [core.VC(pv.name, pv.hyps + list(ex.facts), pv.goal, "vc", fq, mv, note=pv.note) for pv in ex.vcs]
    vcs += [
        core.VC(f"{name}.kernel_time_is_span", hyps, to_z3(kt) == m.hi_last - m.lo0, "vc", fq, mv, note="kernel_time = end of the last merged row - start of the first = max end - min ts (M3)"),
        core.VC(f"{name}.idle_is_span_minus_busy", hyps, to_z3(idle) == (m.hi_last - m.lo0) - m.total, "vc", fq, mv,
                note="idle = span - sum of merged row lengths (= measure of the union of the activities by M1, M2, L1)"),
        core.VC(f"{name}.idle_within_span", hyps, z3.And(to_z3(idle) >= 0, to_z3(idle) <= to_z3(kt)), "vc", fq, mv),
        core.VC(f"{name}.guard.canary_false", hyps, z3.BoolVal(False), "canary", fq),
    ]
    return vcs


def per_rank_vcs() -> List[core.VC]:
    name = f"{PROP}.idle_time_per_rank"
    f = extract.get_function(BA, "BreakdownAnalysis.get_temporal_breakdown.idle_time_per_rank")
    ex = pyvc.Exec(consts=extract.module_constants(BA), name=name)
    fv.install(ex)
    fv.install_symtab(ex)
    made: List[Any] = []
    mc.install_merge_contract(ex, on_call=lambda d, m: made.append((d, m)))
    st = fv.SymTab("st")
    ktype = z3.Function("kernel_type_of", z3.StringSort(), z3.StringSort())

    @pyvc.intrinsic
    def get_kernel_type(exq, pc, env, args, kwargs):
        return ktype(to_z3(args[0]))

    ex.intrinsics["get_kernel_type"] = get_kernel_type
    ex.consts["KernelType"] = pyvc.EnumCls("KernelType", extract.enum_members("hta.configs.config" if False else "hta.utils.utils", "KernelType")
                                           if _has_enum(UT, "KernelType") else _find_kernel_type())
    idle_s, kt_s = z3.Ints("callee_idle callee_kernel_time")
    idle_calls: List[Any] = []

    def idle_for_kernels(exq, pc, env, obj, args, kwargs):
        d = args[0]
        idle_calls.append(d)
        # callee contract (proved in idle_for_kernels_vcs): requires >= 1 row and dur >= 0
        m = mc.MergedTable(exq, d)
        rr = d.uni.skolem("pre_idle")
        exq.oblige("idle_pre_dur_nonneg", pc + [to_z3(d.present(rr))] + list(exq.facts), to_z3(d.cols["dur"].val(rr)) >= 0, "precondition of _get_idle_time_for_kernels")
        exq.oblige("idle_pre_nonempty", pc + list(exq.facts), m.nonempty, "precondition of _get_idle_time_for_kernels: at least one device activity")
        made.append((d, m))
        return ((m.hi_last - m.lo0) - m.total, m.hi_last - m.lo0)

    ex.methods["Record._get_idle_time_for_kernels"] = idle_for_kernels
    df = fv.SymDF.base("ev", COLS)
    before = dict(df.cols)
    r = df.uni.skolem("r")
    w = df.uni.skolem("wdev")
    pres = df.present
    # preconditions: dur >= 0 (WF5), names are valid ids, at least one device activity
    ex.facts += [z3.ForAll(list(r), z3.Implies(to_z3(pres(r)), z3.And(df.cols["dur"].val(r) >= 0, st.valid(df.cols["name"].val(r))))),
                 z3.And(to_z3(pres(w)), df.cols["stream"].val(w) != -1)]
    env = {"trace_df": df, "cls": pyvc.Record("BreakdownAnalysis", {}), "sym_table": fv.SymTableList(st)}
    outs = ex.run_function(extract.stripped(f), env, [])
    fq = [f.fq]
    vcs = []
    rets = [o for o in outs if o.kind == "ret"]
    if len(rets) != 1 or len(made) != 2:
        raise pyvc.Unsupported(f"idle_time_per_rank: expected one return and two merged tables, got {len(rets)} / {len(made)}")
    idle, comp, noncomp, kt = [to_z3(x) for x in rets[0].value]
    (d_all, m_all), (d_comp, m_comp) = made
    # Lean L2 instance: the computation rows are a subset of the device rows => measure(comp) <= measure(all)
    subset = z3.ForAll(list(r), z3.Implies(to_z3(d_comp.present(r)), to_z3(d_all.present(r)))) if d_comp.uni is d_all.uni else z3.BoolVal(False)
    vcs.append(core.VC(f"{name}.comp_rows_subset_of_device_rows", list(ex.facts), subset, "vc", fq, {}, note="hypothesis of Lean lemma L2 (monotonicity of the union measure)"))
    L2 = z3.Implies(subset, m_comp.total <= m_all.total)
    hyps = list(ex.facts) + [to_z3(c) for c in rets[0].pc] + [L2]
    for pv in ex.vcs:
        vcs.append(core.VC(pv.name, pv.hyps + list(ex.facts) + [L2] + st.axioms(), pv.goal, "vc", fq, {}, note=pv.note))
    for o in outs:
        if o.kind == "raise":
            vcs.append(core.VC(f"{name}.noraise", [to_z3(c) for c in o.pc] + list(ex.facts) + [L2], z3.BoolVal(False), "vc", fq, {}, note=f"raises {o.exc}"))
    dev = lambda rr: z3.And(to_z3(pres(rr)), before["stream"].val(rr) != -1)
    is_comp = lambda rr: z3.And(dev(rr), ktype(st.sym(before["name"].val(rr))) == z3.StringVal("COMPUTATION"))
    mv = {"kernel_time": kt, "idle": idle, "compute": comp, "non_compute": noncomp}
    vcs += [
        core.VC(f"{name}.device_rows", hyps, z3.And(z3.BoolVal(d_all.uni is df.uni), to_z3(d_all.present(r)) == dev(r)), "vc", fq, mv, note="analysed rows = events with stream != -1"),
        core.VC(f"{name}.computation_rows", hyps + st.axioms(), z3.And(z3.BoolVal(d_comp.uni is df.uni), to_z3(d_comp.present(r)) == is_comp(r)), "vc", fq, mv,
                note="computation rows = device rows whose decoded name has kernel type COMPUTATION"),
        core.VC(f"{name}.kernel_time", hyps, kt == m_all.hi_last - m_all.lo0, "vc", fq, mv),
        core.VC(f"{name}.idle_time", hyps, idle == kt - m_all.total, "vc", fq, mv, note="idle = span - measure(union of device activities)"),
        core.VC(f"{name}.compute_time", hyps, comp == m_comp.total, "vc", fq, mv, note="compute = measure(union of computation kernels)"),
        core.VC(f"{name}.partition", hyps, z3.And(idle >= 0, comp >= 0, noncomp >= 0, idle + comp + noncomp == kt), "vc", fq, mv,
                note="the three parts are non-negative and sum exactly to kernel_time"),
        core.VC(f"{name}.input_not_modified", hyps, z3.BoolVal(not df.written and df.inplace_row_changes == 0 and all(df.cols[c] is before[c] for c in before)
                                                               and d_all is not df and d_comp is not df and d_comp is not d_all), "vc", fq, mv,
                note="merge_kernel_intervals sorts and extends its argument in place: every argument must be a fresh copy, the trace frame stays untouched"),
        core.VC(f"{name}.guard.canary_false", hyps, z3.BoolVal(False), "canary", fq),
    ]
    return vcs


def _has_enum(module: str, cls: str) -> bool:
    try:
        extract.enum_members(module, cls)
        return True
    except extract.ExtractError:
        return False


def _find_kernel_type() -> Dict[str, Any]:
    for mod in ("hta.utils.utils", "hta.common.types", "hta.configs.config"):
        if _has_enum(mod, "KernelType"):
            return extract.enum_members(mod, "KernelType")
    raise pyvc.Unsupported("KernelType enum not found")


def pctg_vcs() -> List[core.VC]:
    """per-rank loop of get_temporal_breakdown, its body executed for an arbitrary iteration: each collected list receives, once,
    its own part of idle_time_per_rank(this rank's frame) (contracts/collect_contract.py); the statements after the loop are
    executed in pctg_exec_vcs."""
    from contracts import collect_contract as cc

    f, rank, _frame, parts, appends, _ex = cc.loop_appends(BA, "BreakdownAnalysis.get_temporal_breakdown", "idle_time_per_rank", 4)
    ok, why = cc.appends_ok(appends, {"rank": rank, "idle_time(us)": parts[0], "compute_time(us)": parts[1], "non_compute_time(us)": parts[2], "kernel_time(us)": parts[3]})
    return [core.VC(f"{PROP}.get_temporal_breakdown.loop", [], z3.BoolVal(ok), "vc", [f.fq], {},
                    note="idle_time_per_rank returns (idle, compute, non_compute, kernel_time); per iteration: " + why)]


def pctg_exec_vcs() -> List[core.VC]:
    """The statements of get_temporal_breakdown AFTER the per-rank loop, executed relationally on a symbolic result frame
    (one row per rank; the four `(us)` columns arbitrary reals with kernel_time > 0): every reported *_pctg cell is
    round2(100 * its own part / kernel_time) of ITS row, the four `(us)` columns and `rank` come back as collected, no row is
    added or lost. round(x, 2) is an uninterpreted function of the value (so `round(100 * x, 2)` and `round(x * 100, 2)` agree,
    a different number of decimals or another part does not)."""
    f = extract.get_function(BA, "BreakdownAnalysis.get_temporal_breakdown")
    fq = [f.fq]
    node = extract.stripped(f)
    name = f"{PROP}.get_temporal_breakdown.tail"
    loops = [i for i, st in enumerate(node.body) if isinstance(st, ast.For)]
    if len(loops) != 1:
        raise pyvc.Unsupported("get_temporal_breakdown: expected exactly one top-level loop (per rank)")
    tail = node.body[loops[0] + 1:]
    parts = {"idle_time": "idle_time(us)", "compute_time": "compute_time(us)", "non_compute_time": "non_compute_time(us)"}
    cols = {"rank": (z3.IntSort(), False, "int"), "kernel_time(us)": (z3.RealSort(), False, "float")}
    for c in parts.values():
        cols[c] = (z3.RealSort(), False, "float")
    df = fv.SymDF.base("collected", cols)
    pres0, cols0 = df.present, dict(df.cols)
    round_fn = z3.Function("round_to", z3.RealSort(), z3.IntSort(), z3.RealSort())

    @pyvc.intrinsic
    def _round(exq, pc, env, args, kwargs):
        x = args[0]
        nd = args[1] if len(args) > 1 else kwargs.get("ndigits", 0)
        if isinstance(x, fv.SymSeries):
            v = x.col.val
            return x._mk(lambda r: round_fn(z3.ToReal(to_z3(v(r))) if to_z3(v(r)).sort() == z3.IntSort() else to_z3(v(r)), to_z3(nd)), x.col.null, "float")
        raise pyvc.Unsupported("round() of something else than a column")

    @pyvc.intrinsic
    def _mkdf(exq, pc, env, args, kwargs):
        if len(args) != 1 or args[0] is not collected or kwargs:
            raise pyvc.Unsupported("pd.DataFrame(...) of something else than the collected per-rank lists")
        return df

    collected = pyvc.Opaque("per-rank lists")
    ex = pyvc.Exec(consts=extract.module_constants(BA), name=name)
    fv.install(ex)
    ex.intrinsics["round"] = _round
    ex.consts["pd"] = pyvc.Namespace("pd", {"DataFrame": _mkdf})
    outs = ex.exec_block(tail, [], {"result": collected, "visualize": False, "t": pyvc.Opaque("trace"), "cls": pyvc.Opaque("cls")})
    rets = [o for o in outs if o.kind == "ret"]
    if len(outs) != 1 or len(rets) != 1 or not isinstance(rets[0].value, fv.SymDF) or rets[0].value.uni is not df.uni:
        raise pyvc.Unsupported("get_temporal_breakdown tail: not exactly one returning path with a frame over the collected rows")
    out = rets[0].value
    vcs = [core.VC(pv.name, pv.hyps, pv.goal, "vc", fq, {}, note=pv.note) for pv in ex.vcs]
    r = df.uni.skolem("r")
    facts = [to_z3(x) for x in ex.facts]
    kt = to_z3(cols0["kernel_time(us)"].val(r))
    hyp = facts + [to_z3(pres0(r)), kt > 0]
    vcs.append(core.VC(f"{name}.rows", facts, to_z3(out.present(r)) == to_z3(pres0(r)), "vc", fq, {"row": r[0]}, note="one row per rank: none added, none lost"))
    want_cols = ["rank", "kernel_time(us)"] + list(parts.values()) + [p + "_pctg" for p in parts]
    vcs.append(core.VC(f"{name}.columns", [], z3.BoolVal(all(c in out.cols for c in want_cols)), "vc", fq, {}, note=f"reported columns {list(out.cols)}"))
    if all(c in out.cols for c in want_cols):
        for c in ["rank", "kernel_time(us)"] + list(parts.values()):
            vcs.append(core.VC(f"{name}.passes_through.{c}", hyp, to_z3(out.cols[c].val(r)) == to_z3(cols0[c].val(r)), "vc", fq, {"row": r[0]}, note=f"`{c}` is reported as collected"))
        for pname, src in parts.items():
            mv = {"row": r[0], "part": to_z3(cols0[src].val(r)), "kernel_time": kt, "reported": to_z3(out.cols[pname + "_pctg"].val(r))}
            vcs.append(core.VC(f"{name}.{pname}_pctg", hyp, to_z3(out.cols[pname + "_pctg"].val(r)) == round_fn(100 * to_z3(cols0[src].val(r)) / kt, 2), "vc", fq, mv,
                               note=f"{pname}_pctg = round(100 * {src} / kernel_time(us), 2) of the same row"))
    vcs.append(core.VC(f"{name}.vacuity", hyp, z3.BoolVal(False), "vacuity", fq, {}))
    return vcs


# ---------------------------------------------------------------------------------------------- bounded


def union_measure(intervals: List[Any]) -> int:
    iv = sorted((s, e) for s, e in intervals if e > s)
    tot, cur_s, cur_e = 0, None, None
    for s, e in iv:
        if cur_e is None or s > cur_e:
            if cur_e is not None:
                tot += cur_e - cur_s
            cur_s, cur_e = s, e
        else:
            cur_e = max(cur_e, e)
    if cur_e is not None:
        tot += cur_e - cur_s
    return tot


def _case(seed: int) -> Dict[str, Any]:
    import re
    from fractions import Fraction

    from hv import gen, rt

    kw = dict(n_streams=1 + seed % 3, steps=(seed % 3), p_zero_kernel=0.2, p_memcpy=0.25, n_top=2 + seed % 3, p_orphan_kernel=0.1)
    if seed % 5 == 4:
        kw["p_frac_kernel_dur"] = 0.6  # whole-number timestamps, fractional durations: nothing is rounded, the parts are exact fractions
    per_rank = gen.gen_trace_set(seed, n_ranks=1 + seed % 2, **kw)
    if seed % 3 == 1:
        # device-side records that are neither computation nor a copy by their leading word: a synchronisation record written on the stream it waits for,
        # a staging copy whose name has "Memcpy" in the middle (the kernel-type rule excludes both from computation)
        k = 0
        for evs in per_rank.values():
            for e in evs:
                if e.get("cat") == "kernel" and str(e.get("name", "")).startswith("void") and e.get("dur", 0) > 0:
                    k += 1
                    if k % 3 == 1:
                        e["name"], e["cat"] = "Stream Sync", "cuda_sync"
                    elif k % 3 == 2:
                        e["name"] = "Async Memcpy PtoP staging"
    if seed % 5 == 2:  # the first device stream is stream 0 (the default stream): a legitimate, falsy stream id
        for evs in per_rank.values():
            for e in evs:
                a = e.get("args")
                if isinstance(a, dict) and a.get("stream") == 7:
                    a["stream"] = 0
                    if e.get("tid") == 7:
                        e["tid"] = 0
    if seed % 4 == 3:  # the analysed ranks are a subset of the job's trainers: rank ids 1 and 3, not 0..n-1 (results are keyed by rank id, not by position)
        per_rank = {2 * rk + 1: evs for rk, evs in per_rank.items()}
    fails = []
    n = 0
    with rt.trace_dir(per_rank) as d:
        try:
            ta = rt.lib(fails, "load", {"seed": seed, "events": per_rank}, rt.load_analysis, d)
            def _fstream(e):
                a = e.get("args")
                try:
                    return int(a.get("stream", -1)) if isinstance(a, dict) else -1
                except (TypeError, ValueError):
                    return -1
            fstream = {rk: {i: _fstream(e) for i, e in gen.complete_events(evs)} for rk, evs in per_rank.items()}  # device rows are those the FILE puts on a stream
            if any(sum(1 for i in ta.t.get_trace(rk)["index"] if fstream[rk].get(int(i), -1) != -1) == 0 for rk in per_rank):
                # the property is stated for traces in which EACH rank has at least one device activity
                return {"n_checks": 0, "fails": [], "nontrivial": False, "clauses": {}, "sample": {"seed": seed, "skipped": "a rank without device activity (outside the property's quantifier)"}}
            out = rt.lib(fails, "get_temporal_breakdown", {"seed": seed, "events": per_rank}, ta.get_temporal_breakdown, visualize=False)
        except rt.LibFailure:
            return {"n_checks": 1, "fails": fails, "nontrivial": True, "clauses": {}}
        for rk in per_rank:
            df = ta.t.get_trace(rk)
            stab = ta.t.symbol_table.get_sym_table()
            dev = df[[fstream[rk].get(int(i), -1) != -1 for i in df["index"]]]
            if len(dev) == 0:
                continue
            iv = [(Fraction(float(a)), Fraction(float(a)) + Fraction(float(b))) for a, b in zip(dev["ts"], dev["dur"])]  # exact: quarters are binary fractions
            names = [stab[i] for i in dev["name"]]
            # independent reading of the kernel-type rule: computation = not nccl kernel, not memory, not sync
            def is_comp(nm):
                if re.match(r"^nccl.*Kernel", nm):
                    return False
                if re.match(r"(^Memcpy)|(^Memset)|(^dma)", nm):
                    return False
                return not re.match(r"(^nccl.*Kernel)|(.*(Memcpy)|(Memset))|(.*Sync)", nm)
            civ = [x for x, nm in zip(iv, names) if is_comp(nm)]
            kt = max(e for _, e in iv) - min(s for s, _ in iv)
            busy = union_measure(iv)
            comp = union_measure(civ)
            exp = {"idle_time(us)": kt - busy, "compute_time(us)": comp, "non_compute_time(us)": busy - comp, "kernel_time(us)": kt}
            row = out[out["rank"] == rk].iloc[0]
            got = {k: Fraction(float(row[k])) for k in exp}
            n += 1
            if got != exp:
                fails.append({"what": "parts_match_measure", "input": {"seed": seed, "rank": rk, "events": per_rank[rk]}, "observed": {k: float(v) for k, v in got.items()}, "expected": {k: float(v) for k, v in exp.items()}})
            elif kt > 0:
                for part, col in (("idle_time(us)", "idle_time_pctg"), ("compute_time(us)", "compute_time_pctg"), ("non_compute_time(us)", "non_compute_time_pctg")):
                    if abs(float(row[col]) - float(100 * exp[part] / kt)) > 0.005 + 1e-9:  # any correct rounding to two decimals
                        fails.append({"what": "percentage", "input": {"seed": seed, "rank": rk, "events": per_rank[rk]}, "observed": float(row[col]), "expected": round(float(100 * exp[part] / kt), 2)})
    return {"n_checks": n, "fails": fails, "nontrivial": n > 0, "sample": {"seed": seed, "ranks": len(per_rank)}, "clauses": {"parts_match_measure": n}}


def bounded(ctx):
    from hv import rt

    n = 48 if not ctx.thorough else 600
    res = rt.pmap(_case, [ctx.seed * 6007 + i for i in range(n)], ctx.procs)
    return rt.summarise(res, f"{PROP}.bounded", f"{n} generated traces (1-2 ranks, 1-3 streams, overlapping / nested / touching / identical / zero-length activities) through "
                        "TraceAnalysis.get_temporal_breakdown; oracle = sweep-line measure of unions")


def units(ctx):
    return [core.Unit(f"{PROP}.merge_kernel_intervals", lambda: mc.merge_vcs(PROP), [UT + ".merge_kernel_intervals"]),
            core.Unit(f"{PROP}.merge_kernel_intervals.stale_helper_columns", lambda: mc.merge_vcs(PROP, stale=True), [UT + ".merge_kernel_intervals"]),
            core.Unit(f"{PROP}.get_idle_time_for_kernels", idle_for_kernels_vcs, [BA + ".BreakdownAnalysis._get_idle_time_for_kernels"]),
            core.Unit(f"{PROP}.idle_time_per_rank", per_rank_vcs, [BA + ".BreakdownAnalysis.get_temporal_breakdown.idle_time_per_rank"]),
            core.Unit(f"{PROP}.percentage_tail", pctg_vcs, [BA + ".BreakdownAnalysis.get_temporal_breakdown"]),
            core.Unit(f"{PROP}.percentage_tail_executed", pctg_exec_vcs, [BA + ".BreakdownAnalysis.get_temporal_breakdown"])]


SPEC = Spec(
    lean=['IntervalMeasure.lean', 'Folds.lean'],
    prop=PROP, level="proof",
    functions=[(UT, "merge_kernel_intervals"), (BA, "BreakdownAnalysis._get_idle_time_for_kernels"), (BA, "BreakdownAnalysis.get_temporal_breakdown.idle_time_per_rank"),
               (BA, "BreakdownAnalysis.get_temporal_breakdown")],
    units=units, bounded=[Bounded("breakdown_vs_measure", bounded), Bounded("history_independence", history.stage(PROP, "temporal", "gen"))],
    trusted=["Lean lemmas L1 (sum of lengths of sorted separated half-open intervals = Lebesgue measure of their union) and L2 (monotonicity, <= extent), lean/HtaLemmas",
             "fold meta-lemma: a ghost accumulator updated by `or` / `max` over the rows equals the finite disjunction / maximum over the prefix",
             "get_kernel_type is an uninterpreted function of the decoded name (regex semantics not interpreted)",
             "sort_values(by='ts') yields the rows in non-decreasing ts order; floats/int64 as mathematical numbers"],
    assumptions=["kernel_time > 0 for the percentage clause (a single zero-length activity gives 0/0 = NaN percentages; recorded, outside the claimed clause)"],
)
