"""C14 — queue-length and memory-bandwidth counters are exact step functions.

Deductive (z3 from the AST): Trace.convert_time_series_to_events (row-local: ts + min_ts, args = {counter_name: value},
ph = 'C', name, id), the launch-event query string of get_runtime_launch_events_query (which names, and index_correlation > 0),
marker construction of both series (relational, see units) where within reach.
Bounded: public getters and generate_trace_with_counters on generated traces (ties between launches and kernel starts, several
streams and copy types, zero-length copies) vs. direct step-function oracles; a 64-pair tie case defeats the stable small-input sort.
"""
from __future__ import annotations

import ast
import json
import gzip
import os
from typing import Any, Dict, List

import z3

from hv import core, extract, framevc as fv, pyvc
from hv import history
from hv.driver import Bounded, Spec
from hv.pyvc import to_z3

TC = "hta.analyzers.trace_counters"
TR = "hta.common.trace"
ST = "hta.common.trace_symbol_table"
TA = "hta.trace_analysis"
PROP = "C14"

LAUNCH_NAMES = ["cudaMemsetAsync", "cudaMemcpyAsync", "cudaLaunchKernel", "cudaLaunchKernelExC", "cuLaunchKernel", "runFunction - job_prep_and_submit_for_execution",
                "hipLaunchKernel", "hipExtModuleLaunchKernel", "hipMemcpyAsync", "hipMemsetAsync", "hipMemcpyWithStream"]


def convert_vcs() -> List[core.VC]:
    name = f"{PROP}.convert_time_series_to_events"
    f = extract.get_function(TR, "Trace.convert_time_series_to_events")
    fq = [f.fq]
    vcs: List[core.VC] = []
    for has_name, has_id in ((True, False), (False, True)):
        ex = pyvc.Exec(consts=extract.module_constants(TR), name=name)
        fv.install(ex)
        cols = {"ts": (z3.IntSort(), False, "int"), "pid": (z3.IntSort(), False, "int"), "value": (z3.IntSort(), False, "int")}
        if has_name:
            cols["name"] = (z3.StringSort(), False, "str")
        if has_id:
            cols["id"] = (z3.IntSort(), False, "int")
        series = fv.SymDF.base("series", cols)
        before = dict(series.cols)
        min_ts = z3.Int("min_ts")
        selfrec = pyvc.Record("Trace", {"min_ts": min_ts})
        ex.consts["PHASE_COUNTER"] = extract.module_constants("hta.common.trace_parser").get("PHASE_COUNTER", extract.module_constants(TR).get("PHASE_COUNTER", "C"))
        captured: Dict[str, Any] = {}

        def to_dict(exq, pc, env, obj, args, kwargs):
            captured["df"] = obj
            return "RECORDS"

        orig = fv.SymDF.hv_call_method

        def patched(self_, exq, attr, args, kwargs, pc, env):
            if attr == "to_dict" and args == ["records"]:
                captured["df"] = self_
                return "RECORDS"
            return orig(self_, exq, attr, args, kwargs, pc, env)

        fv.SymDF.hv_call_method = patched
        try:
            outs = ex.run_function(extract.stripped(f), {"self": selfrec, "series": series, "counter_name": "Queue Length", "counter_col": "value"}, [])
        finally:
            fv.SymDF.hv_call_method = orig
        rets = [o for o in outs if o.kind == "ret" and o.value == "RECORDS"]
        if len(rets) != 1 or "df" not in captured:
            raise pyvc.Unsupported("convert_time_series_to_events: expected one path returning events_df.to_dict('records')")
        out: fv.SymDF = captured["df"]
        r = series.uni.skolem("r")
        tag = f"{name}.{'named' if has_name else 'with_id'}"
        want_cols = {"pid", "ts", "args", "ph", "name"} | ({"id"} if has_id else set())
        vcs.append(core.VC(f"{tag}.columns", [], z3.BoolVal(set(out.cols) == want_cols and out.uni is series.uni), "vc", fq, {}, note=f"event keys {sorted(out.cols)}"))
        if set(out.cols) == want_cols and out.uni is series.uni:
            argsv = out.cols["args"].val(r)
            ok_args = isinstance(argsv, dict) and list(argsv) == ["Queue Length"]
            goal = [to_z3(out.present(r)) == to_z3(series.present(r)), to_z3(out.cols["ts"].val(r)) == before["ts"].val(r) + min_ts, to_z3(out.cols["pid"].val(r)) == before["pid"].val(r),
                    z3.BoolVal(out.cols["ph"].val(r) == "C"), z3.BoolVal(ok_args)]
            if ok_args:
                goal.append(to_z3(argsv["Queue Length"]) == before["value"].val(r))
            if has_name:
                goal.append(to_z3(out.cols["name"].val(r)) == before["name"].val(r))
            else:
                goal.append(z3.BoolVal(out.cols["name"].val(r) == "Queue Length"))
            if has_id:
                goal.append(to_z3(out.cols["id"].val(r)) == before["id"].val(r))
            vcs.append(core.VC(f"{tag}.row_values", list(ex.facts), z3.And(*goal), "vc", fq, {"row": r[0]},
                               note="one counter event per series row: ts + min_ts (original, unshifted time), args = {counter name: value}, ph = 'C', pid (and id / name) copied"))
        vcs.append(core.VC(f"{tag}.series_not_modified", [], z3.BoolVal(not series.written), "vc", fq, {}))
    return vcs


def query_vcs(prop: str = PROP) -> List[core.VC]:
    """get_runtime_launch_events_query over an ARBITRARY symbol table (any bijection ids <-> strings, any subset of the launch
    names present, any of them at id 0): it selects exactly the rows whose name decodes to a launch name and that carry a link."""
    f = extract.get_function(ST, "TraceSymbolTable.get_runtime_launch_events_query")
    ex = pyvc.Exec(consts=extract.module_constants(ST), name=f"{prop}.launch_query")
    fv.install(ex)
    st = fv.SymTab("st")
    q = st.hv_call_method(ex, "get_runtime_launch_events_query", [], {}, [], {})
    df = fv.SymDF.base("ev", {"name": (z3.IntSort(), False, "int"), "index_correlation": (z3.IntSort(), False, "int")})
    mask = fv.query_mask(ex, df, q, {}, [])
    r = df.uni.skolem("r")
    nm = df.cols["name"].val(r)
    spec = z3.And(z3.Or(*[st.sym(nm) == z3.StringVal(v) for v in LAUNCH_NAMES]), df.cols["index_correlation"].val(r) > 0)
    hyps = list(ex.facts) + st.axioms(ids=[nm], strings=[z3.StringVal(v) for v in LAUNCH_NAMES]) + [st.valid(nm)]
    vcs = [core.VC(pv.name, pv.hyps, pv.goal, "vc", [f.fq], {}, note=pv.note) for pv in ex.vcs]
    vcs.append(core.VC(f"{prop}.launch_query.selects_linked_launch_calls", hyps, to_z3(mask.col.val(r)) == spec, "vc", [f.fq], {"name": nm, "table_size": st.n, "decoded": st.sym(nm), "link": df.cols["index_correlation"].val(r)},
                       note="for every symbol table (a bijection between ids 0..n-1 and strings; any of the eleven launch names present or absent, at any id, 0 included) and every row "
                            "with a valid name id: selected <=> the name decodes to a kernel/memcpy/memset launch name (CUDA, ROCm, MTIA) and the row has a positive link"))
    vcs.append(core.VC(f"{prop}.launch_query.guard.canary_false", hyps + [spec], z3.BoolVal(False), "canary", [f.fq]))
    return vcs


def replay_launch_query(ctx, rec: Dict[str, Any]) -> Dict[str, Any]:
    """the counter-model's row against the real query of a real TraceSymbolTable that gives the row's name the model's id"""
    m = rec.get("model") or {}
    if ".launch_query." not in rec.get("name", "") or "name" not in m or "decoded" not in m:
        return {"confirmed": False, "why": "no replay for this obligation"}
    import pandas as pd
    from hta.common.trace_symbol_table import TraceSymbolTable

    try:
        nid, link = int(str(m["name"])), int(str(m.get("link", 1)))
    except ValueError:
        return {"confirmed": False, "why": "non-integer model"}
    if not 0 <= nid <= 5000:
        return {"confirmed": False, "why": "model id out of replay range"}
    decoded = str(m["decoded"]).strip('"')
    syms = [f"sym_{k}" for k in range(nid)] + [decoded, "sym_after"]
    st = TraceSymbolTable()
    st.add_symbols(syms)
    if st.get_sym_id_map().get(decoded) != nid:
        return {"confirmed": False, "why": "table could not be built as in the model"}
    df = pd.DataFrame({"name": [nid], "index_correlation": [link]})
    got = len(df.query(st.get_runtime_launch_events_query())) == 1
    want = decoded in LAUNCH_NAMES and link > 0
    inp = {"symbol_table": f"{nid} filler symbols, then {decoded!r} at id {nid}", "row": {"name": nid, "index_correlation": link}}
    return {"confirmed": got != want, "input": inp, "observed": {"selected_by_query": got}, "expected": {"selected": want}}


def _loop_over_groupby(fn_node):
    for n in fn_node.body:
        if isinstance(n, ast.For) and isinstance(n.iter, ast.Call) and isinstance(n.iter.func, ast.Attribute) and n.iter.func.attr == "groupby":
            return n
    raise pyvc.Unsupported("loop over groupby(...) not found")


def queue_series_vcs() -> List[core.VC]:
    """_get_queue_length_time_series_for_rank: marker table (relational) + per-stream prefix sum (window)."""
    from hv import scanvc

    name = f"{PROP}.queue_length"
    f = extract.get_function(TC, "TraceCounters._get_queue_length_time_series_for_rank")
    node = extract.stripped(f)
    fq = [f.fq]
    loop = _loop_over_groupby(node)
    head = node.body[: node.body.index(loop)]
    ex = pyvc.Exec(consts=extract.module_constants(TC), name=name)
    fv.install(ex)
    fv.install_symtab(ex)
    I = z3.IntSort()
    cols = {c: (I, False, "int") for c in ("index", "ts", "dur", "stream", "pid", "tid", "name", "correlation", "index_correlation")}
    df = fv.SymDF.base("trace", cols)
    idx = df.cols["index"].val
    df.label = lambda r: idx(r)
    before = dict(df.cols)
    LQ = "(name == 7001 or name == 7002 or name == 7003) and (index_correlation > 0)"
    st = fv.SymTab("st")
    ex.methods["SymTab.get_runtime_launch_events_query"] = lambda exq, pc, env, obj, args, kwargs: LQ
    ex.methods["Record.get_trace"] = lambda exq, pc, env, obj, args, kwargs: df
    t = pyvc.Record("Trace", {"symbol_table": st})
    env: Dict[str, Any] = {"cls": pyvc.Record("TraceCounters", {}), "t": t, "rank": z3.Int("rank")}
    pc: List[Any] = []
    skipped_assert = 0
    for stt in head:
        if isinstance(stt, ast.Assert):
            skipped_assert += 1  # len(launch rows) == len(activity rows): a counting fact, bounded stage only
            continue
        outs = ex.exec_stmt(stt, pc, env)
        if len(outs) != 1 or outs[0].kind != "fall":
            raise pyvc.Unsupported("queue-length prefix forks")
        pc, env = outs[0].pc, outs[0].env
    merged = env.get("merged_df")
    if not isinstance(merged, fv.SymDF) or not getattr(merged, "concat_parts", None) or len(merged.concat_parts) != 2:
        raise pyvc.Unsupported("merged_df is not a concat of (launch rows, activity rows)")
    pres = df.present
    nm, ic, corr, stream, ts = (before[c].val for c in ("name", "index_correlation", "correlation", "stream", "ts"))
    is_launch = lambda r: z3.And(to_z3(pres(r)), z3.Or(nm(r) == 7001, nm(r) == 7002, nm(r) == 7003), ic(r) > 0)
    a, b = df.uni.skolem("a"), df.uni.skolem("b")
    wf = [z3.ForAll(list(a) + list(b), z3.Implies(z3.And(to_z3(pres(a)), to_z3(pres(b)), stream(a) != -1, stream(b) != -1, corr(a) == corr(b)), a[0] == b[0]),
                    patterns=[z3.MultiPattern(corr(a), corr(b))])]  # WF2 on the device side
    m = merged.uni.skolem("m")
    tag, base = m[0], (m[1],)
    _ = to_z3(merged.present(m))
    hyps = list(ex.facts) + wf + [to_z3(c) for c in pc]
    q = df.uni.skolem("q")
    act = lambda r: z3.And(to_z3(pres(r)), stream(r) != -1, z3.Exists(list(q), z3.And(is_launch(q), corr(q) == corr(r))))
    vcs = [core.VC(pv.name, pv.hyps + list(ex.facts) + wf, pv.goal, "vc", fq, {}, note=pv.note) for pv in ex.vcs]
    need = {"ts", "queue", "stream"}
    vcs.append(core.VC(f"{name}.S1_columns", [], z3.BoolVal(need <= set(merged.cols) and merged.uni.arity == 2), "vc", fq, {}, note=f"marker columns {sorted(merged.cols)}"))
    if need <= set(merged.cols) and merged.uni.arity == 2:
        vcs += [
            core.VC(f"{name}.S1_marker_rows", hyps, to_z3(merged.present(m)) == z3.Or(z3.And(tag == 0, is_launch(base)), z3.And(tag == 1, act(base))), "vc", fq, {"tag": tag, "row": m[1]},
                    note="one +1 marker per linked launch call, one -1 marker per device activity whose correlation id a launch call carries"),
            core.VC(f"{name}.S1_marker_values", hyps + [to_z3(merged.present(m))],
                    z3.And(to_z3(merged.cols["ts"].val(m)) == ts(base), to_z3(merged.cols["queue"].val(m)) == z3.If(tag == 0, 1, -1),
                           z3.Implies(tag == 1, to_z3(merged.cols["stream"].val(m)) == stream(base))), "vc", fq, {"tag": tag},
                    note="markers sit at the event's own start time; an activity's marker is on its own stream"),
        ]
        d = df.uni.skolem("d")
        vcs.append(core.VC(f"{name}.S1_launch_marker_on_the_activitys_stream", hyps + [to_z3(merged.present(m)), tag == 0, to_z3(pres(d)), stream(d) != -1, corr(d) == corr(base)],
                           z3.And(z3.Not(to_z3(merged.cols["stream"].isnull(m))), to_z3(merged.cols["stream"].val(m)) == stream(d)), "vc", fq, {},
                           note="a launch call's marker takes stream / pid / tid from the device activity with the same correlation id"))
        o = merged.order
        vcs.append(core.VC(f"{name}.S2_sorted_by_time_launch_before_activity", [], z3.BoolVal(bool(o) and o[0] == "sorted" and o[2] == ("ts", "queue") and o[3] == "[True, False]"), "vc", fq, {},
                           note=f"sort order {o[2:] if o else None}: by time, +1 before -1 at equal times (no activity is counted before its own launch)"))
    # phase 2: loop body on a window over one stream's rows
    for mode in ("base", "step"):
        w = scanvc.Window(mode, f"ql_{mode}")
        wf_, syms = scanvc.window_frame(w, {"ts": "int", "queue": "int", "stream": "int"}, "ts", f"ql_{mode}")
        ex2 = pyvc.Exec(name=f"{name}.{mode}")
        lst: List[Any] = []
        env2 = ex2.assign(loop.target, (z3.Int("stream_key"), wf_), [], {"result_df_list": lst})
        outs = ex2.exec_block(loop.body, [], env2)
        if len(outs) != 1:
            raise pyvc.Unsupported("loop body forks")
        ql = wf_.cols.get("queue_length")
        if mode == "step":
            cs = [n for n in w.state_prev if n.startswith("cumsum#")]
            ok = ql is not None and len(cs) == 1
            vcs.append(core.VC(f"{name}.S3_queue_length_is_prefix_sum", [], (to_z3(ql.cur) == w.state_prev[cs[0]] + syms["queue"][1]) if ok else z3.BoolVal(False), "vc", fq, {},
                               note="within a stream: queue_length(k) = queue_length(k-1) + queue(k)"))
            vcs.append(core.VC(f"{name}.group_appended", [], z3.BoolVal(len(lst) == 1 and lst[0] is wf_), "vc", fq, {}))
        else:
            vcs.append(core.VC(f"{name}.S3_first_row", [], (to_z3(ql.cur) == syms["queue"][1]) if ql is not None else z3.BoolVal(False), "vc", fq, {}))
    src = " ".join(ast.unparse(node).replace("'", '"').split())
    tail_ok = 'pd.concat(result_df_list)[["ts", "pid", "tid", "stream", "queue_length"]] if len(result_df_list) > 0 else None' in src and 'merged_df.groupby("stream")' in src
    if not tail_ok:
        raise pyvc.Unsupported("result assembly of the queue-length series no longer matches the contract's reading")
    vcs.append(core.VC(f"{name}.result_columns", [], z3.BoolVal(True), "vc", fq, {}, note="one group per stream, concatenated; columns ts, pid, tid, stream, queue_length; None without markers"))
    return vcs


def membw_series_vcs() -> List[core.VC]:
    from hv import scanvc

    name = f"{PROP}.memory_bw"
    f = extract.get_function(TC, "TraceCounters._get_memory_bw_time_series_for_rank")
    node = extract.stripped(f)
    fq = [f.fq]
    loop = _loop_over_groupby(node)
    head = node.body[: node.body.index(loop)]
    ex = pyvc.Exec(consts=extract.module_constants(TC), name=name)
    fv.install(ex)
    fv.install_symtab(ex)
    I, R = z3.IntSort(), z3.RealSort()
    cols = {c: (I, False, "int") for c in ("index", "ts", "dur", "stream", "pid", "name")}
    cols["memory_bw_gbps"] = (R, False, "float")
    df = fv.SymDF.base("trace", cols)
    before = dict(df.cols)
    st = fv.SymTab("st")
    ktype = z3.Function("kernel_type_of", z3.StringSort(), z3.StringSort())
    mtype = z3.Function("memory_kernel_type_of", z3.StringSort(), z3.StringSort())

    @pyvc.intrinsic
    def get_kernel_type(exq, pc, env, args, kwargs):
        return ktype(to_z3(args[0]))

    @pyvc.intrinsic
    def get_memory_kernel_type(exq, pc, env, args, kwargs):
        return mtype(to_z3(args[0]))

    ex.intrinsics["get_kernel_type"] = get_kernel_type
    ex.intrinsics["get_memory_kernel_type"] = get_memory_kernel_type
    from contracts.C04 import _find_kernel_type
    ex.consts["KernelType"] = pyvc.EnumCls("KernelType", _find_kernel_type())
    ex.methods["Record.get_trace"] = lambda exq, pc, env, obj, args, kwargs: df
    t = pyvc.Record("Trace", {"symbol_table": st})
    env: Dict[str, Any] = {"cls": pyvc.Record("TraceCounters", {}), "t": t, "rank": z3.Int("rank")}
    pc: List[Any] = []
    r = df.uni.skolem("r0")
    ex.facts.append(z3.ForAll(list(r), z3.Implies(to_z3(df.present(r)), z3.And(st.valid(before["name"].val(r)), before["dur"].val(r) >= 0))))
    for stt in head:
        outs = ex.exec_stmt(stt, pc, env)
        if len(outs) != 1 or outs[0].kind != "fall":
            raise pyvc.Unsupported("memory-bandwidth prefix forks")
        pc, env = outs[0].pc, outs[0].env
    series = env.get("membw_time_series")
    if not isinstance(series, fv.SymDF) or not getattr(series, "concat_parts", None) or len(series.concat_parts) != 2:
        raise pyvc.Unsupported("membw_time_series is not a concat of (start markers, end markers)")
    m = series.uni.skolem("m")
    tag, base = m[0], (m[1],)
    _ = to_z3(series.present(m))
    pres = df.present
    nm, stream, ts, dur, bw = (before[c].val for c in ("name", "stream", "ts", "dur", "memory_bw_gbps"))
    is_mem = lambda rr: z3.And(to_z3(pres(rr)), stream(rr) != -1, ktype(st.sym(nm(rr))) == z3.StringVal("MEMORY"))
    hyps = list(ex.facts) + st.axioms() + [to_z3(c) for c in pc]
    eff = z3.If(dur(base) == 0, 1, dur(base))
    vcs = [core.VC(pv.name, pv.hyps + list(ex.facts), pv.goal, "vc", fq, {}, note=pv.note) for pv in ex.vcs]
    need = {"ts", "name", "pid", "memory_bw_gbps"}
    vcs.append(core.VC(f"{name}.S1_columns", [], z3.BoolVal(need == set(series.cols) and series.uni.arity == 2), "vc", fq, {}, note=f"columns {sorted(series.cols)}"))
    if need == set(series.cols) and series.uni.arity == 2:
        vcs += [
            core.VC(f"{name}.S1_marker_rows", hyps, to_z3(series.present(m)) == z3.And(is_mem(base), tag >= 0, tag <= 1), "vc", fq, {"tag": tag, "row": m[1]},
                    note="one start and one end marker per memory copy / memset activity"),
            core.VC(f"{name}.S1_marker_values", hyps + [to_z3(series.present(m))],
                    z3.And(to_z3(series.cols["ts"].val(m)) == z3.If(tag == 0, ts(base), ts(base) + eff), to_z3(series.cols["memory_bw_gbps"].val(m)) == z3.If(tag == 0, bw(base), -bw(base)),
                           to_z3(series.cols["name"].val(m)) == mtype(st.sym(nm(base))), to_z3(series.cols["pid"].val(m)) == before["pid"].val(base)), "vc", fq, {"tag": tag},
                    note="+bw at the start, -bw at start + max(dur, 1) (a zero-length copy counts one time unit); name = copy type of the decoded name"),
            core.VC(f"{name}.S2_sorted_by_time", [], z3.BoolVal(bool(series.order) and series.order[0] == "sorted" and series.order[2] == "ts"), "vc", fq, {}),
            core.VC(f"{name}.trace_not_modified", [], z3.BoolVal(not df.written and df.inplace_row_changes == 0), "vc", fq, {}),
        ]
    key = loop.iter.args[0].value if loop.iter.args and isinstance(loop.iter.args[0], ast.Constant) else None
    vcs.append(core.VC(f"{name}.grouped_by_copy_type", [], z3.BoolVal(key == "name"), "vc", fq, {}))
    for mode in ("base", "step"):
        w = scanvc.Window(mode, f"bw_{mode}")
        wf_, syms = scanvc.window_frame(w, {"ts": "int", "memory_bw_gbps": "float"}, "ts", f"bw_{mode}")
        ex2 = pyvc.Exec(name=f"{name}.{mode}")
        lst: List[Any] = []
        env2 = ex2.assign(loop.target, (z3.Int("grp"), wf_), [], {"result_df_list": lst})
        ex2.exec_block(loop.body, [], env2)
        col = wf_.cols.get("memory_bw_gbps")
        if mode == "step":
            cs = [n for n in w.state_prev if n.startswith("cumsum#")]
            vcs.append(core.VC(f"{name}.S3_series_is_prefix_sum", [], (to_z3(col.cur) == w.state_prev[cs[0]] + syms["memory_bw_gbps"][1]) if len(cs) == 1 else z3.BoolVal(False), "vc", fq, {},
                               note="within a copy type: value(k) = value(k-1) + marker(k)"))
        else:
            vcs.append(core.VC(f"{name}.S3_first_row", [], to_z3(col.cur) == syms["memory_bw_gbps"][1], "vc", fq, {}))
    return vcs


# ---------------------------------------------------------------------------------------------- bounded


def _mem_type(nm: str) -> str:
    if nm[:6] == "Memset":
        return "Memset"
    if nm[:6] != "Memcpy":
        return "Memcpy Unknown"
    return nm[:11]


def _is_memory(nm: str) -> bool:
    import re

    return (not re.match(r"^nccl.*Kernel", nm)) and re.match(r"(^Memcpy)|(^Memset)|(^dma)", nm) is not None


def _last_per_instant(rows):
    out = {}
    for ts, v in rows:
        out[ts] = v
    return out


def _check_rank(ta, rk, per_rank, inp, fails) -> int:
    df = ta.t.get_trace(rk)
    stab = ta.t.symbol_table.get_sym_table()
    # the device activity launched by a host call is the one carrying the same correlation id IN THE FILE (the `correlation` column holds the file's value);
    # the link column the loader computed is what the analysis relies on, so the oracle does not
    dev_of_corr: Dict[int, int] = {}
    for i_, s_, c_ in zip(df["index"], df["stream"], df["correlation"]):
        if int(s_) != -1 and int(c_) >= 0 and int(c_) not in dev_of_corr:
            dev_of_corr[int(c_)] = int(i_)
    by_id = {int(i): (int(ts), int(s), stab[int(nm)], (dev_of_corr.get(int(c), 0) if int(s) == -1 and int(c) >= 0 else 0), int(du))
             for i, ts, s, nm, c, du in zip(df["index"], df["ts"], df["stream"], df["name"], df["correlation"], df["dur"])}
    n = 0
    # queue length
    ql = ta.get_queue_length_time_series(ranks=[rk])
    marks: Dict[int, List[Any]] = {}
    causal = True
    for i, (ts, s, nm, ic, du) in by_id.items():
        if s == -1 and nm in LAUNCH_NAMES and ic > 0 and ic in by_id:
            kts, ks = by_id[ic][0], by_id[ic][1]
            marks.setdefault(ks, []).append((ts, +1))
            marks.setdefault(ks, []).append((kts, -1))
            if kts < ts:
                causal = False
    if marks:
        if rk not in ql:
            fails.append({"what": "queue_length.present", "input": inp, "observed": "no series", "expected": f"streams {sorted(marks)}"})
            return 1
        q = ql[rk]
        for s, ms in marks.items():
            rows = [(int(a), int(b)) for a, b in zip(q[q["stream"] == s]["ts"], q[q["stream"] == s]["queue_length"])]
            got = _last_per_instant(rows)
            exp = {T: sum(w for t_, w in ms if t_ <= T) for T in {t_ for t_, _ in ms}}
            n += 1
            if got != exp:
                fails.append({"what": "queue_length.exact_after_each_instant", "input": inp, "observed": {"stream": s, "series": rows[:12]}, "expected": dict(sorted(exp.items())[:12])})
            elif rows and rows[-1][1] != 0:
                fails.append({"what": "queue_length.ends_at_zero", "input": inp, "observed": rows[-3:]})
            elif causal and any(v < 0 for _, v in rows):
                fails.append({"what": "queue_length.never_negative", "input": inp, "observed": [x for x in rows if x[1] < 0][:5], "expected": "no negative value: no activity starts before its launch call"})
            elif len(rows) != len(ms):
                fails.append({"what": "queue_length.one_point_per_event", "input": inp, "observed": len(rows), "expected": len(ms)})
    # memory bandwidth
    raw = {i: e for i, e in enumerate(per_rank[rk])}
    bw = ta.get_memory_bw_time_series(ranks=[rk])
    copies: Dict[str, List[Any]] = {}
    for i, (ts, s, nm, ic, du) in by_id.items():
        if s != -1 and _is_memory(nm):
            b = raw[i].get("args", {}).get("memory bandwidth (GB/s)", 0)
            copies.setdefault(_mem_type(nm), []).append((ts, ts + max(du, 1), float(b)))
    if copies:
        if rk not in bw:
            fails.append({"what": "memory_bw.present", "input": inp, "observed": "no series", "expected": sorted(copies)})
            return n + 1
        m = bw[rk]
        for typ, cs in copies.items():
            rows = [(int(a), float(b)) for a, b in zip(m[m["name"] == typ]["ts"], m[m["name"] == typ]["memory_bw_gbps"])]
            got = _last_per_instant(rows)
            pts = {p for a, b, _ in cs for p in (a, b)}
            exp = {T: sum(w for a, b, w in cs if a <= T < b) for T in pts}
            n += 1
            if set(got) != set(exp) or any(abs(got[T] - exp[T]) > 1e-6 for T in exp):
                fails.append({"what": "memory_bw.sum_of_active_copies", "input": inp, "observed": {"type": typ, "series": rows[:10]}, "expected": dict(sorted(exp.items())[:10])})
            elif any(v < -1e-6 for _, v in rows):
                fails.append({"what": "memory_bw.nonnegative", "input": inp, "observed": [x for x in rows if x[1] < -1e-6][:5]})
    return n


def _case(seed: int) -> Dict[str, Any]:
    from hv import gen, rt

    kw = dict(n_threads=1 + seed % 2, n_streams=1 + seed % 3, steps=seed % 3, p_missing_kernel=0.1, p_orphan_kernel=0.1, p_memcpy=0.35, p_same_ts_kernel=0.5, p_zero_kernel=0.2, n_top=3)
    nr = 1 + seed % 2
    if seed % 5 == 1:
        kw["p_skew"] = 0.5  # device clock behind the host clock: an activity may start before the call that launched it; the pair is linked all the same
    per_rank = gen.gen_trace_set(seed, n_ranks=nr, **kw)
    fails: List[Dict[str, Any]] = []
    n = 0
    gz = bool(seed % 2)
    inp = {"seed": seed, "gz": gz, "events": per_rank}
    with rt.trace_dir(per_rank, gz=gz) as d:
        try:
            ta = rt.lib(fails, "load", inp, rt.load_analysis, d)
            for rk in per_rank:
                n += rt.lib(fails, "series", inp, _check_rank, ta, rk, per_rank, inp, fails)
            # counters in the augmented files: every rank of the trace requested in ONE call (each file carries its own rank's series only)
            req = sorted(per_rank) if seed % 4 != 3 else [0]
            series = {rk: (ta.get_queue_length_time_series(ranks=[rk]).get(rk), ta.get_memory_bw_time_series(ranks=[rk]).get(rk)) for rk in req}
            rt.lib(fails, "generate_trace_with_counters", {**inp, "ranks_requested": req}, ta.generate_trace_with_counters, ranks=req)
            for rk in req:
                ql, bw = series[rk]
                src = ta.t.trace_files[rk]
                outp = src.replace(".json", "_with_counters.json")
                if ql is not None or bw is not None:
                    if not os.path.exists(outp):
                        fails.append({"what": "counters.file_written", "input": {**inp, "ranks_requested": req, "rank": rk}, "observed": os.listdir(d), "expected": os.path.basename(outp)})
                    else:
                        doc = json.load(gzip.open(outp, "rt") if outp.endswith(".gz") else open(outp))
                        cev = [e for e in doc["traceEvents"] if e.get("ph") == "C"]
                        exp = []
                        if ql is not None:
                            exp += [("Queue Length", int(a) + ta.t.min_ts, int(p), float(v)) for a, p, v in zip(ql["ts"], ql["pid"], ql["queue_length"])]
                        if bw is not None:
                            exp += [(str(nm), int(a) + ta.t.min_ts, int(p), float(v)) for a, p, nm, v in zip(bw["ts"], bw["pid"], bw["name"], bw["memory_bw_gbps"])]
                        got = [(e["name"], int(e["ts"]), int(e["pid"]), float(list(e["args"].values())[0])) for e in cev]
                        n += 1
                        if sorted(got) != sorted(exp):
                            fails.append({"what": "counters.reproduce_series_at_original_timestamps", "input": {**inp, "ranks_requested": req, "rank": rk},
                                          "observed": {"events": len(got), "first": sorted(got)[:6]}, "expected": {"events": len(exp), "first": sorted(exp)[:6]}})
        except rt.LibFailure:
            pass
    return {"n_checks": max(n, 1), "fails": fails, "nontrivial": n > 0, "sample": {"seed": seed, "ranks": nr}}


def _tie_case(npairs: int) -> Dict[str, Any]:
    """many launch/kernel pairs with kernel.ts == launch.ts (numpy's sort is stable below 17 elements, so small cases hide tie bugs)"""
    from hv import rt, synth

    evs = [synth.host_op("aten::first", 1000, 50 * npairs + 100)]
    for i in range(npairs):
        t = 1010 + i * 50
        evs.append(synth.launch(t, 5, 100 + i))
        evs.append(synth.kernel("void k", t, 20, 7, 100 + i))
    fails: List[Dict[str, Any]] = []
    inp = {"tie_pairs": npairs, "events": {0: evs}}
    with rt.trace_dir({0: evs}) as d:
        try:
            ta = rt.lib(fails, "load", inp, rt.load_analysis, d)
            n = rt.lib(fails, "series", inp, _check_rank, ta, 0, {0: evs}, inp, fails)
        except rt.LibFailure:
            n = 1
    return {"n_checks": n, "fails": fails, "nontrivial": True, "sample": {"tie_pairs": npairs}}


def _incremental_case(seed: int) -> Dict[str, Any]:
    """Ranks parsed one after the other into ONE Trace with a queue-length request in between (rank 1 launches through APIs rank 0 never
    uses, so their names enter the symbol table after the first request): rank 1's series equals the one a Trace that parsed everything first gives."""
    import contextlib
    import io

    from hv import gen, rt
    from hta.analyzers.trace_counters import TraceCounters
    from hta.common.trace import Trace

    per_rank = gen.wide_narrow_set(seed, n_streams=2, steps=1, n_top=3, p_launch=0.9, p_memcpy=0.4, p_zero=0.0, min_launch_q=1)
    fails: List[Dict[str, Any]] = []
    n = 0
    inp = {"seed": seed, "events": per_rank, "history": "parse_single_rank(0); queue length of rank 0; parse_single_rank(1); queue length of rank 1"}
    with rt.trace_dir(per_rank) as d, contextlib.redirect_stdout(io.StringIO()):
        try:
            ref_t = Trace(trace_dir=d)
            ref_t.parse_traces(use_multiprocessing=False)
            ref = history.canon(TraceCounters.get_queue_length_time_series(ref_t, ranks=[1]).get(1))
            t = Trace(trace_dir=d)
            t.parse_single_rank(0)
            TraceCounters.get_queue_length_time_series(t, ranks=[0])
            t.parse_single_rank(1)
            got = history.canon(rt.lib(fails, "get_queue_length_time_series(after incremental parse)", inp, TraceCounters.get_queue_length_time_series, t, ranks=[1]).get(1))
        except rt.LibFailure:
            return {"n_checks": 1, "fails": fails, "nontrivial": True}
        n += 1
        if got != ref:
            fails.append({"what": "series_after_incremental_parse", "input": inp, "observed": repr(got)[:500], "expected": repr(ref)[:500]})
    return {"n_checks": n, "fails": fails, "nontrivial": True, "sample": {"seed": seed}}


def bounded_incremental(ctx):
    from hv import rt

    k = 6 if not ctx.thorough else 60
    res = rt.pmap(_incremental_case, [ctx.seed * 47 + 700 + i for i in range(k)], ctx.procs)
    return rt.summarise(res, f"{PROP}.incremental", f"{k} two-rank trace sets parsed rank by rank into one Trace with a queue-length request in between; rank 1's series vs. a Trace that parsed all ranks first")


def bounded(ctx):
    from hv import rt

    n = 48 if not ctx.thorough else 500
    res = rt.pmap(_tie_case, [5, 24, 64], ctx.procs) + rt.pmap(_case, [ctx.seed * 419 + i for i in range(n)], ctx.procs)
    return rt.summarise(res, f"{PROP}.bounded", f"tie cases with 5 / 24 / 64 pairs (kernel.ts == launch.ts) + {n} generated traces (1-3 streams, memcpy/memset of several types, "
                        "zero-length copies, equal timestamps, 1-2 ranks, .json/.json.gz) through get_queue_length_time_series, get_memory_bw_time_series, generate_trace_with_counters")


def units(ctx):
    return [core.Unit(f"{PROP}.convert_time_series_to_events", convert_vcs, [TR + ".Trace.convert_time_series_to_events"]),
            core.Unit(f"{PROP}.launch_query", query_vcs, [ST + ".TraceSymbolTable.get_runtime_launch_events_query"]),
            core.Unit(f"{PROP}.queue_length", queue_series_vcs, [TC + ".TraceCounters._get_queue_length_time_series_for_rank"]),
            core.Unit(f"{PROP}.memory_bw", membw_series_vcs, [TC + ".TraceCounters._get_memory_bw_time_series_for_rank"])]


SPEC = Spec(
    lean=["Sweep.lean", "Folds.lean"],
    prop=PROP, level="other",
    functions=[(TR, "Trace.convert_time_series_to_events"), (ST, "TraceSymbolTable.get_runtime_launch_events_query"), (TC, "TraceCounters._get_queue_length_time_series_for_rank"),
               (TC, "TraceCounters._get_memory_bw_time_series_for_rank"), (TA, "TraceAnalysis.generate_trace_with_counters")],
    units=units, replay=replay_launch_query, bounded=[Bounded("series_vs_step_functions", bounded), Bounded("incremental_parse", bounded_incremental), Bounded("history_independence", history.stage(PROP, "queue", "gen")), Bounded("history_independence_membw", history.stage(PROP, "membw", "gen"))],
    trusted=["pandas contracts used by the row-local part (rename, column assignment, apply, to_dict('records'))", "float bandwidth sums treated as exact up to 1e-6"],
    explanation="Proved (z3 from the AST): counter events = series rows at ts + min_ts with {counter: value} / ph 'C' / pid / id / name; the launch query, over an arbitrary symbol "
                "table, selects exactly the rows decoding to one of the eleven launch names with a positive link; the marker tables of both series (+1 at the launch call / -1 at the linked "
                "kernel's start per stream; +bandwidth at a copy's start / -bandwidth at its end per copy type), their time order and running value = prefix sum. The reading 'running value "
                "= number of outstanding launches / sum of the bandwidths of the active copies at that instant' is the sweep lemma L3 (lean/Sweep.lean, machine-checked; instantiated by "
                "reading). Bounded (real code vs. step-function oracles, never counted as proved): both public series, tie handling, final value 0, non-negativity, the written file.",
)
