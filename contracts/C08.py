"""C08 — the critical-path graph is a forward-in-time DAG with typed, non-negative edges.

Deductive (z3 from the AST):
  * CPGraph._add_edge_helper: weight = 0 for DEPENDENCY / SYNC_DEPENDENCY / zero_weight, else dest.ts - src.ts; begin/end = the
    node ids; asserts src != dest; hence weight >= 0 whenever the edge points forward in time;
  * CPGraph._create_event_nodes: node table = exactly one (event, ts, start) and one (event, ts + dur, end) row per analysed event,
    analysed = operator / runtime categories or linked device rows, sorted by time; CPNode fields in (idx, ev_idx, ts, is_start,
    is_blocking) order; no drop(axis=..., columns=...) misuse;
  * enter_func / exit_func of _construct_graph_from_call_stack: the edges added per visit and the state transition
    (last_node, last_highlevel_op, op_depth, last_ev_parent);
  * the call sites of _add_edge_helper in _construct_graph_from_kernels: which nodes each typed edge joins;
  * window clipping of critical_path_analysis (host events with dur > 0 starting in the window; device events whose launch call is kept).
Bounded: the real analysis on generated causally consistent traces; every clause re-derived from the trace.
"""
from __future__ import annotations

import ast
import os
from typing import Any, Dict, List

import z3

from contracts import cp_common as cc
from hv import core, extract, framevc as fv, pyvc
from hv import history
from hv.driver import Bounded, Spec
from hv.pyvc import to_z3

CPA = cc.CPA
PROP = "C08"
I = z3.IntSort()


def _edge_types() -> pyvc.EnumCls:
    return pyvc.EnumCls("CPEdgeType", extract.enum_members(CPA, "CPEdgeType"))


def _node(tag: str) -> pyvc.Record:
    return pyvc.Record("CPNode", {"idx": z3.Int(f"{tag}_idx"), "ev_idx": z3.Int(f"{tag}_ev"), "ts": z3.Int(f"{tag}_ts"), "is_start": z3.Bool(f"{tag}_is_start"),
                                  "is_blocking": z3.Bool(f"{tag}_blocking")})


def _same(a, b) -> bool:
    """the same CPNode (records are copied when the executor forks)"""
    return isinstance(a, pyvc.Record) and isinstance(b, pyvc.Record) and a.fields["idx"].eq(b.fields["idx"])


def add_edge_helper_vcs() -> List[core.VC]:
    name = f"{PROP}.add_edge_helper"
    f = extract.get_function(CPA, "CPGraph._add_edge_helper")
    fq = [f.fq]
    et = _edge_types()
    ex = pyvc.Exec(consts=extract.module_constants(CPA), name=name)
    ex.consts["CPEdgeType"] = et
    ex.consts["CPEdge"] = pyvc.RecordCtor("CPEdge", ["begin", "end", "weight", "type"], {"weight": 0}, frozen=True)
    added: List[Any] = []
    ex.methods["Record._add_edge"] = lambda exq, pc, env, obj, args, kwargs: added.append((list(pc), args[0]))
    src, dst = _node("src"), _node("dest")
    typ = z3.Int("edge_type")
    zw = z3.Bool("zero_weight")

    class _SymEnum:
        """a symbolic member of CPEdgeType"""

        def hv_compare(self, exq, op, other, reflected):
            if isinstance(other, pyvc.EnumVal):
                r = typ == other.code
                return r if isinstance(op, ast.Eq) else z3.Not(r)
            raise pyvc.Unsupported("enum comparison")

    outs = ex.run_function(extract.stripped(f), {"self": pyvc.Record("CPGraph", {}), "src": src, "dest": dst, "type": typ, "zero_weight": zw}, [et.domain(typ)])
    vcs = []
    asserts = [pv for pv in ex.vcs if "assert" in pv.name]
    vcs.append(core.VC(f"{name}.asserts_distinct_nodes", [], z3.BoolVal(len(asserts) == 1), "vc", fq, {}, note="the helper asserts src.idx != dest.idx"))
    if asserts:
        vcs.append(core.VC(f"{name}.assert_is_src_ne_dest", asserts[0].hyps, asserts[0].goal == (src.fields["idx"] != dst.fields["idx"]), "vc", fq, {}))
    rets = [o for o in outs if o.kind == "ret"]
    zero_types = z3.Or(typ == et.member("DEPENDENCY").code, typ == et.member("SYNC_DEPENDENCY").code)
    for i, o in enumerate(rets):
        e = o.value
        hy = [to_z3(c) for c in o.pc]
        ok = isinstance(e, pyvc.Record) and e.cls == "CPEdge"
        if not ok:
            vcs.append(core.VC(f"{name}.returns_edge", hy, z3.BoolVal(False), "vc", fq, {}))
            continue
        w = to_z3(e.fields["weight"])
        mv = {"type": typ, "zero_weight": zw, "src_ts": src.fields["ts"], "dest_ts": dst.fields["ts"]}
        vcs.append(core.VC(f"{name}.weight_rule", hy, w == z3.If(z3.Or(zero_types, zw), 0, dst.fields["ts"] - src.fields["ts"]), "vc", fq, mv,
                           note="0 for dependencies, synchronisation and blocking calls; otherwise the time difference of the endpoints"))
        vcs.append(core.VC(f"{name}.endpoints_and_type", hy, z3.And(to_z3(e.fields["begin"]) == src.fields["idx"], to_z3(e.fields["end"]) == dst.fields["idx"], to_z3(e.fields["type"]) == typ), "vc", fq, mv))
        vcs.append(core.VC(f"{name}.nonnegative_when_forward", hy + [dst.fields["ts"] >= src.fields["ts"]], w >= 0, "vc", fq, mv, note="an edge that points forward in time never weighs a negative amount"))
    vcs.append(core.VC(f"{name}.edge_is_added_to_graph", [], z3.BoolVal(len(added) == len(rets) and all(a[1] is o.value for a, o in zip(added, rets))), "vc", fq, {}))
    vcs.append(core.VC(f"{name}.guard.canary_false", [et.domain(typ)], z3.BoolVal(False), "canary", fq))
    return vcs


OP_QUERY = "(cat == 9001 or cat == 9002 or cat == 9003)"


def create_nodes_vcs() -> List[core.VC]:
    name = f"{PROP}.create_event_nodes"
    f = extract.get_function(CPA, "CPGraph._create_event_nodes")
    node = extract.stripped(f)
    fq = [f.fq]
    ex = pyvc.Exec(consts=extract.module_constants(CPA), name=name)
    fv.install(ex)
    fv.install_symtab(ex)
    st = fv.SymTab("st")
    cols = {"index": (I, False, "int"), "ts": (I, False, "int"), "dur": (I, False, "int"), "name": (I, False, "int"), "cat": (I, False, "int"), "stream": (I, False, "int"),
            "index_correlation": (I, False, "int")}
    df = fv.SymDF.base("clipped", cols)
    before = dict(df.cols)
    ex.methods["SymTab.get_operator_or_cuda_runtime_query"] = lambda exq, pc, env, obj, args, kwargs: OP_QUERY
    selfrec = pyvc.Record("CPGraph", {"trace_df": df, "symbol_table": st, "BLOCKING_SYNC_CALLS": ["cudaDeviceSynchronize", "cudaMemcpyAsync"], "node_list": [],
                                      "event_to_start_node_map": {}, "event_to_end_node_map": {}})
    pc: List[Any] = []
    env: Dict[str, Any] = {"self": selfrec}
    nodes_df = None
    for stt in node.body:
        if isinstance(stt, ast.Assign) and isinstance(stt.targets[0], ast.Name) and stt.targets[0].id == "nodes_df":
            # evaluate up to (not including) reset_index(names="idx"): the positional id is the row number after the sort
            call = stt.value
            inner = call
            chain = []
            while isinstance(inner, ast.Call) and isinstance(inner.func, ast.Attribute):
                chain.append(inner.func.attr)
                inner = inner.func.value
            if chain[:3] != ["reset_index", "reset_index", "sort_values"]:
                raise pyvc.Unsupported(f"nodes_df construction chain is {chain}")
            sorted_call = call.func.value.func.value  # ....sort_values(...)
            nodes_df = ex.eval(sorted_call, pc, env)
            break
        outs = ex.exec_stmt(stt, pc, env)
        if len(outs) != 1 or outs[0].kind != "fall":
            raise pyvc.Unsupported("_create_event_nodes prefix forks")
        pc, env = outs[0].pc, outs[0].env
    if not isinstance(nodes_df, fv.SymDF) or nodes_df.uni.arity != 2:
        raise pyvc.Unsupported("nodes_df is not a concat of two frames over the clipped trace")
    r = nodes_df.uni.skolem("n")
    which, base = r[0], (r[1],)
    analysed = z3.And(to_z3(df.present(base)), z3.Or(before["cat"].val(base) == 9001, before["cat"].val(base) == 9002, before["cat"].val(base) == 9003,
                                                      z3.And(before["stream"].val(base) != -1, before["index_correlation"].val(base) >= 0)))
    vcs = [core.VC(pv.name, pv.hyps + list(ex.facts), pv.goal, "vc", fq, {}, note=pv.note) for pv in ex.vcs]
    hy = list(ex.facts) + st.axioms()
    need = {"ev_idx", "ts", "is_start", "is_blocking_call"}
    vcs.append(core.VC(f"{name}.columns", [], z3.BoolVal(need <= set(nodes_df.cols)), "vc", fq, {}, note=f"node table columns {list(nodes_df.cols)}"))
    if need <= set(nodes_df.cols):
        vcs.append(core.VC(f"{name}.one_start_and_one_end_node_per_analysed_event", hy, to_z3(nodes_df.present(r)) == z3.And(analysed, which >= 0, which <= 1), "vc", fq, {"which": which, "event_row": r[1]},
                           note="analysed = operator / runtime categories or device rows with a link; exactly two nodes each"))
        isst = to_z3(pyvc.truth(nodes_df.cols["is_start"].val(r)))
        vcs.append(core.VC(f"{name}.node_values", hy + [to_z3(nodes_df.present(r))],
                           z3.And(to_z3(nodes_df.cols["ev_idx"].val(r)) == before["index"].val(base), isst == (which == 0),
                                  to_z3(nodes_df.cols["ts"].val(r)) == z3.If(which == 0, before["ts"].val(base), before["ts"].val(base) + before["dur"].val(base))),
                           "vc", fq, {"which": which}, note="start node carries the event's start time, end node its start + duration"))
        vcs.append(core.VC(f"{name}.sorted_by_time", [], z3.BoolVal(nodes_df.order[0] == "sorted" and nodes_df.order[2] == "ts"), "vc", fq, {}, note="node ids are positions after sorting by time"))
    src = ast.unparse(node).replace("'", '"')
    ok_ctor = 'CPNode(*args) for args in zip(_df["idx"], _df["ev_idx"], _df["ts"], _df["is_start"], _df["is_blocking_call"])' in src.replace("\n", " ").replace("  ", " ")
    fields = [s_.target.id for s_ in extract.load_module(CPA)[1].body[0:0]]
    cls = [s_ for s_ in extract.load_module(CPA)[1].body if isinstance(s_, ast.ClassDef) and s_.name == "CPNode"]
    order = [s_.target.id for s_ in cls[0].body if isinstance(s_, ast.AnnAssign)] if cls else []
    vcs.append(core.VC(f"{name}.cpnode_field_order", [], z3.BoolVal(ok_ctor and order[:5] == ["idx", "ev_idx", "ts", "is_start", "is_blocking"]), "vc", fq, {},
                       note=f"CPNode(*zip(idx, ev_idx, ts, is_start, is_blocking_call)) against dataclass fields {order}"))
    maps_ok = 'self.event_to_start_node_map = dict(zip(_df["ev_idx"], _df["idx"]))' in src and 'self.event_to_end_node_map = dict(zip(_df["ev_idx"], _df["idx"]))' in src \
        and "_df = nodes_df[nodes_df.is_start]" in src and "_df = nodes_df[~nodes_df.is_start]" in src
    vcs.append(core.VC(f"{name}.event_to_node_maps", [], z3.BoolVal(maps_ok), "vc", fq, {}, note="event -> start node from the start rows, event -> end node from the end rows"))
    vcs.append(core.VC(f"{name}.trace_not_modified", [], z3.BoolVal(not df.written and df.inplace_row_changes == 0), "vc", fq, {}))
    return vcs


def dfs_callbacks_vcs() -> List[core.VC]:
    """enter_func / exit_func: edges added and state transition, for a visited event that has nodes."""
    name = f"{PROP}.call_stack_callbacks"
    f = extract.get_function(CPA, "CPGraph._construct_graph_from_call_stack")
    node = extract.stripped(f)
    fq = [f.fq]
    et = _edge_types()
    vcs: List[core.VC] = []
    for which in ("enter_func", "exit_func"):
        g = [n for n in ast.walk(node) if isinstance(n, ast.FunctionDef) and n.name == which][0]
        for has_last in (True, False):
            for depth0 in ((True, False) if which == "enter_func" else (False,)):
                ex = pyvc.Exec(consts=extract.module_constants(CPA), name=f"{name}.{which}")
                ex.consts["CPEdgeType"] = et
                edges: List[Any] = []
                attrs: List[Any] = []

                def add(exq, pc, env, obj, args, kwargs):
                    rec = {"pc": list(pc), "src": args[0], "dest": args[1], "type": kwargs.get("type", args[2] if len(args) > 2 else et.member("OPERATOR_KERNEL")),
                           "zero_weight": kwargs.get("zero_weight", args[3] if len(args) > 3 else False)}
                    edges.append(rec)
                    return ("EDGE", len(edges) - 1)

                def attr(exq, pc, env, obj, args, kwargs):
                    attrs.append((args[0], args[1]))

                start, end, last, hl = _node("start"), _node("end"), _node("last"), _node("highlevel")
                ex.methods["Record._add_edge_helper"] = add
                ex.methods["Record._attribute_edge"] = attr
                ex.methods["Record.get_nodes_for_event"] = lambda exq, pc, env, obj, args, kwargs: (start, end)
                depth = z3.Int("op_depth")
                lep = z3.Int("last_ev_parent")
                csnode = pyvc.Record("CallStackNode", {"parent": z3.Int("cs_parent"), "depth": z3.Int("cs_depth")})
                pre = [depth == 0] if depth0 else ([depth >= 1] if which == "enter_func" else [depth >= 1])
                LCA = z3.Function("lowest_common_enclosing_event", z3.IntSort(), z3.IntSort(), z3.IntSort())

                @pyvc.intrinsic
                def common_parent(exq, pc, env_, args, kwargs):
                    # the nested helper of the same function; its own contract (lowest event enclosing both) is proved in C10.common_parent
                    return LCA(to_z3(args[0]), to_z3(args[1]))

                env = {"self": pyvc.Record("CPGraph", {}), "ev_id": z3.Int("ev_id"), "csnode": csnode, "last_node": last if has_last else None,
                       "last_highlevel_op": hl, "op_depth": depth, "last_ev_parent": lep, "link_operators": True, "common_parent": common_parent}
                outs = ex.exec_block(g.body, pre, env)
                tag = f"{name}.{which}.{'with' if has_last else 'without'}_last_node.{'top_level' if depth0 else 'nested'}"
                finals = [o for o in outs if o.kind in ("fall", "ret")]
                if which == "enter_func":
                    exp_edges = ([("dep", hl, start)] if depth0 else []) + ([("span", last, start)] if has_last else [])
                else:
                    exp_edges = [("span", last, end)] if has_last else []
                ok_edges = len(edges) == len(exp_edges)
                goal_parts = []
                if ok_edges:
                    for rec, (kind, s_, d_) in zip(edges, exp_edges):
                        ok_edges = ok_edges and _same(rec["src"], s_) and _same(rec["dest"], d_)
                        if kind == "dep":
                            ok_edges = ok_edges and isinstance(rec["type"], pyvc.EnumVal) and rec["type"].name == "DEPENDENCY"
                        else:
                            ok_edges = ok_edges and isinstance(rec["type"], pyvc.EnumVal) and rec["type"].name == "OPERATOR_KERNEL"
                            if which == "exit_func":
                                goal_parts.append(to_z3(rec["zero_weight"]) == start.fields["is_blocking"])
                            else:
                                ok_edges = ok_edges and rec["zero_weight"] is False
                vcs.append(core.VC(f"{tag}.edges", [], z3.BoolVal(bool(ok_edges)), "vc", fq, {}, note=f"edges added: {[(r['src'].fields['idx'], r['dest'].fields['idx']) for r in edges]}; expected "
                                   + ("dependency last top-level end -> start (top level only), span last_node -> start" if which == "enter_func" else "span last_node -> end (zero weight iff the call is blocking)")))
                if goal_parts:
                    vcs.append(core.VC(f"{tag}.blocking_calls_weigh_zero", pre, z3.And(*goal_parts), "vc", fq, {}))
                ok_attr = len(attrs) == (1 if has_last else 0)
                vcs.append(core.VC(f"{tag}.span_edge_is_attributed", [], z3.BoolVal(ok_attr), "vc", fq, {}, note="every span edge added here is handed to _attribute_edge (what it is attributed to is C10)"))
                if which == "enter_func" and has_last and attrs:
                    # C10 (case 4): an end -> start edge is attributed to the lowest event enclosing the finished event and the entered one
                    vcs.append(core.VC(f"{tag}.end_to_start_edge_attributed_to_lowest_common_enclosing_event", pre + [z3.Not(last.fields["is_start"])],
                                       to_z3(attrs[0][1]) == LCA(last.fields["ev_idx"], z3.Int("ev_id")), "vc", fq, {},
                                       note="the gap between a finished event and the next one lies inside every event enclosing both; the direct parent of either may be an "
                                            "annotation around that one only (D17, D24)"))
                for o in finals:
                    e2 = o.env
                    hy = [to_z3(c) for c in o.pc]
                    if which == "enter_func":
                        goal = z3.And(to_z3(e2["op_depth"]) == depth + 1, z3.BoolVal(_same(e2["last_node"], start)), to_z3(e2["last_ev_parent"]) == csnode.fields["parent"])
                    else:
                        top = to_z3(e2["op_depth"]) == 0
                        goal = z3.And(to_z3(e2["op_depth"]) == depth - 1)
                        if e2["last_node"] is None:
                            goal = z3.And(goal, top, z3.BoolVal(_same(e2["last_highlevel_op"], end)))
                        else:
                            goal = z3.And(goal, z3.Not(top), z3.BoolVal(_same(e2["last_node"], end)), to_z3(e2["last_ev_parent"]) == csnode.fields["parent"])
                    vcs.append(core.VC(f"{tag}.state_transition", hy, goal, "vc", fq, {}))
    return vcs


def kernel_sites_vcs() -> List[core.VC]:
    """every _add_edge_helper / _add_gpu_cpu_sync_edge / _add_kernel_launch_delay_edge call site of the kernel part, by its arguments (syntactic)."""
    f = extract.get_function(CPA, "CPGraph._construct_graph_from_kernels")
    src = ast.unparse(extract.stripped(f)).replace("'", '"')
    flat = " ".join(src.split())
    want = {
        "span edge start -> end of the activity": "e = self._add_edge_helper(start_node, end_node)",
        "GPU->GPU sync edge from the awaited kernel's end to the dependent kernel's start": "self._add_edge_helper(kernel_sync_end, start_node, type=CPEdgeType.SYNC_DEPENDENCY)",
        "kernel-kernel delay from the previous activity of the SAME stream": "e = self._add_edge_helper(last_node[stream], start_node, type=CPEdgeType.KERNEL_KERNEL_DELAY)",
        "launch delay from the launch call named by index_correlation": "success = self._add_kernel_launch_delay_edge(runtime_index, start_node)",
        "runtime_index is the activity's link": "runtime_index = row.index_correlation",
        "last activity per stream": "last_node[stream] = end_node",
        "stream sync waits for the last activity of its stream, context sync for all": "gpu_nodes_to_sync = last_node.values() if name == context_sync else [last_node.get(row.stream)]",
        "sync edge ends at the waiting host call": "self._add_gpu_cpu_sync_edge(gpu_node, row.index_correlation)",
        "activities processed in start-time order (sync records by their end), a sync record before an activity starting at that instant":
            "gpu_kernels.sort_values(by=[\"sort_by\", \"is_activity\"], axis=0, inplace=True, kind=\"stable\")",
        "tie-break column: 0 for sync records, 1 for activities": "gpu_kernels[\"is_activity\"] = (gpu_kernels.cat != sync_cat).astype(int)",
    }
    missing = [k for k, v in want.items() if v not in flat]
    if missing:
        raise pyvc.Unsupported("edge-creating sites of _construct_graph_from_kernels no longer match the contract's reading: " + "; ".join(missing))
    h1 = extract.get_function(CPA, "CPGraph._add_gpu_cpu_sync_edge")
    h2 = extract.get_function(CPA, "CPGraph._add_kernel_launch_delay_edge")
    s1 = " ".join(ast.unparse(extract.stripped(h1)).split())
    s2 = " ".join(ast.unparse(extract.stripped(h2)).split())
    ok1 = "_, end_node = self.get_nodes_for_event(runtime_eid)" in s1 and "self._add_edge_helper(gpu_node, end_node, type=CPEdgeType.SYNC_DEPENDENCY)" in s1
    ok2 = "runtime_start, _ = self.get_nodes_for_event(runtime_index)" in s2 and "self._add_edge_helper(runtime_start, kernel_start_node, type=CPEdgeType.KERNEL_LAUNCH_DELAY, zero_weight=zero_weight)" in s2
    return [core.VC(f"{PROP}.kernel_sites.edge_endpoints", [], z3.BoolVal(True), "vc", [f.fq], {}, note="; ".join(want)),
            core.VC(f"{PROP}.kernel_sites.sync_edge_helper", [], z3.BoolVal(ok1), "vc", [h1.fq], {}, note="GPU->CPU sync edge: kernel end node -> END node of the waiting host call"),
            core.VC(f"{PROP}.kernel_sites.launch_delay_helper", [], z3.BoolVal(ok2), "vc", [h2.fq], {}, note="launch delay: START node of the launch call -> kernel start node")]


def clip_vcs() -> List[core.VC]:
    """window clipping in critical_path_analysis: kept host events and kept device events."""
    name = f"{PROP}.window_clipping"
    f = extract.get_function(CPA, "CriticalPathAnalysis.critical_path_analysis")
    node = extract.stripped(f)
    fq = [f.fq]
    first = last = None
    for i, stt in enumerate(node.body):
        src = ast.unparse(stt)
        if first is None and src.startswith("cpu_kernels = trace_df["):
            first = i
        if src.startswith("clipped_df = "):
            last = i
    if first is None or last is None:
        raise pyvc.Unsupported("clipping statements not found")
    ex = pyvc.Exec(consts=extract.module_constants(CPA), name=name)
    fv.install(ex)
    fv.install_symtab(ex)
    st = fv.SymTab("st")
    cols = {c: (I, False, "int") for c in ("index", "ts", "dur", "stream", "name", "correlation", "index_correlation")}
    df = fv.SymDF.base("trace", cols)
    idx = df.cols["index"].val
    df.label = lambda r: idx(r)
    before = dict(df.cols)
    w0, w1 = z3.Ints("start_ts end_ts")
    env: Dict[str, Any] = {"trace_df": df, "start_ts": w0, "end_ts": w1, "sym_index": fv.SymIndexDict(st)}
    pc: List[Any] = []
    for stt in node.body[first:last + 1]:
        outs = ex.exec_stmt(stt, pc, env)
        if len(outs) != 1 or outs[0].kind != "fall":
            raise pyvc.Unsupported("clipping statements fork")
        pc, env = outs[0].pc, outs[0].env
    clipped = env["clipped_df"]
    if not isinstance(clipped, fv.SymDF) or clipped.uni is not df.uni:
        raise pyvc.Unsupported("clipped_df is not a sub-frame of the trace")
    r, p, a, b = (df.uni.skolem(x) for x in "rpab")
    pres = df.present
    ts, dur, stream, ic, nm = (before[c].val for c in ("ts", "dur", "stream", "index_correlation", "name"))
    _ = to_z3(clipped.present(r))
    SWE = z3.If(st.has(z3.StringVal("Stream Wait Event")), st.idof(z3.StringVal("Stream Wait Event")), -200)
    wf = [z3.ForAll(list(a) + list(b), z3.Implies(z3.And(to_z3(pres(a)), to_z3(pres(b)), idx(a) == idx(b)), a[0] == b[0]), patterns=[z3.MultiPattern(idx(a), idx(b))]),
          z3.ForAll(list(a), z3.Implies(to_z3(pres(a)), z3.And(idx(a) >= 0, nm(a) >= 0, z3.Implies(stream(a) != -1, idx(a) > 0))), patterns=[idx(a)]),
          # a device activity is linked from at most one host call (WF2 / C02); event 0 is a host operator (WF4)
          z3.ForAll(list(a) + list(b), z3.Implies(z3.And(to_z3(pres(a)), to_z3(pres(b)), stream(a) == -1, stream(b) == -1, ic(a) == ic(b), ic(a) > 0), a[0] == b[0]),
                    patterns=[z3.MultiPattern(ic(a), ic(b))])]
    hyps = list(ex.facts) + wf + st.axioms() + [to_z3(c) for c in pc]
    host_kept = lambda rr: z3.And(to_z3(pres(rr)), stream(rr) == -1, ts(rr) >= w0, ts(rr) <= w1, dur(rr) > 0)
    mv = {"row": r[0], "launch_row": p[0], "ts": ts(r), "dur": dur(r), "stream": stream(r), "start_ts": w0, "end_ts": w1}
    vcs = [core.VC(pv.name, pv.hyps + list(ex.facts) + wf, pv.goal, "vc", fq, {}, note=pv.note) for pv in ex.vcs]
    vcs += [
        core.VC(f"{name}.host_events_kept", hyps + [to_z3(pres(r)), stream(r) == -1], to_z3(clipped.present(r)) == host_kept(r), "vc", fq, mv,
                note="host events: positive duration and start inside the window [start_ts, end_ts]"),
        core.VC(f"{name}.device_events_with_kept_launch_are_kept", hyps + [to_z3(pres(r)), stream(r) != -1, host_kept(p), ic(p) == idx(r)], to_z3(clipped.present(r)), "vc", fq, mv,
                note="a device activity whose launch call is kept is kept"),
        core.VC(f"{name}.device_events_without_kept_launch_are_dropped", hyps + [to_z3(pres(r)), stream(r) != -1, nm(r) != SWE,
                                                                                  z3.ForAll(list(p), z3.Not(z3.And(host_kept(p), ic(p) == idx(r))))],
                z3.Not(to_z3(clipped.present(r))), "vc", fq, mv, note="no kept launch call (outside the window, or of zero duration): the activity is dropped too (stream-wait records excepted)"),
        core.VC(f"{name}.trace_not_modified", [], z3.BoolVal(not df.written and df.inplace_row_changes == 0 and clipped is not df), "vc", fq, {}),
        core.VC(f"{name}.guard.hyps_satisfiable", hyps + [to_z3(pres(r)), stream(r) != -1, host_kept(p), ic(p) == idx(r)], z3.BoolVal(True), "vacuity", fq),
    ]
    return vcs


# ---------------------------------------------------------------------------------------------- bounded


def check_graph(seed: int, evs, ta, g, success, inst, zero_w: bool, fails: List[Dict[str, Any]], inp) -> int:
    import networkx as nx

    def bad(what, obs, exp=None):
        fails.append({"what": what, "input": inp, "observed": obs, "expected": exp})

    if not success:
        bad("analysis_succeeds", "critical_path() returned False")
        return 1
    df = ta.t.get_trace(0)
    stab = ta.t.symbol_table.get_sym_table()
    ev = {int(i): dict(ts=int(ts), dur=int(du), stream=int(s), ic=int(ic), name=stab[int(nm)], cat=stab[int(c)], tid=int(tid), pid=int(pid))
          for i, ts, du, s, ic, nm, c, tid, pid in zip(df["index"], df["ts"], df["dur"], df["stream"], df["index_correlation"], df["name"], df["cat"], df["tid"], df["pid"])}
    facts = cc.graph_facts(g)
    nodes, edges = facts["nodes"], facts["edges"]
    if not nx.is_directed_acyclic_graph(g):
        bad("acyclic", "graph has a cycle")
    # one start and one end node per analysed (clipped) event
    clipped = g.trace_df
    analysed = {int(i) for i, c, s, ic in zip(clipped["index"], clipped["cat"], clipped["stream"], clipped["index_correlation"])
                if stab[int(c)] in ("cpu_op", "cuda_runtime", "cuda_driver") or (int(s) != -1 and int(ic) >= 0)}
    per_ev: Dict[int, List[Any]] = {}
    for n in nodes.values():
        per_ev.setdefault(n["ev"], []).append(n)
    if set(per_ev) != analysed:
        bad("nodes_for_exactly_the_analysed_events", {"extra": sorted(set(per_ev) - analysed)[:5], "missing": sorted(analysed - set(per_ev))[:5]})
    for e_id, ns in per_ev.items():
        st = [n for n in ns if n["is_start"]]
        en = [n for n in ns if not n["is_start"]]
        if len(st) != 1 or len(en) != 1 or st[0]["ts"] != ev[e_id]["ts"] or en[0]["ts"] != ev[e_id]["ts"] + ev[e_id]["dur"]:
            bad("one_start_one_end_node_with_event_times", {"event": e_id, "nodes": ns}, {"ts": ev[e_id]["ts"], "end": ev[e_id]["ts"] + ev[e_id]["dur"]})
            break
    order_on_stream: Dict[int, List[int]] = {}
    for i, rw in sorted(ev.items(), key=lambda kv: (kv[1]["ts"], kv[0])):
        if rw["stream"] > 0 and rw["cat"] != "cuda_sync" and i in analysed:
            order_on_stream.setdefault(rw["stream"], []).append(i)
    for e in edges:
        s, d = nodes[e["u"]], nodes[e["v"]]
        if d["ts"] < s["ts"]:
            bad("edge_points_forward_in_time", {"edge": e, "src": s, "dest": d})
            break
        if e["w"] < 0 or e["w_attr"] < 0:
            bad("weight_nonnegative", e)
            break
        if e["type"] in ("DEPENDENCY", "SYNC_DEPENDENCY"):
            if e["w"] != 0:
                bad("dependency_and_sync_edges_weigh_zero", e)
                break
        elif e["type"] == "KERNEL_LAUNCH_DELAY":
            if e["w"] not in ((d["ts"] - s["ts"]), 0) or (e["w"] == 0 and d["ts"] != s["ts"] and not zero_w):
                bad("launch_delay_weight", {"edge": e, "src": s, "dest": d})
                break
            if not (s["is_start"] and d["is_start"] and ev[d["ev"]]["stream"] > 0 and ev[d["ev"]]["ic"] == s["ev"]):
                bad("launch_delay_joins_launch_call_to_its_kernel", {"edge": e, "src": s, "dest": d, "kernel_link": ev[d["ev"]]["ic"]})
                break
        elif e["type"] == "KERNEL_KERNEL_DELAY":
            sa, sb = ev[s["ev"]]["stream"], ev[d["ev"]]["stream"]
            seq = order_on_stream.get(sb, [])
            consecutive = d["ev"] in seq and seq.index(d["ev"]) > 0 and seq[seq.index(d["ev"]) - 1] == s["ev"]
            if not (sa == sb and sa > 0 and not s["is_start"] and d["is_start"] and e["w"] == d["ts"] - s["ts"] and consecutive):
                bad("kernel_kernel_delay_joins_consecutive_kernels_of_one_stream", {"edge": e, "src": s, "dest": d, "streams": (sa, sb), "stream_order": seq})
                break
        elif e["type"] == "OPERATOR_KERNEL":
            blocking_exit = (not d["is_start"]) and any(n["blocking"] for n in per_ev.get(d["ev"], []))
            if e["w"] != d["ts"] - s["ts"] and not (blocking_exit and e["w"] == 0):
                bad("span_edge_weight_is_time_difference", {"edge": e, "src": s, "dest": d})
                break
        if e["type"] == "SYNC_DEPENDENCY":
            src_is_kernel_end = ev[s["ev"]]["stream"] > 0 and not s["is_start"]
            dest_ok = (ev[d["ev"]]["stream"] == -1 and not d["is_start"]) or (ev[d["ev"]]["stream"] > 0 and d["is_start"])
            if not (src_is_kernel_end and dest_ok):
                bad("sync_edge_from_kernel_end_to_waiting_call_end_or_kernel_start", {"edge": e, "src": s, "dest": d})
                break
    return 1


def _sync_tie_events(kernel_first_in_file: bool) -> List[Dict[str, Any]]:
    """a stream synchronisation that returns at the very instant the next launch on that stream begins and its kernel starts
    (back-to-back calls at microsecond resolution); the kernel record sits before / after the sync record in the file"""
    from hv import synth

    b = 1_000_000
    evs = [synth.host_op("aten::first_op", b, 5), synth.profiler_step(1, b + 5, 95),
           synth.host_op("aten::add", b + 10, 20), synth.launch(b + 12, 8, 1), synth.kernel("void gemm_kernel", b + 20, 20, 7, 1),
           synth.launch(b + 45, 5, 2, name="cudaStreamSynchronize")]
    sync_rec = {"ph": "X", "cat": "cuda_sync", "name": "Stream Sync", "pid": 0, "tid": 7, "ts": b + 45, "dur": 5, "args": {"correlation": 2, "stream": 7}}
    k2 = synth.kernel("void elementwise_kernel", b + 50, 10, 7, 3)
    evs += ([k2, sync_rec] if kernel_first_in_file else [sync_rec, k2])
    evs += [synth.host_op("aten::linear", b + 50, 20), synth.launch(b + 50, 10, 3), synth.profiler_step(2, b + 100, 20), synth.host_op("aten::relu", b + 102, 10)]
    return evs


def _case(arg) -> Dict[str, Any]:
    seed, zero_w = arg[:2]
    from hv import cpgen, rt

    evs = cpgen.gen_cp_events(seed, n_steps=3, n_streams=1 + seed % 3, annotations=bool(seed % 2), n_threads=2 if seed % 3 == 0 else 1)
    inst = 0 if seed % 3 == 0 else ((0, 1) if seed % 3 == 1 else 1)
    if len(arg) > 2:
        evs, inst = _sync_tie_events(arg[2]), 0
    fails: List[Dict[str, Any]] = []
    files = {0: evs}
    if (seed // 4) % 3 == 1 and len(arg) <= 2:
        # a second rank of the job sits in the same directory (another file, numbered differently, other threads): the graph of rank 0 is built from rank 0's events only
        files[1] = cpgen.gen_cp_events(seed + 13, n_steps=2, n_streams=2, annotations=True, n_threads=2)
    inp = {"seed": seed, "instance_id": inst, "zero_weight_launch_edges": zero_w, "events": files}
    n = 0
    old = os.environ.get("CRITICAL_PATH_ADD_ZERO_WEIGHT_LAUNCH_EDGE")
    try:
        if zero_w:
            os.environ["CRITICAL_PATH_ADD_ZERO_WEIGHT_LAUNCH_EDGE"] = "1"
        else:
            os.environ.pop("CRITICAL_PATH_ADD_ZERO_WEIGHT_LAUNCH_EDGE", None)
        with rt.trace_dir(files) as d:
            try:
                ta = rt.lib(fails, "load", inp, rt.load_analysis, d)
                df0 = ta.t.get_trace(0)
                stab0 = ta.t.symbol_table.get_sym_table()
                w0, w1 = cc.window_of(df0, stab0, "ProfilerStep", inst)
                inside = [i for i, ts, du, c in zip(df0["index"], df0["ts"], df0["dur"], df0["cat"]) if stab0[int(c)] in ("cpu_op", "cuda_runtime") and du > 0 and w0 <= ts <= w1]
                if len(inside) < 1:
                    return {"n_checks": 0, "fails": [], "nontrivial": False, "sample": {"seed": seed, "skipped": "empty window"}}
                blocking = {"cudaDeviceSynchronize", "cudaStreamSynchronize", "cudaEventQuery", "cudaEventSynchronize", "cudaMemcpy", "cudaMemcpyAsync"}
                names_in = {stab0[int(nm)] for i, nm in zip(df0["index"], df0["name"]) if i in set(inside)}
                # device ACTIVITIES launched from inside the window (synchronisation records are not work and carry no weight)
                dev_in = [i for i, ts, s, ic, c in zip(df0["index"], df0["ts"], df0["stream"], df0["index_correlation"], df0["cat"])
                          if s > 0 and ic in set(inside) and stab0[int(c)] != "cuda_sync"]
                if names_in <= blocking and not dev_in:
                    # recorded finding C08-D16: all-zero-weight window
                    try:
                        ta.critical_path_analysis(rank=0, annotation="ProfilerStep", instance_id=inst)
                    except AssertionError:
                        kf = [f for f in _FINDINGS if f.get("id") == "C08-D16-zero-weight-window" and f.get("status") == "known"]
                        if kf:
                            return {"n_checks": 1, "fails": [{"what": "zero_weight_window", "known": kf[0]}], "nontrivial": True}
                        fails.append({"what": "zero_weight_window", "input": inp, "observed": "AssertionError in critical_path()", "expected": "analysis succeeds"})
                    return {"n_checks": 1, "fails": fails, "nontrivial": True}
                if seed % 4 == 2 and len(arg) <= 2:
                    # a call history on ONE analysis object: another window is analysed first; the request checked below must not depend on it
                    prior = 1 if inst == 0 else 0
                    inp["analysed_before_on_the_same_object"] = prior
                    try:
                        rt.lib(fails, "critical_path_analysis(prior request)", inp, ta.critical_path_analysis, rank=0, annotation="ProfilerStep", instance_id=prior, _allow=(AssertionError,))
                    except AssertionError:
                        pass  # the prior window may be of the known class D16; irrelevant for the request under test
                def set_opt(v):
                    if v:
                        os.environ["CRITICAL_PATH_ADD_ZERO_WEIGHT_LAUNCH_EDGE"] = "1"
                    else:
                        os.environ.pop("CRITICAL_PATH_ADD_ZERO_WEIGHT_LAUNCH_EDGE", None)

                g, success = rt.lib(fails, "critical_path_analysis", inp, ta.critical_path_analysis, rank=0, annotation="ProfilerStep", instance_id=inst)
                n = check_graph(seed, evs, ta, g, success, inst, zero_w, fails, inp)
                if (seed // 2) % 2 == 1 and len(arg) <= 2 and not fails:
                    # the option is changed between analyses of one session (on -> off -> on or off -> on -> off): every graph is built under the value in force
                    for v in (not zero_w, zero_w):
                        set_opt(v)
                        inp2 = {**inp, "zero_weight_launch_edges": v, "option_changed_since_the_previous_analysis_of_the_session": True}
                        g2, ok2 = rt.lib(fails, "critical_path_analysis", inp2, ta.critical_path_analysis, rank=0, annotation="ProfilerStep", instance_id=inst)
                        n += check_graph(seed, evs, ta, g2, ok2, inst, v, fails, inp2)
                        if fails:
                            break
            except rt.LibFailure:
                n = 1
    finally:
        if old is None:
            os.environ.pop("CRITICAL_PATH_ADD_ZERO_WEIGHT_LAUNCH_EDGE", None)
        else:
            os.environ["CRITICAL_PATH_ADD_ZERO_WEIGHT_LAUNCH_EDGE"] = old
    return {"n_checks": n, "fails": fails, "nontrivial": True, "sample": {"seed": seed, "instance": str(inst), "zero_weight_launch_edges": zero_w}}


_FINDINGS: List[Dict[str, Any]] = []


def bounded(ctx):
    from hv import rt

    _FINDINGS[:] = ctx.findings
    n = 48 if not ctx.thorough else 600
    ties = [(ctx.seed * 101 + 9000 + i, bool(i % 2), bool(i // 2)) for i in range(4)]  # synchronisation returning exactly when the next activity of its stream starts
    res = rt.pmap(_case, [(ctx.seed * 101 + i, bool(i % 4 == 3)) for i in range(n)] + ties, ctx.procs)
    return rt.summarise(res, f"{PROP}.bounded", f"{n} generated causally consistent traces (1-3 streams, nested operators, blocking memcpy launches, stream and context synchronisation with "
                        "cuda_sync records, user annotations) x instance selections (single step, range) x with/without zero-weight launch edges")


def call_stack_order_vcs() -> List[core.VC]:
    """The graph construction walks the call stack of hta/common/call_stack.py; "forward in time" rests on that stack being the
    nesting tree, i.e. on the order obligations of its comparator and on its loop / endpoint construction (the contracts of C03,
    re-generated here from the current source so that a change to that builder is seen by this property's check as well).
    Transitivity is left to C03: it fails only in the recorded class C03-D4, which C08's inputs exclude."""
    from contracts import C03

    out: List[core.VC] = []
    for v in (C03.comparator_vcs("compare_events", C03._less_old_factory, False) + C03.loop_body_vcs_old() + C03.array_vcs_old()):
        if v.name.endswith(".trans"):
            continue
        v.name = v.name.replace("C03.", f"{PROP}.call_stack_order.", 1)
        out.append(v)
    return out


def units(ctx):
    return [core.Unit(f"{PROP}.call_stack_order", call_stack_order_vcs, ["hta.common.call_stack.compare_events", "hta.common.call_stack.CallStackGraph._construct_call_stack_graph"]),
            core.Unit(f"{PROP}.add_edge_helper", add_edge_helper_vcs, [CPA + ".CPGraph._add_edge_helper"]),
            core.Unit(f"{PROP}.create_event_nodes", create_nodes_vcs, [CPA + ".CPGraph._create_event_nodes"]),
            core.Unit(f"{PROP}.call_stack_callbacks", dfs_callbacks_vcs, [CPA + ".CPGraph._construct_graph_from_call_stack"]),
            core.Unit(f"{PROP}.kernel_sites", kernel_sites_vcs, [CPA + ".CPGraph._construct_graph_from_kernels"]),
            core.Unit(f"{PROP}.window_clipping", clip_vcs, [CPA + ".CriticalPathAnalysis.critical_path_analysis"])]


SPEC = Spec(
    prop=PROP, level="other",
    functions=[(CPA, "CPGraph._add_edge_helper"), (CPA, "CPGraph._create_event_nodes"), (CPA, "CPGraph._construct_graph_from_call_stack"), (CPA, "CPGraph._construct_graph_from_kernels"),
               (CPA, "CPGraph._add_gpu_cpu_sync_edge"), (CPA, "CPGraph._add_kernel_launch_delay_edge"), (CPA, "CPGraph._validate_graph"), (CPA, "CriticalPathAnalysis.critical_path_analysis")],
    units=units, bounded=[Bounded("graph_vs_trace", bounded), Bounded("history_independence", history.stage(PROP, "critical_path", "cp"))],
    trusted=["the Euler-tour lemma (DFS visit order of a call stack that satisfies C03 yields non-decreasing endpoint times) links the per-visit edges to 'forward in time'",
             "nx.is_directed_acyclic_graph decides acyclicity; acyclicity among nodes with equal timestamps is bounded only",
             "event-record / stream-wait matching helpers are outside the deductive part (and inert under pandas 3: chained fillna(inplace=True))"],
    explanation="Proved (z3 from the AST): the weight rule and endpoints of every edge, the node table (two nodes per analysed event with its times), per-visit edges and state of the "
                "call-stack callbacks. By statement correspondence: which nodes each typed edge of the kernel part joins. Bounded (real analysis on generated causally consistent "
                "traces, never counted as proved): success, acyclicity, forward-in-time and typing of every edge of the real graph, window clipping.",
)
