"""C15 — launch statistics list every launch/activity pair with exact durations and delay.

Deductive: cuda_kernel_launch_stats (loop body for a requested rank) executed relationally from the AST; for a skolem pair
(host row h, device row d): the pair is listed  <=>  h is a launch call of the selected kinds, d is a device activity, both
carry the same correlation id; cpu_duration / gpu_duration / launch_delay = dur(h) / dur(d) / max(0, ts(d) - ts(h) - dur(h));
memory launches only when requested; default ranks = [0]; wrapper in TraceAnalysis forwards its arguments.
Bounded: public getter on generated traces vs. pairing by correlation id from the JSON.
"""
from __future__ import annotations

import ast
from typing import Any, Dict, List

import z3

from hv import core, extract, framevc as fv, pyvc
from hv import history
from hv.driver import Bounded, Spec
from hv.pyvc import to_z3

CK = "hta.analyzers.cuda_kernel_analysis"
TA = "hta.trace_analysis"
PROP = "C15"
LAUNCH = ["cudaLaunchKernel", "cudaLaunchKernelExC", "runFunction - job_prep_and_submit_for_execution"]
MEM = ["cudaMemsetAsync", "cudaMemcpyAsync"]


def stats_vcs() -> List[core.VC]:
    f = extract.get_function(CK, "CudaKernelAnalysis.cuda_kernel_launch_stats")
    fq = [f.fq]
    vcs: List[core.VC] = []
    for with_mem in (True, False):
        name = f"{PROP}.launch_stats.memory_{with_mem}"
        ex = pyvc.Exec(consts={**extract.module_constants("hta.common.trace_filter"), **extract.module_constants(CK)}, name=name)
        fv.install(ex)
        fv.install_symtab(ex)
        st = fv.SymTab("st")
        cols = {"index": (z3.IntSort(), False, "int"), "ts": (z3.IntSort(), False, "int"), "dur": (z3.IntSort(), False, "int"), "stream": (z3.IntSort(), False, "int"),
                "name": (z3.IntSort(), False, "int"), "correlation": (z3.IntSort(), False, "int")}
        df = fv.SymDF.base("ev", cols)
        before = dict(df.cols)
        ex.methods["Record.get_trace"] = lambda exq, pc, env, obj, args, kwargs: df
        t = pyvc.Record("Trace", {"symbol_table": st})
        outs = ex.run_function(extract.stripped(f), {"cls": pyvc.Record("CudaKernelAnalysis", {}), "t": t, "ranks": None, "runtime_cutoff": 50, "launch_delay_cutoff": 100,
                                                     "include_memory_events": with_mem, "visualize": False}, [])
        rets = [o for o in outs if o.kind == "ret"]
        if len(rets) != 1 or not isinstance(rets[0].value, dict) or list(rets[0].value) != [0]:
            raise pyvc.Unsupported("expected a result dict with exactly the default rank 0")
        out: fv.SymDF = rets[0].value[0]
        if not isinstance(out, fv.SymDF) or out.uni.arity != 2:
            raise pyvc.Unsupported("result frame is not a two-sided merge")
        pres = df.present
        nm, corr, stream, ts, dur = (before[c].val for c in ("name", "correlation", "stream", "ts", "dur"))
        kinds = LAUNCH + (MEM if with_mem else [])
        is_launch = lambda r: z3.Or(*[z3.And(st.has(z3.StringVal(k)), nm(r) == st.idof(z3.StringVal(k))) for k in kinds])
        a, b = df.uni.skolem("a"), df.uni.skolem("b")
        # WF: launch calls are host events carrying a correlation id; a correlation id occurs at most once on the host side
        wf = [z3.ForAll(list(a), z3.Implies(z3.And(to_z3(pres(a)), is_launch(a)), z3.And(stream(a) == -1, corr(a) >= 0))),
              z3.ForAll(list(a) + list(b), z3.Implies(z3.And(to_z3(pres(a)), to_z3(pres(b)), stream(a) == -1, stream(b) == -1, corr(a) == corr(b), corr(a) >= 0), a[0] == b[0]))]
        m = out.uni.skolem("m")
        h, d = (m[0],), (m[1],)
        _ = to_z3(out.present(m))
        hyps = list(ex.facts) + wf + st.axioms() + [to_z3(c) for c in rets[0].pc]
        spec = z3.And(to_z3(pres(h)), to_z3(pres(d)), is_launch(h), stream(d) != -1, corr(h) == corr(d))
        mv = {"host_row": m[0], "device_row": m[1], "corr_h": corr(h), "corr_d": corr(d), "stream_h": stream(h), "stream_d": stream(d)}
        for pv in ex.vcs:
            vcs.append(core.VC(pv.name, pv.hyps + list(ex.facts) + wf, pv.goal, "vc", fq, {}, note=pv.note))
        vcs += [
            core.VC(f"{name}.pairs_sound", hyps + [to_z3(out.present(m))], spec, "vc", fq, mv, note="every listed row is a (launch call, device activity) pair with one correlation id"),
            core.VC(f"{name}.pairs_complete", hyps + [spec], to_z3(out.present(m)), "vc", fq, mv, note="every linked pair is listed"),
            core.VC(f"{name}.columns", [], z3.BoolVal(list(out.cols) == ["correlation", "cpu_duration", "gpu_duration", "launch_delay"]), "vc", fq, {}, note=f"columns {list(out.cols)}"),
        ]
        if list(out.cols) == ["correlation", "cpu_duration", "gpu_duration", "launch_delay"]:
            raw = ts(d) - ts(h) - dur(h)
            vcs.append(core.VC(f"{name}.values", hyps + [to_z3(out.present(m))],
                               z3.And(to_z3(out.cols["correlation"].val(m)) == corr(h), to_z3(out.cols["cpu_duration"].val(m)) == dur(h), to_z3(out.cols["gpu_duration"].val(m)) == dur(d),
                                      to_z3(out.cols["launch_delay"].val(m)) == z3.If(raw > 0, raw, 0)), "vc", fq, mv,
                               note="cpu_duration, gpu_duration = the two durations; launch_delay = activity start - launch end, floored at 0"))
        vcs.append(core.VC(f"{name}.trace_not_modified", [], z3.BoolVal(not df.written and df.inplace_row_changes == 0), "vc", fq, {}))
        vcs.append(core.VC(f"{name}.guard.hyps_satisfiable", hyps + [spec], z3.BoolVal(True), "vacuity", fq))
    return vcs


def wrapper_vcs() -> List[core.VC]:
    g = extract.get_function(TA, "TraceAnalysis.get_cuda_kernel_launch_stats")
    ex = pyvc.Exec(name=f"{PROP}.wrapper")
    got: Dict[str, Any] = {}

    def stats(exq, pc, env, obj, args, kwargs):
        got["args"], got["kwargs"] = list(args), dict(kwargs)
        return "RESULT"

    ex.methods["Namespace.cuda_kernel_launch_stats"] = stats

    class _Cls:
        def hv_call_method(self, exq, attr, args, kwargs, pc, env):
            if attr == "cuda_kernel_launch_stats":
                return stats(exq, pc, env, self, args, kwargs)
            return NotImplemented

    ex.consts["CudaKernelAnalysis"] = _Cls()
    tr, ranks, rc, ldc, ime, vis = object(), z3.Int("ranks"), z3.Int("runtime_cutoff"), z3.Int("launch_delay_cutoff"), z3.Bool("include_memory_events"), z3.Bool("visualize")
    selfrec = pyvc.Record("TraceAnalysis", {"t": "TRACE"})
    outs = ex.run_function(extract.stripped(g), {"self": selfrec, "ranks": ranks, "runtime_cutoff": rc, "launch_delay_cutoff": ldc, "include_memory_events": ime, "visualize": vis}, [])
    ok = False
    if got:
        params = ["t", "ranks", "runtime_cutoff", "launch_delay_cutoff", "include_memory_events", "visualize"]
        bound = dict(zip(params, got["args"]))
        bound.update(got["kwargs"])
        ok = bound.get("t") == "TRACE" and bound.get("ranks") is ranks and bound.get("runtime_cutoff") is rc and bound.get("launch_delay_cutoff") is ldc \
            and bound.get("include_memory_events") is ime and bound.get("visualize") is vis
    return [core.VC(f"{PROP}.wrapper.forwards_all_arguments", [], z3.BoolVal(ok and all(o.kind == "ret" and o.value == "RESULT" for o in outs)), "vc", [g.fq], {},
                    note="TraceAnalysis.get_cuda_kernel_launch_stats passes ranks, cut-offs, include_memory_events and visualize through and returns the analyzer's result")]


# ---------------------------------------------------------------------------------------------- bounded


def _case(arg) -> Dict[str, Any]:
    seed, with_mem = arg
    from hv import gen, rt

    kw = dict(n_threads=1 + seed % 2, n_streams=1 + seed % 3, steps=seed % 3, p_missing_kernel=0.15, p_orphan_kernel=0.1, p_memcpy=0.3, p_sync=0.1, p_same_ts_kernel=0.3)
    nr = 1 + seed % 2
    if seed % 4 == 1:
        # correlation ids are per-process counters: the same ids occur in every rank; some linked host calls are not launch calls of the selected kinds
        kw.update(distinct_corr_per_rank=False, p_other_launch=0.4)
    if seed % 4 == 2:
        kw["p_frac_kernel_dur"] = 0.6  # device activities lasting a fractional number of microseconds (whole-number timestamps, so the loader does not round the file)
    per_rank = gen.gen_trace_set(seed, n_ranks=nr, **kw)
    if seed % 4 == 2:
        for evs in per_rank.values():  # ... and launch calls lasting 2.5 / 0.75 us
            for e in evs:
                if e.get("cat") == "cuda_runtime" and isinstance(e.get("dur"), int) and e["dur"] >= 5 and (e["ts"] // 5) % 2 == 0:
                    e["dur"] = e["dur"] - 2.5
    if seed % 6 == 2:
        per_rank = gen.wide_narrow_set(seed, **kw)  # rank 1's launch names (cudaLaunchKernelExC, cudaMemcpyAsync) get trace-wide symbol ids beyond 127
        nr = 2
    if seed % 16 == 7:
        # nine ranks loaded through the default entry point (worker pool + memory probe): every rank's statistics are that rank's
        per_rank = {}
        for r_ in range(9):
            per_rank[r_] = gen.gen_trace_set(seed + 100 * r_, n_ranks=1, n_threads=1, n_streams=1 + r_ % 2, steps=1, n_top=1 + r_ % 3, p_memcpy=0.3, p_missing_kernel=0.1)[0]
        nr = 9
    if seed % 3 == 0:  # memset launches too
        for evs in per_rank.values():
            for e in evs:
                if e.get("name") == "cudaMemcpyAsync" and (e["ts"] // 5) % 2:
                    e["name"] = "cudaMemsetAsync"
    fails: List[Dict[str, Any]] = []
    n = 0
    req = list(range(nr)) if nr == 9 else [[0], None, list(range(nr))][seed % 3]
    inp = {"seed": seed, "include_memory_events": with_mem, "ranks": req, "events": per_rank}
    with rt.trace_dir(per_rank) as d:
        try:
            ta = rt.lib(fails, "load", inp, rt.load_analysis, d)
            out = rt.lib(fails, "get_cuda_kernel_launch_stats", inp, ta.get_cuda_kernel_launch_stats, ranks=req, include_memory_events=with_mem, visualize=False)
        except rt.LibFailure:
            return {"n_checks": 1, "fails": fails, "nontrivial": True}
        want_ranks = req if req else [0]
        if sorted(out) != sorted(want_ranks):
            fails.append({"what": "one_frame_per_requested_rank", "input": inp, "observed": sorted(out), "expected": want_ranks})
        kinds = set(LAUNCH) | (set(MEM) if with_mem else set())
        stab = ta.t.symbol_table.get_sym_table()
        for rk in want_ranks:
            if rk not in out:
                continue
            df = ta.t.get_trace(rk)  # loaded (trimmed, shifted) events: the statistics are about these
            # durations are those of the FILE's events (row id = position in the file): a loader that alters them is visible here
            file_dur = {i: e["dur"] for i, e in gen.complete_events(per_rank[rk])}

            def num(x):
                return int(x) if float(x) == int(x) else float(x)  # quarter fractions are exact in binary

            file_name = {i: e["name"] for i, e in gen.complete_events(per_rank[rk])}  # names too are the file's (a mis-decoded launch name must not vanish from the oracle)
            rows = [(int(s), file_name.get(int(i), stab[int(nm)] if 0 <= int(nm) < len(stab) else "?"), int(c), int(ts), num(file_dur.get(int(i), du)))
                    for i, s, nm, c, ts, du in zip(df["index"], df["stream"], df["name"], df["correlation"], df["ts"], df["dur"])]
            exp = []
            for s, nm, c, ts, du in rows:
                if s == -1 and nm in kinds:
                    for s2, nm2, c2, ts2, du2 in rows:
                        if s2 != -1 and c2 == c:
                            exp.append((c, du, du2, max(0, ts2 - ts - du)))
            got = sorted((int(a), num(b), num(c_), num(d_)) for a, b, c_, d_ in zip(out[rk]["correlation"], out[rk]["cpu_duration"], out[rk]["gpu_duration"], out[rk]["launch_delay"]))
            n += 1
            if got != sorted(exp):
                fails.append({"what": "rows_match_pairs", "input": inp, "observed": {"rank": rk, "rows": got[:8], "n": len(got)}, "expected": {"rows": sorted(exp)[:8], "n": len(exp)}})
    return {"n_checks": n, "fails": fails, "nontrivial": n > 0, "sample": {"seed": seed, "with_memory": with_mem, "ranks": req}}


def bounded(ctx):
    from hv import rt

    n = 60 if not ctx.thorough else 700
    res = rt.pmap(_case, [(ctx.seed * 613 + i, bool(i % 2)) for i in range(n)], ctx.procs)
    return rt.summarise(res, f"{PROP}.bounded", f"{n} generated traces (kernel / memcpy / memset launches, missing and orphan activities, ties) through get_cuda_kernel_launch_stats "
                        "with and without memory events, ranks = [0] / None / all; additionally 4 hash seeds decide which launch name gets symbol id 0")


def units(ctx):
    return [core.Unit(f"{PROP}.launch_stats", stats_vcs, [CK + ".CudaKernelAnalysis.cuda_kernel_launch_stats"]),
            core.Unit(f"{PROP}.wrapper", wrapper_vcs, [TA + ".TraceAnalysis.get_cuda_kernel_launch_stats"])]


SPEC = Spec(
    prop=PROP, level="proof",
    functions=[(CK, "CudaKernelAnalysis.cuda_kernel_launch_stats"), (TA, "TraceAnalysis.get_cuda_kernel_launch_stats")],
    units=units, bounded=[Bounded("stats_vs_pairs", bounded), Bounded("history_independence", history.stage(PROP, "launch_stats", "gen"))],
    trusted=["pandas contracts (selection, isin over a series' values, inner merge on one key with _x/_y suffixes, clip, rename, projection)",
             "well-formedness: launch calls are host events (stream -1) carrying a correlation id; a correlation id occurs at most once among host events",
             "symbol table bijection (C11); dict.get(key, None) modelled as an optional id that equals no name when absent"],
)
