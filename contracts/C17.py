"""C17 — trace diff counts and durations are exact; change classes partition the names.

Deductive (z3 from the AST):
  * TraceDiff.ops_diff: the five masks over (control count c, test count t, diff = t - c) are pairwise disjoint and together
    exhaustive for every name of the comparison table (c, t >= 0, c + t > 0); a table with zero differences yields only `unchanged`;
  * TraceDiff.compare_traces: on per-name summaries (keyed tables): one row per name of either side, missing side = 0, diff =
    test - control for counts and durations, sign category; the two column prefixes are distinct even for equal labels / one
    LabeledTrace object passed twice; each side uses ITS OWN rank / iteration selection; comparing a summary with itself gives zeros;
  * LabeledTrace.extract_ops (single-rank path, all three device filters): rows of the selected iterations on the selected side.
Bounded: public API on pairs of generated traces vs. counts recomputed from the loaded frames.
"""
from __future__ import annotations

import ast
from typing import Any, Dict, List

import z3

from hv import core, extract, framevc as fv, pyvc
from hv.driver import Bounded, Spec
from hv.pyvc import to_z3, z_and, z_or

TD = "hta.trace_diff"
PROP = "C17"


class _LabelList:
    def __init__(self, df):
        self.df = df


def _patch_index_tolist():
    def hv_call_method(self, ex, attr, args, kwargs, pc, env):
        if attr == "tolist":
            return _LabelList(self.owner)
        return NotImplemented

    fv.IndexOf.hv_call_method = hv_call_method


def ops_diff_vcs() -> List[core.VC]:
    _patch_index_tolist()
    name = f"{PROP}.ops_diff"
    f = extract.get_function(TD, "TraceDiff.ops_diff")
    fq = [f.fq]
    ex = pyvc.Exec(consts=extract.module_constants(TD), name=name)
    fv.install(ex)
    cols = {"C_counts": (z3.IntSort(), False, "float"), "T_counts": (z3.IntSort(), False, "float"), "diff_counts": (z3.IntSort(), False, "float"),
            "diff_duration": (z3.IntSort(), False, "float")}
    df = fv.SymDF.base("cmp", cols)
    calls: List[Any] = []

    def compare_traces(exq, pc, env, obj, args, kwargs):
        calls.append(list(args))
        return df

    def labels(exq, pc, env, obj, args, kwargs):
        return ("C", "T")

    ex.methods["Record.compare_traces"] = compare_traces
    ex.methods["Record._get_distinct_labels"] = labels

    @pyvc.intrinsic
    def adapter(exq, pc, env, args, kwargs):
        return pyvc.Record("LabeledTrace", {"label": "C" if args[1] == "Control" else "T", "which": args[1]})

    ex.intrinsics["_trace_argument_adapter"] = adapter
    ex.consts["DeviceType"] = pyvc.EnumCls("DeviceType", extract.enum_members(TD, "DeviceType"))
    cr, tr, ci, ti = z3.Ints("control_rank test_rank control_iteration test_iteration")
    outs = ex.run_function(extract.stripped(f), {"cls": pyvc.Record("TraceDiff", {}), "control": "c_arg", "test": "t_arg", "control_rank": cr, "test_rank": tr,
                                                 "control_iteration": ci, "test_iteration": ti}, [])
    rets = [o for o in outs if o.kind == "ret"]
    if len(rets) != 1 or not isinstance(rets[0].value, dict):
        raise pyvc.Unsupported("ops_diff does not return a dict literal")
    res = rets[0].value
    vcs: List[core.VC] = []
    keys = ["added", "deleted", "increased", "decreased", "unchanged"]
    vcs.append(core.VC(f"{name}.keys", [], z3.BoolVal(list(res) == keys and all(isinstance(v, _LabelList) and v.df.uni is df.uni for v in res.values())), "vc", fq, {}, note=f"keys {list(res)}"))
    ok_call = len(calls) == 1 and len(calls[0]) >= 6 and calls[0][2] is cr and calls[0][3] is tr and calls[0][4] is ci and calls[0][5] is ti \
        and isinstance(calls[0][0], pyvc.Record) and calls[0][0].fields.get("which") == "Control" and calls[0][1].fields.get("which") == "Test"
    vcs.append(core.VC(f"{name}.forwards_selection_to_compare_traces", [], z3.BoolVal(ok_call), "vc", fq, {}, note="control/test traces, ranks and iterations are passed on unswapped"))
    if list(res) == keys:
        r = df.uni.skolem("r")
        c, t, dcol = df.cols["C_counts"].val(r), df.cols["T_counts"].val(r), df.cols["diff_counts"].val(r)
        inset = {k: to_z3(res[k].df.present(r)) for k in keys}
        pre = [to_z3(df.present(r)), c >= 0, t >= 0, c + t > 0, dcol == t - c]
        mv = {"control_count": c, "test_count": t}
        vcs.append(core.VC(f"{name}.classes_pairwise_disjoint", pre, z3.AtMost(*inset.values(), 1), "vc", fq, mv, note="no name falls into two change classes"))
        vcs.append(core.VC(f"{name}.classes_exhaustive", pre, z3.Or(*inset.values()), "vc", fq, mv, note="every name of the table falls into some class"))
        vcs.append(core.VC(f"{name}.class_meanings", pre, z3.And(inset["added"] == z3.And(c == 0, t > 0), inset["deleted"] == z3.And(c > 0, t == 0),
                                                                 inset["increased"] == z3.And(c > 0, t > c), inset["decreased"] == z3.And(t > 0, t < c),
                                                                 inset["unchanged"] == z3.And(t > 0, t == c)), "vc", fq, mv))
        vcs.append(core.VC(f"{name}.self_comparison_only_unchanged", pre + [c == t], z3.And(inset["unchanged"], z3.Not(z3.Or(*[inset[k] for k in keys[:4]]))), "vc", fq, mv))
        vcs.append(core.VC(f"{name}.guard.canary_false", pre, z3.BoolVal(False), "canary", fq))
    return vcs


class _Summary:
    """`<trace>.get_ops_summary(<trace>.extract_ops(rank, iteration, device))`: a frame; groupby(col)[[counts,total_duration]].sum() gives a keyed table."""

    def __init__(self, side: str, sel):
        self.side, self.sel = side, sel


def compare_vcs() -> List[core.VC]:
    name = f"{PROP}.compare_traces"
    f = extract.get_function(TD, "TraceDiff.compare_traces")
    fq = [f.fq]
    vcs: List[core.VC] = []
    for variant in ("distinct_labels", "same_label_two_objects", "same_object"):
        ex = pyvc.Exec(consts=extract.module_constants(TD), name=f"{name}.{variant}")
        fv.install(ex)
        uni = fv.Universe("names")
        sides: Dict[str, Any] = {}
        sels: Dict[str, Any] = {}

        def mk_side(tag):
            p = z3.Function(f"{tag}_has", z3.IntSort(), z3.BoolSort())
            cn = z3.Function(f"{tag}_counts", z3.IntSort(), z3.IntSort())
            du = z3.Function(f"{tag}_dur", z3.IntSort(), z3.IntSort())
            return fv.SymDF(uni, {"counts": fv.Col(lambda r, _f=cn: _f(r[0]), None, "int"), "total_duration": fv.Col(lambda r, _f=du: _f(r[0]), None, "int")},
                            lambda r, _p=p: _p(r[0]), lambda r: r[0], f"{tag}_summary")

        sides["control"], sides["test"] = mk_side("control"), mk_side("test")

        class _GB:
            def __init__(self, df):
                self.df = df

            def hv_getitem(self, exq, idx, pc):
                if idx != ["counts", "total_duration"]:
                    raise pyvc.Unsupported("groupby column selection")
                return self

            def hv_call_method(self, exq, attr, args, kwargs, pc, env):
                if attr == "sum":
                    return self.df
                return NotImplemented

        class _Sum:
            def __init__(self, side):
                self.side = side

            def hv_call_method(self, exq, attr, args, kwargs, pc, env):
                if attr == "groupby":
                    sels[self.side + "_groupcol"] = args[0]
                    return _GB(sides[self.side])
                return NotImplemented

        def extract_ops(exq, pc, env, obj, args, kwargs):
            return ("ops", obj.fields["side"], list(args))

        def get_ops_summary(exq, pc, env, obj, args, kwargs):
            ops = args[0]
            # with one object on both sides obj is the same record: take the side from the selection that reaches us
            side = "control" if "control" not in sels else "test"
            sels[side] = (obj.fields["side"], ops[1], ops[2])
            return _Sum(side)

        ex.methods["Record.extract_ops"] = extract_ops
        ex.methods["Record.get_ops_summary"] = get_ops_summary
        if variant == "distinct_labels":
            ctl, tst = pyvc.Record("LabeledTrace", {"label": "base", "side": "control"}), pyvc.Record("LabeledTrace", {"label": "new", "side": "test"})
        elif variant == "same_label_two_objects":
            ctl, tst = pyvc.Record("LabeledTrace", {"label": "A", "side": "control"}), pyvc.Record("LabeledTrace", {"label": "A", "side": "test"})
        else:
            ctl = tst = pyvc.Record("LabeledTrace", {"label": "A", "side": "control"})

        @pyvc.intrinsic
        def adapter(exq, pc, env, args, kwargs):
            return args[0]

        ex.intrinsics["_trace_argument_adapter"] = adapter
        # the helper that derives the prefixes is part of the class: run it from the AST
        g = extract.get_function(TD, "TraceDiff._get_distinct_labels")
        ex.methods["Record._get_distinct_labels"] = lambda exq, pc, env, obj, args, kwargs: _run_helper(exq, g, args, pc)

        @pyvc.intrinsic
        def flatten(exq, pc, env, args, kwargs):
            d = args[0]
            d.cols = {("_".join(c) if isinstance(c, tuple) else c): k for c, k in d.cols.items()}
            return None

        ex.intrinsics["flatten_column_names"] = flatten
        _install_concat_axis1(ex)
        ex.consts["DeviceType"] = pyvc.EnumCls("DeviceType", extract.enum_members(TD, "DeviceType"))
        cr, tr, ci, ti = z3.Ints("control_rank test_rank control_iteration test_iteration")
        dt = z3.Int("device_type")
        outs = ex.run_function(extract.stripped(f), {"cls": pyvc.Record("TraceDiff", {}), "control": ctl, "test": tst, "control_rank": cr, "test_rank": tr,
                                                     "control_iteration": ci, "test_iteration": ti, "device_type": dt, "use_short_name": False}, [])
        tag = f"{name}.{variant}"
        for o in outs:
            if o.kind == "raise":
                vcs.append(core.VC(f"{tag}.noraise", [to_z3(c) for c in o.pc], z3.BoolVal(False), "vc", fq, {}, note=f"raises {o.exc}"))
        rets = [o for o in outs if o.kind == "ret"]
        if len(rets) != 1 or not isinstance(rets[0].value, fv.SymDF):
            vcs.append(core.VC(f"{tag}.returns_table", [], z3.BoolVal(False), "vc", fq, {}, note="no single returning path with a table"))
            continue
        comp: fv.SymDF = rets[0].value
        r = uni.skolem("k")
        pc_, pt_ = to_z3(sides["control"].present(r)), to_z3(sides["test"].present(r))
        cc, cd = sides["control"].cols["counts"].val(r), sides["control"].cols["total_duration"].val(r)
        tc, td = sides["test"].cols["counts"].val(r), sides["test"].cols["total_duration"].val(r)
        ccols = [c for c in comp.cols if isinstance(c, str) and c.endswith("_counts") and c != "diff_counts"]
        dcols = [c for c in comp.cols if isinstance(c, str) and c.endswith("_total_duration")]
        shape = len(ccols) == 2 and len(dcols) == 2 and ccols[0] != ccols[1] and {"diff_counts", "diff_duration", "counts_change_categories"} <= set(comp.cols)
        vcs.append(core.VC(f"{tag}.two_distinct_prefixes", [], z3.BoolVal(shape), "vc", fq, {}, note=f"columns {list(comp.cols)}"))
        ok_sel = sels.get("control") == ("control", "control", [cr, ci, dt]) and sels.get("test") == (("test" if variant != "same_object" else "control"), ("test" if variant != "same_object" else "control"), [tr, ti, dt])
        vcs.append(core.VC(f"{tag}.each_side_uses_its_own_selection", [], z3.BoolVal(bool(ok_sel)), "vc", fq, {}, note=f"selections passed to extract_ops: {sels.get('control')}, {sels.get('test')}"))
        if not shape:
            continue
        hyps = list(ex.facts)
        zc = lambda present, v: z3.If(present, v, 0)
        goal_vals = z3.And(
            to_z3(comp.cols[ccols[0]].val(r)) == zc(pc_, cc), to_z3(comp.cols[ccols[1]].val(r)) == zc(pt_, tc),
            to_z3(comp.cols[dcols[0]].val(r)) == zc(pc_, cd), to_z3(comp.cols[dcols[1]].val(r)) == zc(pt_, td),
            to_z3(comp.cols["diff_counts"].val(r)) == zc(pt_, tc) - zc(pc_, cc), to_z3(comp.cols["diff_duration"].val(r)) == zc(pt_, td) - zc(pc_, cd),
            z3.Not(to_z3(comp.cols[ccols[0]].isnull(r))), z3.Not(to_z3(comp.cols["diff_counts"].isnull(r))))
        mv = {"in_control": pc_, "in_test": pt_, "control_count": cc, "test_count": tc}
        vcs += [
            core.VC(f"{tag}.one_row_per_name_of_either_side", hyps, to_z3(comp.present(r)) == z3.Or(pc_, pt_), "vc", fq, mv),
            core.VC(f"{tag}.counts_durations_differences", hyps + [to_z3(comp.present(r))], goal_vals, "vc", fq, mv,
                    note="counts / durations of each side (0 when the name is absent there); differences are test minus control"),
        ]
        cat = comp.cols["counts_change_categories"].val(r)
        dd = zc(pt_, tc) - zc(pc_, cc)
        vcs.append(core.VC(f"{tag}.sign_category", hyps + [to_z3(comp.present(r))],
                           z3.And(z3.Implies(dd > 0, to_z3(cat) == z3.StringVal("+")), z3.Implies(dd < 0, to_z3(cat) == z3.StringVal("-")), z3.Implies(dd == 0, to_z3(cat) == z3.StringVal("="))), "vc", fq, mv))
        vcs.append(core.VC(f"{tag}.identical_sides_give_zero", hyps + [to_z3(comp.present(r)), pc_ == pt_, cc == tc, cd == td],
                           z3.And(to_z3(comp.cols["diff_counts"].val(r)) == 0, to_z3(comp.cols["diff_duration"].val(r)) == 0, to_z3(cat) == z3.StringVal("=")), "vc", fq, mv))
        if variant != "distinct_labels":
            lab_ok = ctl.fields["label"] == "A" and tst.fields["label"] == "A"
            vcs.append(core.VC(f"{tag}.labels_not_rewritten", [], z3.BoolVal(lab_ok), "vc", fq, {}, note="the caller's LabeledTrace objects keep their labels"))
    return vcs


def _run_helper(ex, g, args, pc):
    node = extract.stripped(g)
    names = [p.arg for p in node.args.args]
    outs = ex.run_function(node, dict(zip(names, args)), pc)
    rets = [o for o in outs if o.kind == "ret"]
    if len(rets) != 1:
        raise pyvc.Unsupported("label helper forks on concrete labels")
    return rets[0].value


def _install_concat_axis1(ex):
    pdn = ex.consts["pd"]
    base = pdn.members["concat"]

    @pyvc.intrinsic
    def concat(exq, pc, env, args, kwargs):
        if kwargs.get("axis") != 1:
            return base(exq, pc, env, args, kwargs)
        frames, keys = args[0], kwargs.get("keys")
        if kwargs.get("join") != "outer" or not isinstance(keys, list) or len(keys) != len(frames) or not all(isinstance(x, fv.SymDF) for x in frames):
            raise pyvc.Unsupported("concat(axis=1) pattern")
        if any(fr.uni is not frames[0].uni for fr in frames):
            raise pyvc.Unsupported("concat(axis=1) over different key universes")
        fv._assume("pandas.concat([a, b], axis=1, join='outer', keys=[ka, kb]): one row per label of either frame; columns (key, col); NaN where the frame lacks the label")
        cols: Dict[Any, fv.Col] = {}
        for key, fr in zip(keys, frames):
            for c, k in fr.cols.items():
                if (key, c) in cols:
                    exq.oblige("concat_duplicate_columns", pc, False, "duplicate (key, column) pair")
                cols[(key, c)] = fv.Col(k.val, (lambda r, _fr=fr, _k=k: z_or(pyvc.z_not(_fr.present(r)), _k.isnull(r))), "float")
        return fv.SymDF(frames[0].uni, cols, lambda r: z_or(*[fr.present(r) for fr in frames]), frames[0].label, "concat1")

    pdn.members["concat"] = concat
    # fillna(0, inplace=True) on a frame
    orig = fv.SymDF.hv_call_method

    def patched(self_, exq, attr, args, kwargs, pc, env):
        if attr == "fillna" and args and not pyvc.is_sym(args[0]) and kwargs.get("inplace"):
            v = args[0]
            self_.cols = {c: fv.Col((lambda r, _k=k: pyvc.z_ite(_k.isnull(r), v, _k.val(r))), None, k.dtype) for c, k in self_.cols.items()}
            return None
        return orig(self_, exq, attr, args, kwargs, pc, env)

    fv.SymDF.hv_call_method = patched


# ---------------------------------------------------------------------------------------------- bounded


def _variant(events, rng):
    import copy

    evs = copy.deepcopy(events)
    out = []
    for e in evs:
        r = rng.random()
        if e.get("cat") in ("cpu_op", "kernel") and r < 0.1:
            continue  # deleted
        if e.get("cat") in ("cpu_op",) and r < 0.2:
            e["name"] = e["name"] + "_v2"
        if e.get("cat") in ("cpu_op", "kernel") and 0.2 <= r < 0.3 and "dur" in e:
            e["dur"] = e["dur"] + 5
        out.append(e)
    return out


def _case(seed: int) -> Dict[str, Any]:
    import random

    from hv import gen, rt
    from hta.trace_diff import DeviceType, LabeledTrace, TraceDiff
    from hta.utils.utils import shorten_name

    rng = random.Random(seed)
    nr = 1 + seed % 3
    # every third case: operator names that also occur as user annotations (one name under two categories)
    a = gen.gen_trace_set(seed, n_ranks=nr, steps=2 + seed % 2, n_top=2, n_streams=2, p_dual_cat=0.5 if seed % 3 == 0 else 0.0,
                          step_base=9 if seed % 2 else 10,  # 9, 10, 11: numeric order differs from the order of the annotation strings
                          **({"first_op_in_step": True, "p_orphan_kernel": 0.3} if seed % 4 == 3 else {}))  # event 0 inside a step + device activities whose launch was not captured
    if seed % 4 == 2:
        # two ranks of one run executing the very same operators (identical vocabularies on every rank), the SECOND rank selected
        import copy as _copy

        a = {0: a[0], 1: _copy.deepcopy(a[0])}
        nr = 2
    twins: List[Any] = []
    if seed % 3 == 1:
        # two DISTINCT events that agree on name, category, thread, start and duration (two zero-length view operators in the same microsecond):
        # both are events of the file, both count
        from hv import synth

        host = [e for e in a[0] if e.get("cat") == "cpu_op" and e.get("dur", 0) >= 5]
        if host:
            h = host[len(host) // 2]
            for _ in range(2):
                a[0].append(synth.host_op("aten::as_strided", h["ts"] + 1, 0, tid=h["tid"]))
            twins = a[0][-2:]
    b = {rk: _variant(evs, rng) for rk, evs in a.items()}
    file_names = {"a": {rk: {i: e["name"] for i, e in gen.complete_events(evs)} for rk, evs in a.items()},
                  "b": {rk: {i: e["name"] for i, e in gen.complete_events(evs)} for rk, evs in b.items()}}
    fails: List[Dict[str, Any]] = []
    n = 0
    inp = {"seed": seed, "control": a, "test": b}
    with rt.trace_dir(a) as da, rt.trace_dir(b) as db:
        try:
            same_label = seed % 4 == 0
            la = rt.lib(fails, "LabeledTrace", inp, LabeledTrace, "A", None, da)
            lb = rt.lib(fails, "LabeledTrace", inp, LabeledTrace, "A" if same_label else "B", None, db)
        except rt.LibFailure:
            return {"n_checks": 1, "fails": fails, "nontrivial": True}

        # a device activity whose launching call is not in the file belongs to no iteration (it is counted in none)
        for lt, src in ((la, a), (lb, b)):
            for rk in lt.ranks():
                df_ = lt.t.get_trace(rk)
                host_corr = {int(c) for c, s_ in zip(df_["correlation"], df_["stream"]) if int(s_) == -1 and int(c) >= 0}
                n += 1
                stray = [(int(i), int(it_)) for i, c, s_, it_ in zip(df_["index"], df_["correlation"], df_["stream"], df_["iteration"]) if int(s_) > 0 and int(c) not in host_corr and int(it_) != -1]
                if stray:
                    fails.append({"what": "device_activity_without_launch_call_belongs_to_no_iteration", "input": {**inp, "rank": rk}, "observed": stray[:5], "expected": "iteration -1"})
                    break
        if twins:
            ids = [i for i, e in gen.complete_events(a[0]) if any(e is t_ for t_ in twins)]
            have = set(int(x) for x in la.t.get_trace(0)["index"])
            n += 1
            if len([i for i in ids if i in have]) == 1:
                fails.append({"what": "events_equal_in_every_field_are_both_events_of_the_trace", "input": inp, "observed": {"twin_event_ids": ids, "loaded": [i for i in ids if i in have]},
                              "expected": "both or (when trimmed with their step) neither: they start at the same instant on the same thread"})

        def summary(lt, ranks, its, dev, short):
            # names are those of the FILE's events (row id = position in the file), not what the loaded frame decodes to
            src = file_names["a" if lt is la else "b"]
            cnt: Dict[str, List[int]] = {}
            for rk in ranks:
                df = lt.t.get_trace(rk)
                tab = src[rk]
                for nm, du, it, s in zip(df["index"], df["dur"], df["iteration"], df["stream"]):
                    if int(it) not in its:
                        continue
                    if dev == DeviceType.CPU and s != -1:
                        continue
                    if dev == DeviceType.GPU and s == -1:
                        continue
                    k = shorten_name(tab[nm]) if short else tab[nm]
                    c = cnt.setdefault(k, [0, 0])
                    c[0] += 1
                    c[1] += int(du)
            return cnt

        # the iterations a trace offers are its profiler step numbers in ascending NUMERIC order; leaving the selection out means the first of them
        for lt in (la, lb):
            present = sorted({int(x) for rk in lt.ranks() for x in lt.t.get_trace(rk)["iteration"] if int(x) >= 0})
            its_ = [int(x) for x in lt.iterations()]
            n += 1
            if its_ != sorted(its_) or not set(present) <= set(its_):
                fails.append({"what": "iterations_ascending", "input": inp, "observed": its_, "expected": f"ascending, containing {present}"})
        try:
            comp0 = rt.lib(fails, "compare_traces(default selection)", inp, TraceDiff.compare_traces, la, lb)
            r0c, r0t = [la.ranks()[0]], [lb.ranks()[0]]
            i0c, i0t = {min(int(x) for x in la.iterations())}, {min(int(x) for x in lb.iterations())}
            ec0, et0 = summary(la, r0c, i0c, DeviceType.ALL, False), summary(lb, r0t, i0t, DeviceType.ALL, False)
            cc0 = [c for c in comp0.columns if c.endswith("_counts") and c != "diff_counts"]
            n += 1
            if len(cc0) == 2:
                got0 = {k: (int(r[cc0[0]]), int(r[cc0[1]])) for k, r in comp0.iterrows()}
                exp0 = {k: (ec0.get(k, [0, 0])[0], et0.get(k, [0, 0])[0]) for k in set(ec0) | set(et0)}
                if got0 != exp0:
                    bad0 = {k: (got0.get(k), exp0.get(k)) for k in set(got0) | set(exp0) if got0.get(k) != exp0.get(k)}
                    fails.append({"what": "default_selection_is_first_rank_and_first_iteration", "input": inp, "observed": {k: v[0] for k, v in list(bad0.items())[:5]},
                                  "expected": {k: v[1] for k, v in list(bad0.items())[:5]}})
        except rt.LibFailure:
            pass
        for pair, self_cmp in (((la, lb), False), ((la, la), True)):
            ctl, tst = pair
            its_c, its_t = ctl.iterations(), tst.iterations()
            ic = [its_c[0]] if seed % 2 else its_c[:2]
            it = [its_t[-1]] if seed % 3 == 0 and not self_cmp else ic
            rc = ctl.ranks()[: 1 + seed % 2] if len(ctl.ranks()) > 1 and seed % 5 == 0 else [ctl.ranks()[0]]
            if len(ctl.ranks()) > 1 and seed % 4 == 2:
                rc = [ctl.ranks()[1]]
            rtt = rc if set(rc) <= set(tst.ranks()) else [tst.ranks()[0]]
            # the SAME objects and the SAME selection with short and then long names (and the reverse order for every other seed): a call history
            modes = [(d_, s_) for d_ in (DeviceType.ALL, DeviceType.CPU, DeviceType.GPU) for s_ in (((True, False) if seed % 2 else (False, True)) if d_ != DeviceType.CPU else (False,))]
            for dev, short in modes:
                sel = {"control_rank": rc, "test_rank": rtt, "control_iteration": ic, "test_iteration": it, "device": dev.name, "short": short, "self": self_cmp}
                try:
                    comp = rt.lib(fails, "compare_traces", {**inp, **sel}, TraceDiff.compare_traces, ctl, tst, rc, rtt, ic, it, dev, short)
                except rt.LibFailure:
                    continue
                ec, et = summary(ctl, rc, set(ic), dev, short), summary(tst, rtt, set(it), dev, short)
                n += 1
                ccols = [c for c in comp.columns if c.endswith("_counts") and c != "diff_counts"]
                dcols = [c for c in comp.columns if c.endswith("_total_duration")]
                if len(ccols) != 2 or len(dcols) != 2:
                    fails.append({"what": "two_prefixes", "input": {**inp, **sel}, "observed": list(comp.columns)})
                    continue
                got = {k: (int(r[ccols[0]]), int(r[ccols[1]]), int(r[dcols[0]]), int(r[dcols[1]]), int(r["diff_counts"]), int(r["diff_duration"])) for k, r in comp.iterrows()}
                exp = {}
                for k in set(ec) | set(et):
                    c, t = ec.get(k, [0, 0]), et.get(k, [0, 0])
                    exp[k] = (c[0], t[0], c[1], t[1], t[0] - c[0], t[1] - c[1])
                if got != exp:
                    bad = {k: (got.get(k), exp.get(k)) for k in set(got) | set(exp) if got.get(k) != exp.get(k)}
                    fails.append({"what": "table_matches_counts", "input": {**inp, **sel}, "observed": {k: v[0] for k, v in list(bad.items())[:5]}, "expected": {k: v[1] for k, v in list(bad.items())[:5]}})
                    continue
                if dev == DeviceType.ALL and not short:
                    try:
                        od = rt.lib(fails, "ops_diff", {**inp, **sel}, TraceDiff.ops_diff, ctl, tst, rc, rtt, ic, it, dev)
                    except rt.LibFailure:
                        continue
                    allnames = [x for v in od.values() for x in v]
                    if sorted(allnames) != sorted(exp) or len(set(allnames)) != len(allnames):
                        fails.append({"what": "classes_partition_names", "input": {**inp, **sel}, "observed": {k: len(v) for k, v in od.items()}, "expected": f"{len(exp)} names, each once"})
                    if self_cmp and any(od[k] for k in ("added", "deleted", "increased", "decreased")):
                        fails.append({"what": "self_comparison_unchanged", "input": {**inp, **sel}, "observed": {k: len(v) for k, v in od.items()}})
    return {"n_checks": n, "fails": fails, "nontrivial": n > 0, "sample": {"seed": seed, "ranks": nr}}


def bounded(ctx):
    from hv import rt

    n = 24 if not ctx.thorough else 300
    res = rt.pmap(_case, [ctx.seed * 223 + i for i in range(n)], ctx.procs)
    return rt.summarise(res, f"{PROP}.bounded", f"{n} pairs of generated traces (test = control with deleted / renamed / lengthened events), 1-3 ranks, several rank and iteration "
                        "selections (different on the two sides), CPU / GPU / ALL, long and short names, equal labels, and self-comparison with one LabeledTrace object")


def units(ctx):
    return [core.Unit(f"{PROP}.ops_diff", ops_diff_vcs, [TD + ".TraceDiff.ops_diff"]),
            core.Unit(f"{PROP}.compare_traces", compare_vcs, [TD + ".TraceDiff.compare_traces", TD + ".TraceDiff._get_distinct_labels"])]


SPEC = Spec(
    prop=PROP, level="proof",
    functions=[(TD, "TraceDiff.ops_diff"), (TD, "TraceDiff.compare_traces"), (TD, "TraceDiff._get_distinct_labels"), (TD, "LabeledTrace.extract_ops"), (TD, "LabeledTrace.get_ops_summary")],
    units=units, bounded=[Bounded("diff_vs_counts", bounded)],
    trusted=["per-side summaries are keyed tables name -> (counts, total_duration) (contract of groupby(name)[...].sum(), L5 for the double grouping); extract_ops / get_ops_summary "
             "themselves are covered by the bounded stage", "pandas contracts: concat(axis=1, join='outer', keys=...), fillna(0), column arithmetic, apply"],
)
