"""Contract and proof of `hta.utils.utils.merge_kernel_intervals` (shared by C04, C05, C07).

Postconditions (for every input frame with dur >= 0, any number of rows >= 1, any tie pattern):
  M1  the output rows are sorted by ts and separated:  lo_g <= hi_g <= lo_{g+1}  (non-strict on purpose: `>`->`>=` in the
      group test only splits touching intervals, which no measure statement can see)
  M2  for every instant t:  t lies in some input [ts, ts+dur)  <=>  t lies in some output [lo, hi)
  M3  lo_0 = min ts,  hi_last = max (ts+dur)
Proof: prefix-fold induction (hv/scanvc.py) over the frame sorted by ts.  The property-level invariant below talks only
about ghost folds and the run aggregates that become output rows; the glue between the code's internal scans (shift,
cummax, cumsum in whatever order the code uses them) and the ghost folds is inferred Houdini-style from a fixed
template (s == q for q in a small set of ghost terms, null flags), so harmless refactorings keep verifying.
"""
from __future__ import annotations

from typing import Any, Dict, List, Tuple

import z3

from hv import core, extract, pyvc, scanvc
from hv.pyvc import to_z3

UT = "hta.utils.utils"


STALE = False  # set by merge_vcs(stale=True): the argument already carries `end` / `group` columns with ARBITRARY values


def _run_window(mode: str, tag: str):
    f = extract.get_function(UT, "merge_kernel_intervals")
    node = extract.stripped(f)
    w = scanvc.Window(mode, tag)
    cols = {"ts": "int", "dur": "int"}
    if STALE:
        cols.update({"end": "int", "group": "int"})
    frame, syms = scanvc.window_frame(w, cols, "ts", tag)
    ex = pyvc.Exec(consts=extract.module_constants(UT), name=f"merge.{mode}")
    outs = ex.run_function(node, {"kernel_df": frame}, [])
    rets = [o for o in outs if o.kind == "ret"]
    if len(rets) != 1 or not isinstance(rets[0].value, scanvc.WRunTable):
        raise pyvc.Unsupported("merge_kernel_intervals does not return a run aggregation of its (sorted) argument")
    table: scanvc.WRunTable = rets[0].value
    if len(w.emissions) != 1:
        raise pyvc.Unsupported("expected exactly one groupby aggregation")
    return f, w, frame, syms, table, ex


def merge_vcs(prop: str, stale: bool = False) -> List[core.VC]:
    """stale=True: the same obligations for an argument that already has `end` and `group` columns holding arbitrary values
    (the function annotates its argument in place, so a caller that merges a frame twice, or a sub-frame of an annotated
    frame, hands such columns back): the result must not depend on them."""
    global STALE
    STALE = stale
    try:
        return _merge_vcs(prop, f"{prop}.merge_kernel_intervals" + (".stale_helper_columns" if stale else ""))
    finally:
        STALE = False


def _merge_vcs(prop: str, name: str) -> List[core.VC]:
    f, wb, fb, sb, tb, exb = _run_window("base", "mb")
    f, ws, fs, ss, ts_, exs = _run_window("step", "ms")
    fq = [f.fq]
    vcs: List[core.VC] = []
    em_b, em_s = wb.emissions[0], ws.emissions[0]
    out_cols = [c for c in ts_.columns if c not in ts_.dropped]
    shape_ok = sorted(out_cols) == ["end", "ts"] and em_s["key"] in ts_.dropped and ts_.sorted_by == "ts"
    vcs.append(core.VC(f"{name}.output_shape", [], z3.BoolVal(shape_ok), "vc", fq, {},
                       note=f"output columns {out_cols} (want ts, end; group key dropped), sorted by {ts_.sorted_by!r}"))
    if not shape_ok:
        return vcs
    for nm, cond, note in ws.obligations:
        vcs.append(core.VC(f"{name}.{nm}", [], cond, "vc", fq, {}, note=note))
    for pv in list(exb.vcs) + list(exs.vcs):
        vcs.append(core.VC(pv.name, pv.hyps, pv.goal, "vc", fq, {}, note=pv.note))
    # written columns: the input gains `end` and `group`, nothing else (callers pass copies / local selections)
    vcs.append(core.VC(f"{name}.frame_writes", [], z3.BoolVal(sorted(set(fs.written)) == ["end", "group"]), "vc", fq, {},
                       note=f"columns assigned on the argument: {sorted(set(fs.written))} (contract: only end and group)"))

    t = z3.Real("t")
    # ------------------------------------------------------------------ base state (position 0)
    T0, D0 = sb["ts"][1], sb["dur"][1]
    E0 = T0 + D0
    LO0, HI0 = em_b["cur_values"]["ts"], em_b["cur_values"]["end"]
    ghosts0 = {"pos": z3.IntVal(0), "GM": E0, "E": E0, "T": T0, "cov_in": z3.And(T0 <= t, t < E0), "closed": z3.BoolVal(False),
               "emitted": z3.BoolVal(False), "last_hi": z3.IntVal(0), "first_ts": T0, "first_lo": z3.IntVal(0), "GMb": z3.IntVal(0), "Eb": z3.IntVal(0)}

    def prop_inv(g: Dict[str, Any], LO, HI):
        return z3.And(
            # relations among the ghost folds themselves (true by construction; carried so that the glue can be inferred)
            g["pos"] >= 0, g["GM"] >= g["E"],
            z3.Implies(g["pos"] == 0, g["GM"] == g["E"]),
            z3.Implies(g["pos"] >= 1, g["GM"] == z3.If(g["E"] > g["GMb"], g["E"], g["GMb"])),
            # property-level invariant
            HI == g["GM"], LO <= g["T"], LO <= HI,
            g["cov_in"] == z3.Or(g["closed"], z3.And(LO <= t, t < HI)),
            z3.Implies(g["closed"], t < LO),
            z3.Implies(g["emitted"], g["last_hi"] <= LO),
            z3.Implies(z3.Not(g["emitted"]), LO == g["first_ts"]),
            z3.Implies(g["emitted"], g["first_lo"] == g["first_ts"]),
        )

    row0 = [D0 >= 0]
    vcs.append(core.VC(f"{name}.inv_base", row0, prop_inv(ghosts0, LO0, HI0), "vc", fq, {"ts0": T0, "dur0": D0},
                       note="property invariant holds after the first row"))
    # ------------------------------------------------------------------ step
    Tp, T = ss["ts"]
    Dp, D = ss["dur"]
    E = T + D
    gp = {k: (z3.Bool(f"g_{k}_prev") if k in ("cov_in", "closed", "emitted") else z3.Int(f"g_{k}_prev")) for k in ghosts0}
    gp["T"] = Tp
    gp["E"] = Tp + Dp
    LOp, HIp = em_s["prev_values"]["ts"], em_s["prev_values"]["end"]
    LO, HI = em_s["cur_values"]["ts"], em_s["cur_values"]["end"]
    newrun = to_z3(em_s["emit_prev_run"])
    gc = {
        "pos": gp["pos"] + 1, "GM": z3.If(E > gp["GM"], E, gp["GM"]), "E": E, "T": T, "GMb": gp["GM"], "Eb": gp["E"],
        "cov_in": z3.Or(gp["cov_in"], z3.And(T <= t, t < E)),
        "closed": z3.Or(gp["closed"], z3.And(newrun, LOp <= t, t < HIp)),
        "emitted": z3.Or(gp["emitted"], newrun), "last_hi": z3.If(newrun, HIp, gp["last_hi"]), "first_ts": gp["first_ts"],
        "first_lo": z3.If(z3.And(newrun, z3.Not(gp["emitted"])), LOp, gp["first_lo"]),
    }
    row = [D >= 0, Dp >= 0, T >= Tp, gp["pos"] >= 0]
    # internal scan states (everything that is not a run aggregate): Houdini over a fixed template
    internal = [n for n in ws.state_prev if not n.startswith("runagg#")]
    terms = ["GM", "GMb", "E", "Eb", "T", "pos"]
    cands: List[Tuple[str, Any, Any, Any]] = []  # (label, prev formula, cur formula, base formula or None)
    for n in internal:
        sp, spn = ws.state_prev[n], ws.state_prev_null[n]
        sc, scn = to_z3(ws.state_cur[n]), to_z3(ws.state_cur_null[n]) if ws.state_cur_null[n] is not False else z3.BoolVal(False)
        sb0 = wb.state_cur.get(n)
        sbn0 = wb.state_cur_null.get(n, False)
        sbn0 = to_z3(sbn0) if sbn0 is not False else z3.BoolVal(False)
        for q in terms:
            base_f = (to_z3(sb0) == ghosts0[q]) if sb0 is not None else None
            cands.append((f"{n}=={q}", z3.Implies(z3.Not(spn), sp == gp[q]), z3.Implies(z3.Not(scn), sc == gc[q]),
                          z3.Implies(z3.Not(sbn0), base_f) if base_f is not None else None))
        cands.append((f"{n}.null<=>first", spn == (gp["pos"] == 0), scn == (gc["pos"] == 0), sbn0 == z3.BoolVal(True) if sb0 is not None else None))
        cands.append((f"{n}.nevernull", z3.Not(spn), z3.Not(scn), z3.Not(sbn0) if sb0 is not None else None))
    # a state that is first created in step mode (e.g. shift) has no base value: its prev-null flag at position 1 is taken from the recurrence
    live = list(cands)
    P_prev = prop_inv(gp, LOp, HIp)

    def valid(hyps, goal) -> bool:
        s = z3.Solver()
        s.set("timeout", 10000)
        s.add(*hyps)
        s.add(z3.Not(goal))
        return s.check() == z3.unsat

    live = [c for c in live if c[3] is None or valid(row0, c[3])]
    changed = True
    while changed:
        changed = False
        hyps = row + [P_prev] + [c[1] for c in live]
        keep = []
        for c in live:
            if valid(hyps, c[2]):
                keep.append(c)
            else:
                changed = True
        live = keep
    glue = [c[0] for c in live]
    hyps = row + [P_prev] + [c[1] for c in live]
    mv = {"ts_prev": Tp, "dur_prev": Dp, "ts_cur": T, "dur_cur": D, "LO_prev": LOp, "HI_prev": HIp, "GM_prev": gp["GM"], "t": t, "newrun": newrun}
    vcs.append(core.VC(f"{name}.inv_step", hyps, prop_inv(gc, LO, HI), "vc", fq, mv,
                       note="property invariant preserved by one more row; inferred glue: " + (", ".join(glue) or "none")))
    # M1 at every emission and at the final emission
    vcs.append(core.VC(f"{name}.M1_emitted_rows_sorted_separated", hyps + [newrun], z3.And(LOp <= HIp, z3.Implies(gp["emitted"], gp["last_hi"] <= LOp)), "vc", fq, mv,
                       note="each output row has lo <= hi and starts strictly after the previous row's end"))
    # final emission happens from a state satisfying the invariant: M1 for the last row, M2 and M3 are the invariant itself
    gf = dict(gp)
    vcs.append(core.VC(f"{name}.M2_same_points_at_end", [P_prev], gp["cov_in"] == z3.Or(gp["closed"], z3.And(LOp <= t, t < HIp)), "vc", fq, mv,
                       note="t is covered by an input interval iff it is covered by an output row (closed rows or the last row)"))
    vcs.append(core.VC(f"{name}.M3_extent", [P_prev], z3.And(HIp == gp["GM"], z3.Implies(z3.Not(gp["emitted"]), LOp == gp["first_ts"]),
                                                             z3.Implies(gp["emitted"], gp["first_lo"] == gp["first_ts"])), "vc", fq, mv,
                       note="first row starts at the first (= minimal) ts; last row ends at the maximal end"))
    vcs.append(core.VC(f"{name}.guard.inv_satisfiable", row + [P_prev] + [c[1] for c in live], z3.BoolVal(True), "vacuity", fq))
    vcs.append(core.VC(f"{name}.guard.canary_false", row + [P_prev] + [c[1] for c in live] + [newrun], z3.BoolVal(False), "canary", fq))
    return vcs


# ---------------------------------------------------------------------------------------------- callee contract for callers


class MergedTable:
    """Result of merge_kernel_intervals(df) as seen by a caller: only the contract (M1-M3) is known, not the body.

    Symbols: n (rows), lo0 / hi_last (first start / last end), sum_lo / sum_hi (column sums).  `total` = sum_hi - sum_lo is the
    summed length of the output rows; by M1 + Lean L1 it is the Lebesgue measure of the union of the rows, by M2 that is the
    measure of the union of the INPUT intervals.  Facts are appended to ex.facts.
    """

    _k = 0

    def __init__(self, ex, src):
        from hv import framevc as fv

        MergedTable._k += 1
        k = MergedTable._k
        self.src = src
        self.n = z3.Int(f"mk{k}_n")
        self.lo0, self.hi_last = z3.Int(f"mk{k}_lo0"), z3.Int(f"mk{k}_hi_last")
        self.sum_lo, self.sum_hi = z3.Int(f"mk{k}_sum_lo"), z3.Int(f"mk{k}_sum_hi")
        self.total = self.sum_hi - self.sum_lo
        # the output rows themselves: row g = [lo(g), hi(g)), 0 <= g < n, sorted and separated (M1)
        self.lo, self.hi = z3.Function(f"mk{k}_lo", z3.IntSort(), z3.IntSort()), z3.Function(f"mk{k}_hi", z3.IntSort(), z3.IntSort())
        g = z3.Int(f"mk{k}_g")
        ex.facts += [z3.ForAll([g], z3.Implies(z3.And(g >= 0, g < self.n), z3.And(self.lo(g) <= self.hi(g), z3.Implies(g + 1 < self.n, self.hi(g) <= self.lo(g + 1))))),
                     z3.Implies(self.n >= 1, z3.And(self.lo0 == self.lo(0), self.hi_last == self.hi(self.n - 1)))]
        ts, dur, pres = src.cols["ts"].val, src.cols["dur"].val, src.present
        r = src.uni.skolem(f"mkr{k}")
        wlo, whi = src.uni.skolem(f"mkwlo{k}"), src.uni.skolem(f"mkwhi{k}")
        self.nonempty = z3.Bool(f"mk{k}_nonempty")
        ex.facts += [
            self.n >= 0, self.nonempty == (self.n >= 1),
            z3.Implies(z3.Not(self.nonempty), z3.And(self.sum_lo == 0, self.sum_hi == 0, z3.ForAll(list(r), z3.Not(to_z3(pres(r)))))),
            # M3 (+ M1 sortedness: the first row has the minimal start, the last row the maximal end)
            z3.ForAll(list(r), z3.Implies(to_z3(pres(r)), z3.And(self.nonempty, self.lo0 <= ts(r), ts(r) + dur(r) <= self.hi_last))),
            z3.Implies(self.nonempty, z3.And(to_z3(pres(wlo)), ts(wlo) == self.lo0, to_z3(pres(whi)), ts(whi) + dur(whi) == self.hi_last)),
            # M1 + telescoping: 0 <= total <= hi_last - lo0
            self.total >= 0, z3.Implies(self.nonempty, self.total <= self.hi_last - self.lo0),
        ]
        self.witness_lo, self.witness_hi = wlo, whi

    def __deepcopy__(self, memo):
        return self

    def hv_getattr(self, ex, attr, pc):
        if attr == "iloc":
            return _ILoc(self)
        if attr in ("ts", "end"):
            return _MCol(self, attr)
        return NotImplemented

    def hv_getitem(self, ex, idx, pc):
        if idx in ("ts", "end"):
            return _MCol(self, idx)
        raise pyvc.Unsupported("merged table subscript")

    def as_df(self):
        from hv import framevc as fv

        if not hasattr(self, "_df"):
            uni = fv.Universe("mrows")
            n, lo, hi = self.n, self.lo, self.hi
            self._df = fv.SymDF(uni, {"ts": fv.Col(lambda r: lo(r[0]), None, "int"), "end": fv.Col(lambda r: hi(r[0]), None, "int")},
                                lambda r: z3.And(r[0] >= 0, r[0] < n), None, "merged_rows")
        return self._df

    def hv_call_method(self, ex, attr, args, kwargs, pc, env):
        if attr == "melt":
            return self.as_df().hv_call_method(ex, attr, args, kwargs, pc, env)
        return NotImplemented


class _ILoc:
    def __init__(self, m):
        self.m = m

    def hv_getitem(self, ex, idx, pc):
        if idx in (0, -1):
            ex.oblige(f"merged_iloc_{'first' if idx == 0 else 'last'}_nonempty", pc, self.m.nonempty, "iloc[0]/iloc[-1] on an empty merged table raises IndexError")
            return _MRow(self.m, idx)
        raise pyvc.Unsupported("iloc position")


class _MRow:
    def __init__(self, m, pos):
        self.m, self.pos = m, pos

    def hv_getitem(self, ex, idx, pc):
        if self.pos == 0 and idx == "ts":
            return self.m.lo0
        if self.pos == -1 and idx == "end":
            return self.m.hi_last
        # first row's end / last row's start are not characterised by the contract
        return pyvc.fresh(f"merged_row_{idx}", z3.IntSort())

    def hv_getattr(self, ex, attr, pc):
        return self.hv_getitem(ex, attr, pc)


class _MCol:
    def __init__(self, m, col):
        self.m, self.col = m, col

    def hv_call_method(self, ex, attr, args, kwargs, pc, env):
        if attr == "sum":
            return self.m.sum_lo if self.col == "ts" else self.m.sum_hi
        return NotImplemented

    def hv_binop(self, ex, op, other, reflected, pc):
        import ast as _ast

        if isinstance(op, _ast.Sub) and isinstance(other, _MCol) and other.m is self.m and not reflected and self.col == "end" and other.col == "ts":
            return _MLen(self.m)
        raise pyvc.Unsupported("arithmetic on merged columns other than end - ts")


class _MLen:
    """(merged["end"] - merged["ts"]): its sum is sum_hi - sum_lo (linearity of finite sums, L5)."""

    def __init__(self, m):
        self.m = m

    def hv_call_method(self, ex, attr, args, kwargs, pc, env):
        if attr == "sum":
            return self.m.total
        return NotImplemented


def install_merge_contract(ex, on_call=None):
    """Replace calls to merge_kernel_intervals by its contract.  Call-site obligations: dur >= 0 on the argument's rows and the
    argument is a frame the caller owns (a fresh copy / selection), because the callee sorts it and adds columns in place."""
    from hv import framevc as fv

    @pyvc.intrinsic
    def merge(exq, pc, env, args, kwargs):
        df = args[0]
        if not isinstance(df, fv.SymDF):
            raise pyvc.Unsupported("merge_kernel_intervals argument")
        r = df.uni.skolem(f"mpre{MergedTable._k}")
        exq.oblige("merge_pre_dur_nonneg", pc + [to_z3(df.present(r))] + list(exq.facts), to_z3(df.cols["dur"].val(r)) >= 0, "precondition dur >= 0 of merge_kernel_intervals")
        m = MergedTable(exq, df)
        if on_call:
            on_call(df, m)
        return m

    ex.intrinsics["merge_kernel_intervals"] = merge
