"""C19 — a saved critical-path graph restores to an identical graph.

What contracts can state here is thin: the substance is the round-trip behaviour of pickle, networkx node-link data, CSV and
zip, which can only be ASSUMED.  Deductive part: the field / file-name correspondence between CPGraph.save and restore_cpgraph
(every _CPGraphData field is saved from and restored to the attribute of the same name; the three member file names and the
CSV index label agree on both sides; the restore reads from the directory it extracted to and always extracts).
Bounded stand-in: for successful analyses of generated traces, restore(save(g)) is compared with g on nodes, edges, weights,
edge types, attribution map, critical path, recomputed path weight and breakdown (as a multiset of rows), over 1-3 cycles and
over histories that reuse one directory name for different graphs.
"""
from __future__ import annotations

import ast
import os
import shutil
import tempfile
from typing import Any, Dict, List

import z3

from contracts import cp_common as cc
from hv import core, extract, pyvc
from hv.driver import Bounded, Spec

CPA = cc.CPA
PROP = "C19"
FIELDS = ["node_list", "critical_path_nodes", "critical_path_events_set", "critical_path_edges_set", "event_to_start_node_map", "event_to_end_node_map", "edge_to_event_map"]


def correspondence_vcs() -> List[core.VC]:
    fs = extract.get_function(CPA, "CPGraph.save")
    fr = extract.get_function(CPA, "restore_cpgraph")
    vcs: List[core.VC] = []
    # save: _CPGraphData(field=self.field, ...)
    saved: Dict[str, str] = {}
    for n in ast.walk(fs.node):
        if isinstance(n, ast.Call) and isinstance(n.func, ast.Name) and n.func.id == "_CPGraphData":
            for kw in n.keywords:
                v = kw.value
                saved[kw.arg] = v.attr if isinstance(v, ast.Attribute) and isinstance(v.value, ast.Name) and v.value.id == "self" else ast.unparse(v)
    vcs.append(core.VC(f"{PROP}.save.fields_from_same_named_attributes", [], z3.BoolVal(saved == {f: f for f in FIELDS}), "vc", [fs.fq], {}, note=f"saved fields: {saved}"))
    restored: Dict[str, str] = {}
    for n in ast.walk(fr.node):
        if isinstance(n, ast.Assign) and isinstance(n.targets[0], ast.Attribute) and isinstance(n.targets[0].value, ast.Name) and n.targets[0].value.id == "restored_instance":
            v = n.value
            if isinstance(v, ast.Attribute) and isinstance(v.value, ast.Name) and v.value.id == "pickled_obj":
                restored[n.targets[0].attr] = v.attr
    vcs.append(core.VC(f"{PROP}.restore.fields_to_same_named_attributes", [], z3.BoolVal(restored == {f: f for f in FIELDS}), "vc", [fr.fq], {}, note=f"restored fields: {restored}"))
    # dataclass declares exactly these fields
    _, tree = extract.load_module(CPA)
    cls = [c for c in tree.body if isinstance(c, ast.ClassDef) and c.name == "_CPGraphData"]
    declared = [s.target.id for s in cls[0].body if isinstance(s, ast.AnnAssign)] if cls else []
    vcs.append(core.VC(f"{PROP}.graph_data.declares_the_fields", [], z3.BoolVal(declared == FIELDS), "vc", [CPA + "._CPGraphData"], {}, note=f"declared: {declared}"))

    def consts(fn):
        return {n.value for n in ast.walk(fn.node) if isinstance(n, ast.Constant) and isinstance(n.value, str)}

    names = {"trace_data.csv", "cp_graph.pkl", "cp_data.pkl", "_index_"}
    vcs.append(core.VC(f"{PROP}.file_names_agree", [], z3.BoolVal(names <= consts(fs) and names <= consts(fr)), "vc", [fs.fq, fr.fq], {}, note="the three member files and the CSV index label are named identically by save and restore"))
    src_r = " ".join(ast.unparse(extract.stripped(fr)).replace("'", '"').split())
    want = ['out_dir = "/".join(zipf.namelist()[0].split("/")[:-1])', 'zipf.extractall(path="/tmp/")', 'out_dir = os.path.join("/tmp", out_dir)', "G = nx.node_link_graph(pickled_graph)",
            "restored_instance = CPGraph(None, t_full, rank, G)", 'restored_instance.trace_df = pd.read_csv(trace_csv_path).set_index("_index_")']
    missing = [w for w in want if w not in src_r]
    # extraction must be unconditional (a stale earlier extraction must never be read)
    cond_extract = any(isinstance(n, ast.If) and any(isinstance(c, ast.Attribute) and c.attr == "extractall" for c in ast.walk(n)) for n in ast.walk(fr.node))
    if missing and not cond_extract:
        # a textual difference is not a defect: outside the contract's reading (undecided; the bounded round trips decide)
        raise pyvc.Unsupported("restore_cpgraph no longer matches the contract's reading: " + "; ".join(missing))
    vcs.append(core.VC(f"{PROP}.restore.reads_what_it_extracted", [], z3.BoolVal(not cond_extract), "vc", [fr.fq], {},
                       note="extracts unconditionally under /tmp/<saved path> and reads the three files from there" + (f"; changed: {missing}" if missing else "") + ("; extraction is conditional" if cond_extract else "")))
    src_s = " ".join(ast.unparse(extract.stripped(fs)).replace("'", '"').split())
    want_s = ['self.trace_df.to_csv(trace_csv_path, index=True, index_label="_index_")', "d = nx.node_link_data(self)", "pickle.dump(d, f)", "pickle.dump(pickle_obj, f)",
              "zipf.write(trace_csv_path)", "zipf.write(graph_pkl_path)", "zipf.write(data_pkl_path)"]
    ms = [w for w in want_s if w not in src_s]
    if ms:
        raise pyvc.Unsupported("save no longer matches the contract's reading: " + "; ".join(ms))
    vcs.append(core.VC(f"{PROP}.save.writes_three_members", [], z3.BoolVal(not ms), "vc", [fs.fq], {}, note="csv (with index), node-link graph pickle, data pickle, all zipped" + (f"; changed: {ms}" if ms else "")))
    return vcs


# ---------------------------------------------------------------------------------------------- bounded


def _snapshot(g) -> Dict[str, Any]:
    facts = cc.graph_facts(g)
    bd = g.get_critical_path_breakdown()
    rows = sorted((str(r.get("event_idx")), int(r["duration"]), str(r["type"]), str(r["bound_by"]), str(r.get("s_name"))) for _, r in bd.iterrows()) if bd is not None else []
    return {"nodes": facts["nodes"], "edges": sorted((e["u"], e["v"], e["w_attr"], e["w"], e["type"]) for e in facts["edges"]),
            "attr": sorted((int(k[0]), int(k[1]), int(v)) for k, v in g.edge_to_event_map.items()), "path": [int(x) for x in g.critical_path_nodes],
            "events": sorted(int(x) for x in g.critical_path_events_set), "cedges": sorted((int(e.begin), int(e.end), e.weight, e.type.name) for e in g.critical_path_edges_set), "breakdown": rows}


def _path_weight(g) -> float:
    p = [int(x) for x in g.critical_path_nodes]
    return sum(g.edges[a, b]["weight"] for a, b in zip(p, p[1:]))


def _frame_trace(k: int) -> List[Dict[str, Any]]:
    """an operator whose two children sit inside one Python stack frame (with_stack=True); the gap between the children lies on the
    critical path and is attributed to the frame, whose display name shortens to "" / reads like a missing value in a CSV file"""
    from hv import synth

    b = 1_000_000
    frame = ["<built-in method apply of FunctionMeta object at 0x7f5c2c1d3a90>", "<lambda>", "None", "nan"][k % 4]
    return [synth.host_op("aten::first_op", b, 5), synth.profiler_step(1, b + 5, 195),
            synth.host_op("MyFnBackward", b + 10, 140), {"ph": "X", "cat": "python_function", "name": frame, "pid": synth.HOST_PID, "tid": 1, "ts": b + 15, "dur": 125},
            synth.host_op("aten::mul", b + 20, 20), synth.host_op("aten::add", b + 80, 50), synth.launch(b + 90, 10, 1), synth.kernel("void elementwise_kernel", b + 110, 50, 7, 1),
            synth.profiler_step(2, b + 200, 60), synth.host_op("aten::relu", b + 205, 20), synth.profiler_step(3, b + 260, 40), synth.host_op("aten::relu", b + 265, 20)]


def _overrun_trace() -> List[Dict[str, Any]]:
    """a nested host event that ends one time unit after its parent (rounding of nanosecond traces): the closing edge child -> parent weighs -1;
    analysed with CRITICAL_PATH_STRICT_NEGATIVE_WEIGHT_CHECKS=1 the graph keeps that weight (and is accepted: only weights below -1 are rejected)"""
    from hv import synth

    b = 1_000_000
    return [synth.host_op("aten::first_op", b, 5), synth.profiler_step(1, b + 5, 295),
            synth.host_op("aten::linear", b + 10, 100), synth.host_op("aten::addmm", b + 20, 91), synth.launch(b + 30, 10, 1), synth.kernel("void gemm_kernel", b + 50, 80, 7, 1),
            synth.host_op("aten::relu", b + 120, 150), synth.launch(b + 130, 10, 2), synth.kernel("void elementwise_kernel", b + 145, 30, 7, 2),
            synth.profiler_step(2, b + 300, 60), synth.host_op("aten::relu", b + 305, 20), synth.profiler_step(3, b + 360, 40), synth.host_op("aten::relu", b + 365, 20)]


def _case(seed: int) -> Dict[str, Any]:
    if seed <= -200:  # the same over-running child WITHOUT the strict option: _validate_graph clips the edge's weight attribute to 0 (the CPEdge object keeps -1); saved and restored
        return _case_body(seed)
    if seed <= -100:  # the crafted over-running child, analysed, saved and restored under the strict negative-weight option
        old = os.environ.get("CRITICAL_PATH_STRICT_NEGATIVE_WEIGHT_CHECKS")
        os.environ["CRITICAL_PATH_STRICT_NEGATIVE_WEIGHT_CHECKS"] = "1"
        try:
            return _case_body(seed)
        finally:
            if old is None:
                os.environ.pop("CRITICAL_PATH_STRICT_NEGATIVE_WEIGHT_CHECKS", None)
            else:
                os.environ["CRITICAL_PATH_STRICT_NEGATIVE_WEIGHT_CHECKS"] = old
    if seed >= 0 and seed % 5 == 4:  # a nanosecond-resolution capture (instants scaled by 1/8) analysed, saved and restored with HTA_DISABLE_NS_ROUNDING=1
        old = os.environ.get("HTA_DISABLE_NS_ROUNDING")
        os.environ["HTA_DISABLE_NS_ROUNDING"] = "1"
        try:
            return _case_body(seed)
        finally:
            if old is None:
                os.environ.pop("HTA_DISABLE_NS_ROUNDING", None)
            else:
                os.environ["HTA_DISABLE_NS_ROUNDING"] = old
    return _case_body(seed)


def _case_body(seed: int) -> Dict[str, Any]:
    from hv import cpgen, rt
    from hta.analyzers.critical_path_analysis import restore_cpgraph

    fails: List[Dict[str, Any]] = []
    n = 0
    work = tempfile.mkdtemp(prefix="hv_c19_")
    extracted: List[str] = []
    try:
        evs = cpgen.gen_cp_events(abs(seed), n_steps=3, n_streams=1 + seed % 3, annotations=bool(seed % 2), n_threads=2 if seed % 4 == 1 else 1, python_frames=(seed % 4 == 3))
        if seed <= -100:
            evs = _overrun_trace()
        elif seed < 0:
            evs = _frame_trace(-seed)
        ns = seed >= 0 and seed % 5 == 4
        if ns:
            b0 = min(e["ts"] for e in evs if e.get("ph") == "X")
            for e in evs:
                if e.get("ph") == "X":
                    e["ts"] = b0 + (e["ts"] - b0) * 0.125
                    e["dur"] = e["dur"] * 0.125
        inp = {"seed": seed, "events": {0: evs}}
        if ns:
            inp["environment"] = {"HTA_DISABLE_NS_ROUNDING": "1"}
        if -200 < seed <= -100:
            inp["environment"] = {"CRITICAL_PATH_STRICT_NEGATIVE_WEIGHT_CHECKS": "1"}
        with rt.trace_dir({0: evs}) as d:
            try:
                ta = rt.lib(fails, "load", inp, rt.load_analysis, d)
                graphs = []
                for inst in (0, 1):
                    try:
                        g, ok = rt.lib(fails, "critical_path_analysis", inp, ta.critical_path_analysis, rank=0, annotation="ProfilerStep", instance_id=inst, _allow=(AssertionError,))
                    except AssertionError:
                        continue
                    if ok:
                        graphs.append(g)
                if not graphs:
                    return {"n_checks": 0, "fails": [], "nontrivial": False}
                if len(graphs) >= 2 and abs(seed) % 2 == 0:
                    # several graphs of one session saved under names that differ only after a dot (cp_graph.step0, cp_graph.step1), all saved BEFORE any is restored:
                    # each archive restores to the graph it was written from
                    wants = [_snapshot(g) for g in graphs]
                    zips = []
                    for gi, g in enumerate(graphs):
                        od = os.path.join(work, "graphs", f"cp_graph.step{gi}")
                        zips.append(rt.lib(fails, "save", {**inp, "out_dir": od}, g.save, od))
                        extracted.append(os.path.join("/tmp", od.lstrip("/")))
                    for gi, z in enumerate(zips):
                        back = rt.lib(fails, "restore_cpgraph", {**inp, "archive": z}, restore_cpgraph, z, ta.t, 0)
                        got = rt.lib(fails, "breakdown(restored graph)", {**inp, "graph": gi}, _snapshot, back)
                        n += 1
                        diff = [k for k in wants[gi] if got[k] != wants[gi][k]]
                        if diff:
                            fails.append({"what": "each_archive_restores_its_own_graph", "input": {**inp, "graph": gi, "archives": zips}, "observed": {k: str(got[k])[:300] for k in diff[:3]},
                                          "expected": {k: str(wants[gi][k])[:300] for k in diff[:3]}})
                            break
                # history: the same directory name is used for every save (second graph overwrites the first)
                out_dir = os.path.join(work, "cp")
                for gi, g in enumerate(graphs):
                    cur = g
                    want = _snapshot(g)
                    for cycle in range(1 + abs(seed) % 3):
                        z = rt.lib(fails, "save", inp, cur.save, out_dir)
                        extracted.append(os.path.join("/tmp", out_dir.lstrip("/")))
                        cur = rt.lib(fails, "restore_cpgraph", inp, restore_cpgraph, z, ta.t, 0)
                        got = rt.lib(fails, "breakdown(restored graph)", {**inp, "graph": gi, "cycle": cycle}, _snapshot, cur)
                        n += 1
                        diff = [k for k in want if got[k] != want[k]]
                        if diff:
                            fails.append({"what": "restored_graph_identical", "input": {**inp, "graph": gi, "cycle": cycle}, "observed": {k: str(got[k])[:300] for k in diff[:3]},
                                          "expected": {k: str(want[k])[:300] for k in diff[:3]}})
                            break
                        w0 = _path_weight(cur)
                        ok2 = rt.lib(fails, "critical_path(restored)", inp, cur.critical_path)
                        if not ok2 or _path_weight(cur) != w0:
                            fails.append({"what": "recomputed_path_same_weight", "input": {**inp, "graph": gi, "cycle": cycle}, "observed": _path_weight(cur), "expected": w0})
                            break
                    # the restored graph supports the what-if workflow: make another path the longest one and recompute
                    import random as _r
                    from contracts import C09
                    rng = _r.Random(seed)
                    off = [(u, v) for u, v in cur.edges if (int(u), int(v)) not in {(int(e.begin), int(e.end)) for e in cur.critical_path_edges_set}]
                    if off:
                        u, v = rng.choice(off)
                        cur.edges[u, v]["weight"] = 10_000
                        try:
                            if rt.lib(fails, "critical_path(restored, re-weighted)", {**inp, "graph": gi, "reweighted": (int(u), int(v))}, cur.critical_path):
                                C09.check_path(cur, fails, {**inp, "graph": gi, "reweighted": (int(u), int(v))}, what_prefix="restored_whatif.")
                        except rt.LibFailure:
                            pass
            except rt.LibFailure:
                pass
    finally:
        shutil.rmtree(work, ignore_errors=True)
        for p in set(extracted):
            shutil.rmtree(os.path.dirname(p) if os.path.basename(os.path.dirname(p)).startswith("hv_c19_") else p, ignore_errors=True)
        # the extraction root /tmp/tmp/hv_c19_* (saved absolute path re-rooted under /tmp)
        base = os.path.join("/tmp", work.lstrip("/"))
        shutil.rmtree(base, ignore_errors=True)
    return {"n_checks": max(n, 1), "fails": fails, "nontrivial": n > 0, "sample": {"seed": seed, "cycles": 1 + seed % 3}}


def bounded(ctx):
    from hv import rt

    n = 24 if not ctx.thorough else 300
    res = rt.pmap(_case, [ctx.seed * 83 + i for i in range(n)] + [-k for k in range(1, 5)] + [-100, -101, -102, -200, -201, -202], ctx.procs)  # negative: crafted traces (Python frame on the path; over-running child under the strict option, 1-3 cycles)
    return rt.summarise(res, f"{PROP}.bounded", f"{n} traces x up to two analysed windows, each saved and restored 1-3 times under ONE directory name (so later saves overwrite earlier "
                        "ones and earlier extractions exist); equal-weight alternative paths occur (two streams feeding one synchronisation)")


def units(ctx):
    from contracts import C09

    # "recomputing the critical path on the restored graph": critical_path() under contract for ARBITRARY stale
    # critical_path_nodes / events / edges sets (whatever save/restore carried over), see contracts/C09.py
    return [core.Unit(f"{PROP}.correspondence", correspondence_vcs, [CPA + ".CPGraph.save", CPA + ".restore_cpgraph"]),
            core.Unit(f"{PROP}.recompute", lambda: C09.critical_path_exec_vcs(PROP), [CPA + ".CPGraph.critical_path"])]


SPEC = Spec(
    prop=PROP, level="other",
    functions=[(CPA, "CPGraph.save"), (CPA, "restore_cpgraph"), (CPA, "_CPGraphData"), (CPA, "CPGraph.critical_path")],
    units=units, bounded=[Bounded("restore_vs_original", bounded)],
    trusted=["pickle.load(pickle.dump(x)) = x; nx.node_link_graph(nx.node_link_data(G)) is isomorphic to G incl. edge attributes; read_csv(to_csv(df)) equals df on the columns the "
             "breakdown reads (strings such as 'NA' / 'nan' read back as NaN are NOT covered); zip extraction restores the written bytes"],
    explanation="Mostly bounded: the deductive part only states the field / file correspondence between save and restore; identity of the restored graph, of the recomputed path weight "
                "and of the breakdown (compared as a multiset of rows: the row order comes from iterating a set) is checked by running the real code.",
)
