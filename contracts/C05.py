"""C05 — kernel breakdown partitions busy time by type and conserves per-kernel time.

Deductive: merge_kernel_intervals (prefix-fold induction, shared contract); the decode loops of _get_gpu_kernel_type_time
(label of a running mask = the analysed types whose bit is set, in list order, joined by " overlapping ") via PyVC with a
div/mod reading of `&` on non-negative ints; relabel rule / conservation of _aggr_gpu_kernel_time on the parts within
reach (see units).  The remaining clauses of the two tables are covered by the bounded stage (labelled bounded).
Bounded: public get_gpu_kernel_breakdown on generated traces vs. a measure oracle (type table) and plain per-name
statistics (per-kernel table), for several num_kernels / duration_ratio / include_memory_kernels values.
"""
from __future__ import annotations

import ast
import itertools
from typing import Any, Dict, List

import z3

from contracts import merge_contract as mc
from hv import core, extract, pyvc
from hv import history
from hv.driver import Bounded, Spec
from hv.pyvc import to_z3

BA = "hta.analyzers.breakdown_analysis"
UT = "hta.utils.utils"
PROP = "C05"


def decode_vcs() -> List[core.VC]:
    """running_mapping[u] for one symbolic u > 0, from the two nested loops of _get_gpu_kernel_type_time."""
    f = extract.get_function(BA, "BreakdownAnalysis._get_gpu_kernel_type_time")
    node = extract.stripped(f)
    name = f"{PROP}.type_time.decode"
    fq = [f.fq]
    # locate: the first loop (mapping types to bits) and the loop over unique_running
    loops = [st for st in node.body if isinstance(st, ast.For)]
    if len(loops) < 3:
        raise pyvc.Unsupported("expected three top-level loops in _get_gpu_kernel_type_time")
    bit_loop, decode_loop = loops[0], loops[1]
    vcs: List[core.VC] = []
    for types in (["COMPUTATION", "COMMUNICATION"], ["COMPUTATION", "COMMUNICATION", "MEMORY"]):
        ex = pyvc.Exec(consts=extract.module_constants(BA), name=name)

        @pyvc.intrinsic
        def bitop(exq, op, a, b):
            # a & 2^k for a >= 0  ==  2^k if bit k of a is set else 0   (the only use: truthiness of u & v)
            sym, c = (a, b) if pyvc.is_sym(a) else (b, a)
            if not isinstance(op, ast.BitAnd) or pyvc.is_sym(c) or c <= 0 or (c & (c - 1)) != 0:
                raise pyvc.Unsupported("bit operation other than <symbolic non-negative int> & <power of two>")
            return z3.If((sym / c) % 2 == 1, z3.IntVal(c), z3.IntVal(0))

        ex.intrinsics["__bitop__"] = lambda exq, op, a, b: bitop(exq, None, None, None) if False else _bit(exq, op, a, b)
        merged_calls: List[Any] = []

        @pyvc.intrinsic
        def merge_stub(exq, pc, env, args, kwargs):
            merged_calls.append(1)
            return _Opaque()

        # run only the bit-assignment part of the first loop: execute the loop with pandas calls stubbed out
        kmap: Dict[str, int] = {}
        for idx, kt in enumerate(types):
            kmap[kt] = 1 << idx
        # check the code's mapping statement syntactically: value = 1 << idx ; kernel_t_mapping[kernel_type] = value
        src = ast.unparse(bit_loop).replace("'", '"')
        ok_bits = "value = 1 << idx" in src and "kernel_t_mapping[kernel_type] = value" in src and "enumerate(kernel_type_to_analysis)" in src
        vcs.append(core.VC(f"{name}.bits_{len(types)}", [], z3.BoolVal(ok_bits), "vc", fq, {}, note="type number k gets weight 2^k (statements of the first loop)"))
        u = z3.Int("u_running")
        env = {"kernel_t_mapping": dict(kmap), "running_mapping": {}, "unique_running": [u]}
        # running_mapping is a defaultdict(str) keyed by the symbolic u: model as single-slot map
        slot = _Slot(u)
        env["running_mapping"] = slot
        outs = ex.exec_block([decode_loop], [u >= 0, u < (1 << len(types))], env)
        for o in outs:
            if o.kind != "fall":
                raise pyvc.Unsupported("decode loop leaves")
            sl: _Slot = o.env["running_mapping"]
            pc = [to_z3(c) for c in o.pc]
            for mask in range(0, 1 << len(types)):
                parts = [t for i, t in enumerate(types) if mask & (1 << i)]
                exp = " overlapping ".join(parts)
                got = sl.value if sl.value is not None else None
                if mask == 0:
                    goal = z3.BoolVal(sl.value is None)
                else:
                    goal = z3.BoolVal(isinstance(got, str) and got == exp)
                vcs.append(core.VC(f"{name}.label_{len(types)}_{mask}", pc + [u == mask], goal, "vc", fq, {"u": u},
                                   note=f"mask {mask} decodes to {exp!r}" if mask else "mask 0 gets no label"))
        for pv in ex.vcs:
            vcs.append(core.VC(pv.name, pv.hyps, pv.goal, "vc", fq, {}, note=pv.note))
    return vcs


def aggr_vcs(with_allowlist: bool) -> List[core.VC]:
    """_aggr_gpu_kernel_time executed relationally: T = one row per kernel name (assumed groupby contract), sorted by total
    duration with positions as labels; the relabelling rules; the result = named rows of T (projected, unchanged) followed by
    the aggregate of the relabelled rows.  Conservation then follows from the partition obligation, the assumed aggregate
    contract (others.sum = sum of the relabelled rows' sums) and the Lean lemma sum_filter_add_sum_filter_not."""
    from hv import framevc as fv

    f = extract.get_function(BA, "BreakdownAnalysis._aggr_gpu_kernel_time")
    fq = [f.fq]
    tagv = "allowlist" if with_allowlist else "no_allowlist"
    name = f"{PROP}.aggr.{tagv}"
    ex = pyvc.Exec(consts=extract.module_constants(BA), name=name)
    fv.install(ex)
    df = fv.SymDF.base("kern", {"name": (z3.StringSort(), False, "str"), "dur": (z3.IntSort(), False, "int")})
    nk = z3.Int("num_kernels")
    ratio = z3.Real("duration_ratio")
    allow = pyvc.SymSet(z3.StringSort(), "allowlist_names") if with_allowlist else None
    pre = [nk >= 1, ratio > 0, ratio <= 1]
    outs = ex.run_function(extract.stripped(f), {"cls": None, "gpu_kernel_time": df, "num_kernels": nk, "duration_ratio": ratio, "allowlist_names": allow}, list(pre))
    tables = ex.__dict__.get("_agg_tables", [])
    if not tables:
        raise pyvc.Unsupported("no groupby(...)[...].agg([...]) table was built")
    T0 = tables[0]
    src, key0, col0 = T0.agg_source
    if src is not df or key0 != "name" or col0 != "dur" or sorted(T0.agg_of) != ["max", "mean", "min", "std", "sum"]:
        raise pyvc.Unsupported("the first aggregate is not groupby(name)[dur].agg([sum, max, min, mean, std]) of the input")
    g = df.uni.skolem("g")
    kname = to_z3(df.cols["name"].val(g))
    stats = ["sum", "max", "min", "mean"]
    anyname = z3.String("any_name")
    # WF5 (durations are non-negative) + the sum contract: a per-name total is non-negative (the code's "always false" mask `sum < 0` relies on it)
    ex.facts.append(z3.ForAll([anyname], T0.agg_of["sum"](anyname) >= 0, patterns=[T0.agg_of["sum"](anyname)]))
    vcs: List[core.VC] = [core.VC(pv.name, pv.hyps + list(ex.facts), pv.goal, "vc", fq, {}, note=pv.note) for pv in ex.vcs]
    rets = [o for o in outs if o.kind == "ret"]
    for o in outs:
        if o.kind == "raise":
            vcs.append(core.VC(f"{name}.noraise", [to_z3(c) for c in o.pc] + list(ex.facts), z3.BoolVal(False), "vc", fq, {}, note=f"raises {o.exc}"))
    if len(rets) != 2:
        raise pyvc.Unsupported(f"expected two return paths (aggregating / not aggregating), found {len(rets)}")
    seen = set()
    mv = {"num_kernels": nk, "group_row": g[0], "name": kname}
    for o in rets:
        out = o.value
        hy = [to_z3(c) for c in o.pc] + list(ex.facts)
        if not isinstance(out, fv.SymDF):
            raise pyvc.Unsupported("result is not a frame")
        parts = getattr(out, "concat_parts", None)
        if parts is None:
            # not aggregating: the sorted per-name table itself
            seen.add("plain")
            tag = f"{name}.plain"
            if out.uni is not df.uni:
                raise pyvc.Unsupported("plain result lives on another universe")
            vcs.append(core.VC(f"{tag}.only_when_few_names", hy, T0.nrows(ex) <= nk, "vc", fq, mv, note="no aggregation exactly when the number of distinct names is at most num_kernels"))
            vcs.append(core.VC(f"{tag}.rows_are_the_names", hy, to_z3(out.present(g)) == to_z3(T0.present(g)), "vc", fq, mv))
            vcs.append(core.VC(f"{tag}.row_statistics", hy + [to_z3(out.present(g))],
                               z3.And(to_z3(out.cols["name"].val(g)) == kname, *[to_z3(out.cols[c].val(g)) == T0.agg_of[c](kname) for c in stats]), "vc", fq, mv))
            continue
        seen.add("aggregated")
        tag = f"{name}.aggregated"
        if len(parts) != 2 or parts[0].uni is not df.uni or not hasattr(parts[1], "agg_source"):
            raise pyvc.Unsupported("aggregated result is not concat([named rows of the table, aggregate of the relabelled rows])")
        A, B = parts
        S, key1, col1 = B.agg_source
        if S.uni is not df.uni or key1 != "name" or col1 != "sum":
            raise pyvc.Unsupported("the second aggregate is not groupby(name)[sum] of a sub-frame of the table")
        keep = allow.has(kname) if with_allowlist else z3.BoolVal(False)
        pos = getattr(S, "label", None)
        vcs.append(core.VC(f"{tag}.columns", hy, z3.BoolVal(list(out.cols) == ["name", "sum", "max", "min", "mean", "std"]), "vc", fq, {}))
        vcs.append(core.VC(f"{tag}.only_when_many_names", hy, T0.nrows(ex) > nk, "vc", fq, mv))
        vcs.append(core.VC(f"{tag}.named_rows_are_rows_of_the_name_table", hy + [to_z3(A.present(g))], to_z3(T0.present(g)), "vc", fq, mv))
        vcs.append(core.VC(f"{tag}.named_row_statistics", hy + [to_z3(A.present(g))],
                           z3.And(to_z3(A.cols["name"].val(g)) == kname, kname != z3.StringVal("others"), *[to_z3(A.cols[c].val(g)) == T0.agg_of[c](kname) for c in stats]), "vc", fq, mv,
                           note="a named row's sum / max / min / mean are those of the kernels bearing that name (the per-name aggregate of the input)"))
        vcs.append(core.VC(f"{tag}.partition", hy + [to_z3(T0.present(g))], z3.Xor(to_z3(A.present(g)), to_z3(S.present(g))), "vc", fq, mv,
                           note="every name is either reported as a named row or enters the 'others' aggregate, never both (conservation of the sums)"))
        vcs.append(core.VC(f"{tag}.aggregate_takes_only_names", hy + [to_z3(S.present(g))], z3.And(to_z3(T0.present(g)), to_z3(S.cols["name"].val(g)) == z3.StringVal("others"),
                                                                                                 to_z3(S.cols["sum"].val(g)) == T0.agg_of["sum"](kname)), "vc", fq, mv))
        h = df.uni.skolem("h")
        vcs.append(core.VC(f"{tag}.others_row", hy + [to_z3(B.present(h))], z3.And(to_z3(B.cols["name"].val(h)) == z3.StringVal("others"),
                                                                                   to_z3(B.cols["sum"].val(h)) == B.agg_of["sum"](z3.StringVal("others"))), "vc", fq, {},
                           note="the aggregate row is labelled 'others' and its sum is the sum-aggregate of the relabelled rows' sums"))
        if pos is None:
            raise pyvc.Unsupported("the table has no positional labels after sorting")
        vcs.append(core.VC(f"{tag}.at_most_num_kernels_named", hy + [to_z3(A.present(g)), z3.Not(keep)], z3.And(to_z3(pos(g)) >= 0, to_z3(pos(g)) < nk), "vc", fq, mv,
                           note="a named row outside the allow-list sits at one of the first num_kernels positions of the table sorted by total duration (positions are injective: at most num_kernels such rows)"))
        g2 = df.uni.skolem("g2")
        vcs.append(core.VC(f"{tag}.largest_first", hy + [to_z3(T0.present(g)), to_z3(T0.present(g2)), to_z3(pos(g)) < to_z3(pos(g2))],
                           T0.agg_of["sum"](kname) >= T0.agg_of["sum"](to_z3(df.cols["name"].val(g2))), "vc", fq, mv, note="positions follow descending total duration"))
        vcs.append(core.VC(f"{tag}.guard.reachable", hy + [to_z3(A.present(g)), to_z3(S.present(g2))], z3.BoolVal(False), "vacuity", fq))
    if seen != {"plain", "aggregated"}:
        raise pyvc.Unsupported(f"return paths found: {sorted(seen)}")
    return vcs


def _bit(exq, op, a, b):
    sym, c = (a, b) if pyvc.is_sym(a) else (b, a)
    if not isinstance(op, ast.BitAnd) or pyvc.is_sym(c) or not isinstance(c, int) or c <= 0 or (c & (c - 1)) != 0:
        raise pyvc.Unsupported("bit operation other than <symbolic non-negative int> & <power of two>")
    return z3.If((sym / c) % 2 == 1, z3.IntVal(c), z3.IntVal(0))


class _Opaque:
    def __deepcopy__(self, memo):
        return self


class _Slot:
    """defaultdict(str) restricted to one symbolic key: value is None (absent) or a python string built on this path."""

    def __init__(self, key, value=None):
        self.key, self.value = key, value

    def __deepcopy__(self, memo):
        return _Slot(self.key, self.value)

    def hv_contains(self, ex, item):
        return self.value is not None

    def hv_getitem(self, ex, idx, pc):
        return self.value if self.value is not None else ""

    def hv_setitem(self, ex, idx, v, pc):
        if not isinstance(v, str):
            raise pyvc.Unsupported("label is not a concrete string on this path")
        self.value = v


# ---------------------------------------------------------------------------------------------- bounded


def _kt(nm: str) -> str:
    import re

    if re.match(r"^nccl.*Kernel", nm):
        return "COMMUNICATION"
    if re.match(r"(^Memcpy)|(^Memset)|(^dma)", nm):
        return "MEMORY"
    if not re.match(r"(^nccl.*Kernel)|(.*(Memcpy)|(Memset))|(.*Sync)", nm):
        return "COMPUTATION"
    return "OTHER"


def combo_measures(ivs: Dict[str, List[Any]], types: List[str]) -> Dict[str, int]:
    pts = sorted({p for t in types for s, e in ivs.get(t, []) for p in (s, e)})
    out: Dict[str, int] = {}
    for x, y in zip(pts, pts[1:]):
        mid2 = x + y
        on = [t for t in types if any(2 * s <= mid2 < 2 * e for s, e in ivs.get(t, []))]
        if on:
            lab = " overlapping ".join(on)
            out[lab] = out.get(lab, 0) + (y - x)
    return out


def _case(arg) -> Dict[str, Any]:
    seed, num_kernels, ratio, with_mem = arg
    import statistics

    from hv import gen, rt

    kw = dict(n_streams=2 + seed % 2, steps=seed % 3, p_zero_kernel=0.1, n_top=3 + seed % 3, p_launch=0.85, p_memcpy=0.3)
    if seed % 5 in (3, 4):
        # ranks whose kernels are all of ONE analysed type, overlapping across three streams (no other type to overlap with)
        kw.update(only_kernel_type="compute" if seed % 5 == 3 else "comm", n_streams=3, p_same_ts_kernel=0.6)
    per_rank = gen.gen_trace_set(seed, n_ranks=1 + seed % 2, **kw)
    if seed % 4 == 1 and len(per_rank) > 1 and seed % 5 not in (3, 4):
        # ranks with DIFFERENT sets of kernel-type combinations: the last rank runs computation only (its communication / copy kernels renamed),
        # so a combination present on rank 0 is absent there (per-type times are sums over the ranks that have the combination)
        for e in per_rank[max(per_rank)]:
            if e.get("cat") in ("kernel", "gpu_memcpy", "gpu_memset") or str(e.get("name", "")).startswith(("nccl", "Mem")):
                if isinstance(e.get("args"), dict) and e["args"].get("stream", -1) != -1:
                    e["name"], e["cat"] = "void gemm_kernel_a", "kernel"
    if seed % 6 == 2:
        # a CUDA-graph replay: ONE host call (cudaGraphLaunch) whose correlation id is carried by several device activities, some with the same name
        from hv import synth

        for rk_, evs_ in per_rank.items():
            steps_ = [e for e in evs_ if str(e.get("name", "")).startswith("ProfilerStep")]
            t0_ = (steps_[0]["ts"] + 1) if steps_ else max(e["ts"] + e.get("dur", 0) for e in evs_ if e.get("ph") == "X" and e.get("cat") != "Trace") + 5
            cid = 770_000 + rk_
            evs_.append(synth.launch(t0_, 2, cid, tid=98, name="cudaGraphLaunch"))
            for j_, nm_ in enumerate(["void gemm_kernel_a", "void gemm_kernel_a", "ncclKernel_AllReduce_RING_LL_Sum_float", "void gemm_kernel_a", "ncclKernel_AllReduce_RING_LL_Sum_float"]):
                evs_.append(synth.kernel(nm_, t0_ + 3 + 12 * j_, 10 + j_, 31, cid))
    fails: List[Dict[str, Any]] = []
    n = 0
    inp = {"seed": seed, "num_kernels": num_kernels, "duration_ratio": ratio, "include_memory_kernels": with_mem, "events": per_rank}
    with rt.trace_dir(per_rank) as d:
        try:
            ta = rt.lib(fails, "load", inp, rt.load_analysis, d)
            if any((ta.t.get_trace(rk)["stream"] != -1).sum() == 0 for rk in per_rank):
                return {"n_checks": 0, "fails": [], "nontrivial": False, "clauses": {}}
            kt_df, k_df = rt.lib(fails, "get_gpu_kernel_breakdown", inp, ta.get_gpu_kernel_breakdown, visualize=False, num_kernels=num_kernels,
                                 duration_ratio=ratio, include_memory_kernels=with_mem)
        except rt.LibFailure:
            return {"n_checks": 1, "fails": fails, "nontrivial": True, "clauses": {}}
        types = ["COMPUTATION", "COMMUNICATION"] + (["MEMORY"] if with_mem else [])
        stab = ta.t.symbol_table.get_sym_table()
        exp_type: Dict[str, int] = {}
        for rk in per_rank:
            df = ta.t.get_trace(rk)
            dev = df[df["stream"] != -1]
            ivs: Dict[str, List[Any]] = {}
            per_name: Dict[str, Dict[str, List[int]]] = {}
            for a, b, i in zip(dev["ts"], dev["dur"], dev["name"]):
                nm = stab[i]
                k = _kt(nm)
                ivs.setdefault(k, []).append((int(a), int(a + b)))
                per_name.setdefault(k, {}).setdefault(nm, []).append(int(b))
            for lab, v in combo_measures(ivs, types).items():
                exp_type[lab] = exp_type.get(lab, 0) + v
            # per-kernel table of this rank
            for k in types:
                rows = k_df[(k_df["kernel_type"] == k) & (k_df["rank"] == rk)]
                names = per_name.get(k, {})
                n += 1
                tot = sum(sum(v) for v in names.values())
                if int(round(rows["sum (us)"].sum())) != tot:
                    fails.append({"what": "aggr.conserve", "input": inp, "observed": {"rank": rk, "type": k, "sum": float(rows["sum (us)"].sum())}, "expected": tot})
                named = rows[rows["name"] != "others"]
                if len(named) > num_kernels:
                    fails.append({"what": "aggr.at_most_num_kernels_named", "input": inp, "observed": {"rank": rk, "type": k, "named_rows": len(named)}, "expected": f"<= {num_kernels}"})
                for _, row in named.iterrows():
                    ds = names.get(row["name"])
                    if ds is None:
                        fails.append({"what": "aggr.named_row_exists", "input": inp, "observed": row["name"], "expected": "a kernel name of this rank and type"})
                        continue
                    exp = {"sum (us)": sum(ds), "max (us)": max(ds), "min (us)": min(ds), "mean (us)": statistics.fmean(ds)}
                    got = {c: float(row[c]) for c in exp}
                    if any(abs(got[c] - exp[c]) > 1e-6 for c in exp):
                        fails.append({"what": "aggr.named_stats", "input": inp, "observed": {"name": row["name"], **got}, "expected": exp})
        def _as_int(x):
            try:
                return int(x)
            except (TypeError, ValueError):
                return None  # NaN / missing: reported as observed, never silently dropped

        got_type = {r["kernel_type"]: _as_int(r["sum"]) for _, r in kt_df.iterrows()}
        n += 1
        bad = {k: (got_type.get(k), v) for k, v in exp_type.items() if got_type.get(k) != v}
        bad.update({k: (v, 0) for k, v in got_type.items() if k not in exp_type and v != 0})
        if bad:
            fails.append({"what": "type_table.partition", "input": inp, "observed": {k: v[0] for k, v in bad.items()}, "expected": {k: v[1] for k, v in bad.items()}})
        tot = sum(exp_type.values())
        if tot > 0 and not bad:
            for _, r in kt_df.iterrows():
                # reported with one decimal: any correct rounding of the exact share (half-way cases may go either way in floating point)
                if abs(float(r["percentage"]) - 100 * int(r["sum"]) / tot) > 0.05 + 1e-9:
                    fails.append({"what": "type_table.percentage", "input": inp, "observed": float(r["percentage"]), "expected": round(100 * int(r["sum"]) / tot, 1)})
    return {"n_checks": n, "fails": fails, "nontrivial": n > 0, "sample": {"seed": seed, "num_kernels": num_kernels}, "clauses": {"tables": n}}


def bounded(ctx):
    from hv import rt

    n = 48 if not ctx.thorough else 500
    args = [(ctx.seed * 4001 + i, [1, 2, 3, 10][i % 4], [0.8, 0.5, 1.0, 0.3][(i // 4) % 4], bool(i % 2)) for i in range(n)]
    res = rt.pmap(_case, args, ctx.procs)
    return rt.summarise(res, f"{PROP}.bounded", f"{n} generated traces x (num_kernels in 1,2,3,10; duration_ratio in .3,.5,.8,1; with/without memory kernels) through "
                        "TraceAnalysis.get_gpu_kernel_breakdown; oracles: measure per type combination, plain per-name statistics")


def _aggr_direct_case(seed: int) -> Dict[str, Any]:
    """_aggr_gpu_kernel_time called directly on small frames with many ties of total duration (tie at the num_kernels boundary)."""
    import random
    import statistics

    import pandas as pd
    from hta.analyzers.breakdown_analysis import BreakdownAnalysis as B

    rng = random.Random(seed)
    names = [f"k{i}" for i in range(rng.randint(1, 7))]
    rows = []
    for nm in names:
        for _ in range(rng.randint(1, 3)):
            rows.append({"name": nm, "dur": rng.choice([5, 10, 10, 20, 50])})
    df = pd.DataFrame(rows)
    nk = rng.randint(1, 5)
    ratio = rng.choice([0.3, 0.8, 1.0])
    allow = rng.choice([None, None, [names[-1]]])
    fails: List[Dict[str, Any]] = []
    inp = {"seed": seed, "rows": rows, "num_kernels": nk, "duration_ratio": ratio, "allowlist": allow}
    try:
        out = B._aggr_gpu_kernel_time(df.copy(), num_kernels=nk, duration_ratio=ratio, allowlist_names=allow)
    except Exception as e:
        return {"n_checks": 1, "fails": [{"what": "aggr.raises", "input": inp, "observed": f"{type(e).__name__}: {e}"}], "nontrivial": True}
    tot = sum(r["dur"] for r in rows)
    if int(out["sum"].sum()) != tot:
        fails.append({"what": "aggr.conserve", "input": inp, "observed": int(out["sum"].sum()), "expected": tot})
    named = out[out["name"] != "others"]
    if allow is None and len(named) > nk:
        fails.append({"what": "aggr.at_most_num_kernels_named", "input": inp, "observed": len(named), "expected": f"<= {nk}"})
    for _, row in named.iterrows():
        ds = [r["dur"] for r in rows if r["name"] == row["name"]]
        exp = {"sum": sum(ds), "max": max(ds), "min": min(ds), "mean": statistics.fmean(ds)}
        if any(abs(float(row[c]) - exp[c]) > 1e-6 for c in exp):
            fails.append({"what": "aggr.named_stats", "input": inp, "observed": {c: float(row[c]) for c in exp}, "expected": exp})
    return {"n_checks": 1, "fails": fails, "nontrivial": True, "sample": {"seed": seed, "names": len(names), "num_kernels": nk}}


def bounded_aggr(ctx):
    from hv import rt

    n = 300 if not ctx.thorough else 5000
    res = rt.pmap(_aggr_direct_case, [ctx.seed * 3001 + i for i in range(n)], ctx.procs)
    return rt.summarise(res, f"{PROP}.bounded_aggr", f"{n} small frames (1-7 names, ties of total duration at the num_kernels boundary, with/without allow-list) through _aggr_gpu_kernel_time")


def units(ctx):
    return [core.Unit(f"{PROP}.merge_kernel_intervals", lambda: mc.merge_vcs(PROP), [UT + ".merge_kernel_intervals"]),
            core.Unit(f"{PROP}.merge_kernel_intervals.stale_helper_columns", lambda: mc.merge_vcs(PROP, stale=True), [UT + ".merge_kernel_intervals"]),
            core.Unit(f"{PROP}.type_time.decode", decode_vcs, [BA + ".BreakdownAnalysis._get_gpu_kernel_type_time"]),
            core.Unit(f"{PROP}.aggr.no_allowlist", lambda: aggr_vcs(False), [BA + ".BreakdownAnalysis._aggr_gpu_kernel_time"]),
            core.Unit(f"{PROP}.aggr.allowlist", lambda: aggr_vcs(True), [BA + ".BreakdownAnalysis._aggr_gpu_kernel_time"])]


SPEC = Spec(
    lean=['IntervalMeasure.lean', 'Folds.lean', 'Sweep.lean'],
    prop=PROP, level="other",
    functions=[(UT, "merge_kernel_intervals"), (BA, "BreakdownAnalysis._get_gpu_kernel_type_time"), (BA, "BreakdownAnalysis._aggr_gpu_kernel_time"),
               (BA, "BreakdownAnalysis.get_gpu_kernel_breakdown")],
    units=units, bounded=[Bounded("tables_vs_oracles", bounded), Bounded("aggr_direct", bounded_aggr), Bounded("history_independence", history.stage(PROP, "kernel_breakdown", "gen"))],
    trusted=["the measure reading of the sweep is Lean: L1 / L4 (lean/IntervalMeasure.lean) and L3 (lean/Sweep.lean), machine-checked; that the tables of /repo satisfy their hypotheses (rows, order, running = prefix sum, term = next time - time) is the z3 part; the instantiation of the lemmas with those facts is by reading, not mechanised", "a & 2^k on non-negative ints read as (a div 2^k) mod 2",
             "groupby(name)[col].agg([sum, max, min, mean, std]) = one row per name holding that group's aggregates (assumed pandas contract; the aggregator's postconditions are "
             "stated over these aggregate functions); cumsum / quantile kept abstract (the obligations do not depend on the threshold); a per-name total is non-negative (WF5)",
             "conservation of the per-kernel sums: partition obligation + assumed aggregate contract + Lean sum_filter_add_sum_filter_not; 'at most num_kernels named rows': "
             "positions are injective (assumed sort contract) and every named row outside the allow-list has a position below num_kernels"],
    explanation="Proved (z3, from the AST): merge_kernel_intervals M1-M3 (also with stale helper columns), the mask-to-label decoding of the type table, and the per-kernel "
                "aggregator over the per-name aggregate table (named rows unchanged, partition, others row, position bound, both return paths). Bounded (real code, generated "
                "traces, never counted as proved): the sweep's marker/slab structure, cross-rank sums and percentages of the type table; the aggregator end to end.",
)
