"""C09 — the reported critical path is a maximum-weight path of the graph.

Deductive part (thin, see explanation): CPGraph.critical_path validates first and raises on an invalid graph; the path comes
from nx.dag_longest_path over the CURRENT `weight` attribute on every call (no caching); the event set is taken from ALL
path nodes; the edge set is reset and rebuilt from consecutive node pairs; makespan bound by telescoping (z3): along a path
whose edges all satisfy 0 <= w <= ts(dest) - ts(src), the total weight is at most ts(last) - ts(first).
Optimality itself is the ASSUMED contract of networkx.dag_longest_path.  Bounded: independent longest-path DP on the real
graphs of generated traces, also after re-weighting edges and recomputing (the what-if workflow).
"""
from __future__ import annotations

import ast
import random
from typing import Any, Dict, List

import z3

from contracts import cp_common as cc
from hv import core, extract, pyvc
from hv.driver import Bounded, Spec

CPA = cc.CPA
PROP = "C09"


def structure_vcs() -> List[core.VC]:
    f = extract.get_function(CPA, "CPGraph.critical_path")
    node = extract.stripped(f)
    src = ast.unparse(node).replace("'", '"')
    lines = [l.strip() for l in src.splitlines()]
    want = ["if not self._validate_graph():", 'self.critical_path_nodes = nx.dag_longest_path(self, weight="weight")',
            "self.critical_path_events_set = {self.node_list[nid].ev_idx for nid in self.critical_path_nodes}", "self.critical_path_edges_set = set()",
            "niter = iter(self.critical_path_nodes)", "u = next(niter)", "v = next(niter)", 'e = self.edges[u, v]["object"]', "self.critical_path_edges_set.add(e)", "u = v",
            "assert len(self.critical_path_edges_set) == len(self.critical_path_nodes) - 1"]
    pos = [lines.index(w) if w in lines else -1 for w in want]
    if -1 in pos:
        raise pyvc.Unsupported("critical_path no longer matches the contract's reading: " + "; ".join(w for w, p in zip(want, pos) if p == -1))
    vcs = [core.VC(f"{PROP}.critical_path.statement_order", [], z3.BoolVal(pos == sorted(pos)), "vc", [f.fq], {},
                   note="validate -> longest path over the current weights -> event set of all path nodes -> edge set reset and rebuilt from consecutive pairs")]
    # no caching of the path between calls: the only assignment to critical_path_nodes is the dag_longest_path call, inside the method
    _, tree = extract.load_module(CPA)
    cached = [n for n in ast.walk(tree) if isinstance(n, ast.FunctionDef) and any(isinstance(d, ast.Name) and d.id in ("cached_property", "lru_cache", "cache") or
                                                                                  (isinstance(d, ast.Call) and isinstance(d.func, ast.Name) and d.func.id in ("lru_cache", "cache"))
                                                                                  for d in n.decorator_list)]
    uses = [n.name for n in cached if any(isinstance(c, ast.Attribute) and c.attr == "dag_longest_path" for c in ast.walk(n))]
    vcs.append(core.VC(f"{PROP}.critical_path.recomputed_on_every_call", [], z3.BoolVal(not uses), "vc", [f.fq], {},
                       note=f"no cached function wraps dag_longest_path (cached functions using it: {uses}); the what-if workflow recomputes on re-weighted graphs"))
    return vcs


def makespan_vcs() -> List[core.VC]:
    """telescoping step: if the prefix weight is <= ts(cur) - ts(first) and the next edge weighs 0 <= w <= ts(next) - ts(cur), the bound carries over."""
    W, w, t0, tc, tn = z3.Ints("prefix_weight edge_weight ts_first ts_cur ts_next")
    return [core.VC(f"{PROP}.makespan.telescoping_step", [W <= tc - t0, w >= 0, w <= tn - tc], z3.And(W + w <= tn - t0, W + w >= W), "vc", [CPA + ".CPGraph.critical_path"],
                    {"prefix": W, "w": w}, note="with C08 (every edge: 0 <= weight <= time difference, forward in time) the path weight never exceeds last.ts - first.ts <= window makespan"),
            core.VC(f"{PROP}.makespan.base", [], z3.IntVal(0) <= tc - tc, "vc", [CPA + ".CPGraph.critical_path"], {})]


# ---------------------------------------------------------------------------------------------- bounded


def check_path(g, fails, inp, what_prefix="") -> None:
    facts = cc.graph_facts(g)
    nodes, edges = facts["nodes"], facts["edges"]
    path = [int(x) for x in g.critical_path_nodes]

    def bad(what, obs, exp=None):
        fails.append({"what": what_prefix + what, "input": inp, "observed": obs, "expected": exp})

    emap = {(e["u"], e["v"]): e for e in edges}
    if any((a, b) not in emap for a, b in zip(path, path[1:])):
        bad("path_is_connected_sequence_of_edges", path)
        return
    w_path = sum(emap[(a, b)]["w_attr"] for a, b in zip(path, path[1:]))
    best = cc.longest_path_weight(list(nodes), [(e["u"], e["v"], e["w_attr"]) for e in edges])
    if w_path != best:
        bad("path_weight_is_maximum", w_path, best)
    span = max(n["ts"] for n in nodes.values()) - min(n["ts"] for n in nodes.values())
    if not what_prefix and w_path > span:
        bad("path_weight_within_makespan", w_path, span)
    exp_events = {nodes[n]["ev"] for n in path}
    if {int(x) for x in g.critical_path_events_set} != exp_events:
        bad("critical_events_are_the_path_events", sorted(int(x) for x in g.critical_path_events_set), sorted(exp_events))
    got_edges = {(int(e.begin), int(e.end)) for e in g.critical_path_edges_set}
    if got_edges != set(zip(path, path[1:])):
        bad("critical_edges_are_the_path_edges", sorted(got_edges), list(zip(path, path[1:])))


def _case(seed: int) -> Dict[str, Any]:
    from hv import cpgen, rt

    rng = random.Random(seed)
    evs = cpgen.gen_cp_events(seed, n_steps=3, n_streams=1 + seed % 3, annotations=bool(seed % 2))
    inst = 0 if seed % 2 else (0, 1)
    fails: List[Dict[str, Any]] = []
    inp = {"seed": seed, "instance_id": inst, "events": {0: evs}}
    n = 0
    with rt.trace_dir({0: evs}) as d:
        try:
            ta = rt.lib(fails, "load", inp, rt.load_analysis, d)
            g, success = ta.critical_path_analysis(rank=0, annotation="ProfilerStep", instance_id=inst)
        except rt.LibFailure:
            return {"n_checks": 1, "fails": fails, "nontrivial": True}
        except AssertionError:
            return {"n_checks": 0, "fails": [], "nontrivial": False, "sample": {"seed": seed, "skipped": "degenerate window (see C08)"}}
        if not success:
            return {"n_checks": 0, "fails": [], "nontrivial": False}
        check_path(g, fails, inp)
        n += 1
        # what-if: re-weight some edges of the same graph object and recompute, twice
        for round_ in range(2):
            changed = []
            for u, v in list(g.edges):
                if rng.random() < 0.3:
                    neww = rng.choice([0, 1, 50, 500])
                    g.edges[u, v]["weight"] = neww
                    changed.append((int(u), int(v), neww))
            try:
                ok = rt.lib(fails, "critical_path(recompute)", {**inp, "reweighted": changed[:10]}, g.critical_path)
            except rt.LibFailure:
                break
            if ok:
                check_path(g, fails, {**inp, "reweighted": changed[:10], "round": round_}, what_prefix="whatif.")
                n += 1
    return {"n_checks": n, "fails": fails, "nontrivial": n > 0, "sample": {"seed": seed}}


def bounded(ctx):
    from hv import rt

    n = 40 if not ctx.thorough else 500
    res = rt.pmap(_case, [ctx.seed * 97 + i for i in range(n)], ctx.procs)
    return rt.summarise(res, f"{PROP}.bounded", f"{n} graphs built by the real analysis from generated causally consistent traces; independent longest-path DP; two rounds of random re-weighting "
                        "(0 / 1 / 50 / 500 on ~30% of the edges) with recomputation on the same graph object")


def units(ctx):
    return [core.Unit(f"{PROP}.structure", structure_vcs, [CPA + ".CPGraph.critical_path"]), core.Unit(f"{PROP}.makespan", makespan_vcs, [CPA + ".CPGraph.critical_path"])]


SPEC = Spec(
    prop=PROP, level="other",
    functions=[(CPA, "CPGraph.critical_path"), (CPA, "CPGraph._validate_graph")],
    units=units, bounded=[Bounded("path_vs_independent_dp", bounded)],
    trusted=["networkx.dag_longest_path returns a maximum-weight path of a DAG for the current edge attribute `weight` (assumed dependency contract; cross-checked by the bounded stage)",
             "try/except StopIteration and iter()/next() are outside the PyVC subset: the walk over the path is matched statement by statement"],
    explanation="The optimality clause is a contract of the dependency (assumed); what is proved is only the telescoping makespan step and, by statement correspondence, the order of "
                "validate / compute / rebuild and the absence of caching. Everything else is bounded: the real path is compared with an independent DP, also after re-weighting.",
)
