"""C09 — the reported critical path is a maximum-weight path of the graph.

Deductive part: CPGraph.critical_path is executed by PyVC on every run (try/except, iter()/next() and the `while 1` walk with
an inductive invariant and a termination measure): it raises exactly on an invalid graph, returns False exactly when
dag_longest_path fails, and on success stores the path returned by nx.dag_longest_path(self, weight="weight") of THIS call,
the event set {ev_idx of every path node}, and an edge set that is reset and equals {edge object of every consecutive pair}
with len(nodes) - 1 elements; makespan bound by telescoping (z3): along a path whose edges all satisfy
0 <= w <= ts(dest) - ts(src), the total weight is at most ts(last) - ts(first).
Optimality itself is the ASSUMED contract of networkx.dag_longest_path (simple path of maximum weight over the current attribute).  Bounded: independent longest-path DP on the real
graphs of generated traces, also after re-weighting edges and recomputing (the what-if workflow).
"""
from __future__ import annotations

import ast
import os
import random
from typing import Any, Dict, List

import z3

from contracts import cp_common as cc
from hv import core, extract, pyvc
from hv import history
from hv.driver import Bounded, Spec

CPA = cc.CPA
PROP = "C09"


def structure_vcs() -> List[core.VC]:
    f = extract.get_function(CPA, "CPGraph.critical_path")
    vcs: List[core.VC] = []
    # no caching of the path between calls: the only assignment to critical_path_nodes is the dag_longest_path call, inside the method
    _, tree = extract.load_module(CPA)
    cached = [n for n in ast.walk(tree) if isinstance(n, ast.FunctionDef) and any(isinstance(d, ast.Name) and d.id in ("cached_property", "lru_cache", "cache") or
                                                                                  (isinstance(d, ast.Call) and isinstance(d.func, ast.Name) and d.func.id in ("lru_cache", "cache"))
                                                                                  for d in n.decorator_list)]
    uses = [n.name for n in cached if any(isinstance(c, ast.Attribute) and c.attr == "dag_longest_path" for c in ast.walk(n))]
    if uses:
        raise pyvc.Unsupported(f"a cached function wraps dag_longest_path ({uses}): whether the cache is invalidated by re-weighting is outside this contract")
    # frame condition behind the symbolic execution of critical_path: _validate_graph is used there as a pure predicate.
    # It is: no statement of it writes through an attribute or a subscript (locals only), no mutating method is called on self.*
    fv_ = extract.get_function(CPA, "CPGraph._validate_graph")
    writes = []
    # statements below a test on a NEGATIVE edge weight are unreachable here: C08 proves that no edge object weighs a negative amount
    dead = set()
    for n in ast.walk(fv_.node):
        if isinstance(n, ast.If):
            t = ast.unparse(n.test).replace(" ", "")
            if "e.weight<=-1" in t or "e.weight<-1" in t:
                for st_ in n.body:
                    dead.update(id(x) for x in ast.walk(st_))
    for n in ast.walk(fv_.node):
        if id(n) in dead:
            continue
        tgts = []
        if isinstance(n, ast.Assign):
            tgts = n.targets
        elif isinstance(n, (ast.AugAssign, ast.AnnAssign)):
            tgts = [n.target]
        elif isinstance(n, ast.Delete):
            tgts = n.targets
        for t in tgts:
            for el in (t.elts if isinstance(t, (ast.Tuple, ast.List)) else [t]):
                if not isinstance(el, ast.Name):
                    writes.append(f"L{n.lineno}: {ast.unparse(el)}")
        if isinstance(n, ast.Call) and isinstance(n.func, ast.Attribute) and n.func.attr in ("add", "update", "remove", "pop", "clear", "append", "extend", "setdefault", "add_edge", "remove_edge",
                                                                                              "add_node", "remove_node", "__setitem__") \
                and any(isinstance(x, ast.Name) and x.id == "self" for x in ast.walk(n.func.value)):
            writes.append(f"L{n.lineno}: {ast.unparse(n.func)}(...)")
    if writes:
        raise pyvc.Unsupported("_validate_graph writes to something else than its locals (" + "; ".join(writes[:4]) + "): its use as a pure predicate in the contract of critical_path is not justified")
    vcs.append(core.VC(f"{PROP}.validate_graph.writes_only_locals", [], z3.BoolVal(True), "vc", [fv_.fq], {}, note="frame condition: outside the branches for negative edge weights (unreachable by C08) no attribute / subscript assignment and no mutating call on self.* (AST)"))
    vcs.append(core.VC(f"{PROP}.critical_path.recomputed_on_every_call", [], z3.BoolVal(not uses), "vc", [f.fq], {},
                       note=f"no cached function wraps dag_longest_path (cached functions using it: {uses}); the what-if workflow recomputes on re-weighted graphs"))
    return vcs


# ---------------------------------------------------------------------------------------------- critical_path executed symbolically

EV = z3.Function("ev_idx_of_node", z3.IntSort(), z3.IntSort())
OBJ = z3.Function("edge_object", z3.IntSort(), z3.IntSort(), z3.IntSort())
OBJ_BEGIN = z3.Function("edge_object_begin", z3.IntSort(), z3.IntSort())
OBJ_END = z3.Function("edge_object_end", z3.IntSort(), z3.IntSort())
IS_EDGE = z3.Function("is_edge", z3.IntSort(), z3.IntSort(), z3.BoolSort())


class _Static:
    def __deepcopy__(self, memo):
        return self


class NodeList(_Static):
    def hv_getitem(self, ex, idx, pc):
        return pyvc.Record("CPNode", {"ev_idx": EV(pyvc.to_z3(idx))}, frozen=True)


class EdgeData(_Static):
    def __init__(self, u, v):
        self.u, self.v = u, v

    def hv_getitem(self, ex, idx, pc):
        if idx != "object":
            raise pyvc.Unsupported(f"edge attribute {idx!r}")
        return OBJ(self.u, self.v)


class EdgesView(_Static):
    def hv_getitem(self, ex, idx, pc):
        if not (isinstance(idx, tuple) and len(idx) == 2):
            raise pyvc.Unsupported("self.edges[...] with something else than a node pair")
        u, v = pyvc.to_z3(idx[0]), pyvc.to_z3(idx[1])
        ex.oblige("edges_lookup_is_an_edge", pc, IS_EDGE(u, v), "self.edges[u, v] raises KeyError unless (u, v) is an edge of the graph")
        return EdgeData(u, v)


def _exists_index(lo, hi, body):
    i = z3.Int("wi")
    return z3.Exists([i], z3.And(i >= lo, i < hi, body(i)))


def critical_path_exec_vcs(prop: str = PROP) -> List[core.VC]:
    """CPGraph.critical_path executed by PyVC (try/except, iter/next and the `while 1` walk included), against the assumed
    contract of networkx.dag_longest_path: a simple path (pairwise distinct nodes, consecutive nodes joined by edges)."""
    f = extract.get_function(CPA, "CPGraph.critical_path")
    node = extract.stripped(f)
    fq = [f.fq]
    valid, dag, positive = z3.Bools("graph_is_valid graph_is_acyclic some_edge_has_positive_weight")
    path = pyvc.SymList(z3.IntSort(), "longest_path")
    n = path.length
    i, j = z3.Ints("pi pj")
    calls: List[Any] = []

    @pyvc.intrinsic
    def dag_longest_path(ex, pc, env, args, kwargs):
        calls.append((args, kwargs))
        ok = len(args) == 1 and args[0] is env.get("self") and kwargs == {"weight": "weight"}
        ex.oblige("longest_path_is_taken_over_the_current_weight_attribute", pc, ok, "nx.dag_longest_path(self, weight=\"weight\")")
        return pyvc.PathValues([(dag, path), (z3.Not(dag), pyvc.Raises("NetworkXUnfeasible"))])

    def fresh_like(name, old):
        if name == "self":
            r = pyvc.Record(old.cls, dict(old.fields))
            r.fields["critical_path_edges_set"] = pyvc.SymSet(z3.IntSort(), "edges_set_h")
            return r
        return pyvc.default_fresh_like(name, old)

    def inv(env):
        s = env["self"].fields["critical_path_edges_set"]
        p = env["niter"].pos
        e = z3.Int("ie")
        return z3.And(env["niter"].lst.length == n, env["niter"].lst.arr == path.arr, p >= 1, p <= n, pyvc.to_z3(env["u"]) == path.at(p - 1), s.card == p - 1,
                      z3.ForAll([i], z3.Implies(z3.And(i >= 0, i < p - 1), s.has(OBJ(path.at(i), path.at(i + 1)))), patterns=[OBJ(path.at(i), path.at(i + 1))]),
                      z3.ForAll([e], z3.Implies(s.has(e), z3.And(OBJ_BEGIN(e) >= 0, OBJ_BEGIN(e) < p - 1, e == OBJ(path.at(OBJ_BEGIN(e)), path.at(OBJ_BEGIN(e) + 1)))), patterns=[s.has(e)]))

    # OBJ_BEGIN(e) doubles as the witness index: the contract facts below tie an edge object to the POSITION of its source
    # node on the path (path nodes are pairwise distinct, so the position is a function of the node)
    POS = z3.Function("position_on_path", z3.IntSort(), z3.IntSort())
    facts = [n >= 1, z3.Implies(positive, n >= 2),
             z3.ForAll([i], z3.Implies(z3.And(i >= 0, i < n - 1), IS_EDGE(path.at(i), path.at(i + 1))), patterns=[path.at(i + 1)]),
             z3.ForAll([i], z3.Implies(z3.And(i >= 0, i < n), POS(path.at(i)) == i), patterns=[path.at(i)])]
    u_, v_ = z3.Ints("eu ev")
    obj_fact = z3.ForAll([u_, v_], z3.Implies(IS_EDGE(u_, v_), OBJ_BEGIN(OBJ(u_, v_)) == POS(u_)), patterns=[OBJ(u_, v_)])

    ex = pyvc.Exec(consts={"nx": pyvc.Namespace("nx", {"dag_longest_path": dag_longest_path})}, name=f"{prop}.critical_path",
                   loop_specs={0: pyvc.WhileSpec(["self", "niter", "u"], inv, variant=lambda env: n - env["niter"].pos, fresh_like=fresh_like, name="walk")})
    ex.intrinsics["set"] = lambda ex_, pc, env, args, kwargs: pyvc.SymSet.empty(z3.IntSort()) if not args else (_ for _ in ()).throw(pyvc.Unsupported("set(<iterable>)"))
    ex.methods["CPGraph._validate_graph"] = lambda ex_, pc, env, obj, args, kwargs: valid
    self_ = pyvc.Record("CPGraph", {"node_list": NodeList(), "edges": EdgesView(), "critical_path_nodes": pyvc.SymList(z3.IntSort(), "stale_nodes"),
                                    "critical_path_events_set": pyvc.SymSet(z3.IntSort(), "stale_events"), "critical_path_edges_set": pyvc.SymSet(z3.IntSort(), "stale_edges")})
    outs = ex.run_function(node, {"self": self_}, [positive])
    hyps = facts + [obj_fact] + list(ex.facts)
    vcs = [core.VC(pv.name, hyps + pv.hyps, pv.goal, "vc", fq, {}, note=pv.note) for pv in ex.vcs]
    rets = [o for o in outs if o.kind == "ret"]
    raises = [o for o in outs if o.kind == "raise"]
    shape = (len(calls) >= 1 and len(raises) == 1 and raises[0].exc == "ValueError" and len(rets) >= 2)
    vcs.append(core.VC(f"{prop}.critical_path.outcomes", [], z3.BoolVal(shape), "vc", fq, {}, note=f"outcomes: {[(o.kind, o.exc, str(o.value)) for o in outs]}"))
    for o in raises:
        vcs.append(core.VC(f"{prop}.critical_path.raises_only_on_invalid_graph", hyps + [pyvc.to_z3(c) for c in o.pc], z3.Not(valid), "vc", fq, {"valid": valid}))
    k = 0
    e = z3.Int("qe")
    kk = z3.Int("qk")
    for o in rets:
        pc = hyps + [pyvc.to_z3(c) for c in o.pc]
        val = o.value
        if val is False or (z3.is_expr(val) and z3.is_false(val)):
            vcs.append(core.VC(f"{prop}.critical_path.returns_false_only_when_longest_path_fails", pc, z3.And(valid, z3.Not(dag)), "vc", fq, {}))
            continue
        k += 1
        s = o.env["self"].fields
        tag = f"{prop}.critical_path.success{k if k > 1 else ''}"
        nodes, evs, eds = s["critical_path_nodes"], s["critical_path_events_set"], s["critical_path_edges_set"]
        vcs.append(core.VC(f"{tag}.returns_true_on_valid_dag", pc, z3.And(pyvc.to_z3(val), valid, dag), "vc", fq, {}))
        vcs.append(core.VC(f"{tag}.nodes_are_the_longest_path", pc, z3.And(nodes.length == n, nodes.arr == path.arr), "vc", fq, {}))
        vcs.append(core.VC(f"{tag}.every_path_node_event_is_critical", pc + [i >= 0, i < n], evs.has(EV(path.at(i))), "vc", fq, {"i": i, "n": n}))
        vcs.append(core.VC(f"{tag}.every_critical_event_is_on_the_path", pc + [evs.has(kk)], _exists_index(0, n, lambda w: EV(path.at(w)) == kk), "vc", fq, {"event": kk, "n": n}))
        vcs.append(core.VC(f"{tag}.every_consecutive_pair_edge_is_critical", pc + [i >= 0, i < n - 1], eds.has(OBJ(path.at(i), path.at(i + 1))), "vc", fq, {"i": i, "n": n}))
        vcs.append(core.VC(f"{tag}.every_critical_edge_joins_consecutive_path_nodes", pc + [eds.has(e)], _exists_index(0, n - 1, lambda w: e == OBJ(path.at(w), path.at(w + 1))), "vc", fq, {"edge": e, "n": n}))
        vcs.append(core.VC(f"{tag}.edge_count_is_nodes_minus_one", pc, eds.card == n - 1, "vc", fq, {"n": n, "card": eds.card}))
    # guards: the success path is reachable; the assumed contract is consistent
    vcs.append(core.VC(f"{prop}.critical_path.vacuity", hyps + [valid, dag, n == 3], z3.BoolVal(False), "vacuity", fq, {}))
    for o in rets:
        if not (o.value is False):
            vcs.append(core.VC(f"{prop}.critical_path.success_reachable", hyps + [pyvc.to_z3(c) for c in o.pc] + [n == 3], z3.BoolVal(False), "vacuity", fq, {}))
            break
    return vcs


def makespan_vcs() -> List[core.VC]:
    """telescoping step: if the prefix weight is <= ts(cur) - ts(first) and the next edge weighs 0 <= w <= ts(next) - ts(cur), the bound carries over."""
    W, w, t0, tc, tn = z3.Ints("prefix_weight edge_weight ts_first ts_cur ts_next")
    return [core.VC(f"{PROP}.makespan.telescoping_step", [W <= tc - t0, w >= 0, w <= tn - tc], z3.And(W + w <= tn - t0, W + w >= W), "vc", [CPA + ".CPGraph.critical_path"],
                    {"prefix": W, "w": w}, note="with C08 (every edge: 0 <= weight <= time difference, forward in time) the path weight never exceeds last.ts - first.ts <= window makespan"),
            core.VC(f"{PROP}.makespan.base", [], z3.IntVal(0) <= tc - tc, "vc", [CPA + ".CPGraph.critical_path"], {})]


# ---------------------------------------------------------------------------------------------- bounded


def check_path(g, fails, inp, what_prefix="") -> None:
    facts = cc.graph_facts(g)
    nodes, edges = facts["nodes"], facts["edges"]
    path = [int(x) for x in g.critical_path_nodes]

    def bad(what, obs, exp=None):
        fails.append({"what": what_prefix + what, "input": inp, "observed": obs, "expected": exp})

    emap = {(e["u"], e["v"]): e for e in edges}
    if any((a, b) not in emap for a, b in zip(path, path[1:])):
        bad("path_is_connected_sequence_of_edges", path)
        return
    w_path = sum(emap[(a, b)]["w_attr"] for a, b in zip(path, path[1:]))
    best = cc.longest_path_weight(list(nodes), [(e["u"], e["v"], e["w_attr"]) for e in edges])
    if w_path != best:
        bad("path_weight_is_maximum", w_path, best)
    span = max(n["ts"] for n in nodes.values()) - min(n["ts"] for n in nodes.values())
    if not what_prefix and w_path > span:
        bad("path_weight_within_makespan", w_path, span)
    exp_events = {nodes[n]["ev"] for n in path}
    if {int(x) for x in g.critical_path_events_set} != exp_events:
        bad("critical_events_are_the_path_events", sorted(int(x) for x in g.critical_path_events_set), sorted(exp_events))
    got_edges = {(int(e.begin), int(e.end)) for e in g.critical_path_edges_set}
    if got_edges != set(zip(path, path[1:])):
        bad("critical_edges_are_the_path_edges", sorted(got_edges), list(zip(path, path[1:])))


def _sync_return_tie_events(slack: int, record_first: bool) -> List[Dict[str, Any]]:
    """a blocking stream synchronisation that returns at the very instant (slack 0) the awaited kernel ends, followed by host work:
    the longest path runs launch -> kernel -> synchronisation edge -> the work after the call (a blocking call itself weighs nothing)"""
    from hv import synth

    b = 1_000_000
    evs = [synth.host_op("aten::first_op", b, 5), synth.profiler_step(1, b + 5, 395),
           synth.host_op("aten::add", b + 10, 20), synth.launch(b + 12, 8, 1)]
    k = synth.kernel("void gemm_kernel", b + 30, 170 - slack, 7, 1)
    rec = {"ph": "X", "cat": "cuda_sync", "name": "Stream Sync", "pid": 0, "tid": 7, "ts": b + 40, "dur": 160, "args": {"correlation": 2, "stream": 7}}
    evs += [rec, k] if record_first else [k, rec]
    evs += [synth.launch(b + 40, 160, 2, name="cudaStreamSynchronize"), synth.host_op("aten::relu", b + 205, 100), synth.host_op("aten::mul", b + 310, 60),
            synth.profiler_step(2, b + 400, 20), synth.host_op("aten::sum", b + 402, 10)]
    return evs


def _idle_stream_sync_events(record_first: bool) -> List[Dict[str, Any]]:
    """a stream synchronisation on a stream that has had no activity in the window, returning while a long kernel of ANOTHER stream is still running,
    followed by host work: nothing on the device had to finish for that call, so no path may count the kernel and the host work that overlaps it"""
    from hv import synth

    b = 1_000_000
    evs = [synth.host_op("aten::first_op", b, 5), synth.profiler_step(1, b + 5, 995),
           synth.host_op("aten::add", b + 10, 20), synth.launch(b + 12, 8, 1)]
    k = synth.kernel("void gemm_kernel", b + 30, 600, 7, 1)  # runs until b + 630
    rec = {"ph": "X", "cat": "cuda_sync", "name": "Stream Sync", "pid": 0, "tid": 9, "ts": b + 40, "dur": 10, "args": {"correlation": 2, "stream": 9}}
    evs += [rec, k] if record_first else [k, rec]
    evs += [synth.launch(b + 40, 10, 2, name="cudaStreamSynchronize"), synth.host_op("aten::relu", b + 60, 500), synth.host_op("aten::mul", b + 570, 400),
            synth.profiler_step(2, b + 1000, 20), synth.host_op("aten::sum", b + 1002, 10)]
    return evs


def _case(seed: int) -> Dict[str, Any]:
    from hv import cpgen, rt

    rng = random.Random(seed)
    evs = cpgen.gen_cp_events(abs(seed), n_steps=3, n_streams=1 + seed % 3, annotations=bool(seed % 2), n_threads=2 if seed % 4 == 1 else 1)
    inst = 0 if seed % 2 else (0, 1)
    if seed in (-5, -6):
        evs, inst = _idle_stream_sync_events(record_first=(seed == -5)), 0
    elif seed < 0:  # crafted: -1 .. -4
        evs, inst = _sync_return_tie_events(slack=(0 if seed in (-1, -2) else 1), record_first=seed in (-1, -3)), 0
    ns = seed >= 0 and seed % 5 == 4
    if ns:
        # a nanosecond-resolution capture analysed with HTA_DISABLE_NS_ROUNDING=1: every instant and duration scaled by 1/8 around the start of the
        # file (exact in binary), so spans of 0.625 us and the like reach the graph; the structure (nesting, causality, ties) is unchanged
        b0 = min(e["ts"] for e in evs if "ts" in e and e.get("ph") == "X")
        for e in evs:
            if e.get("ph") == "X":
                e["ts"] = b0 + (e["ts"] - b0) * 0.125
                e["dur"] = e["dur"] * 0.125
        old_env = os.environ.get("HTA_DISABLE_NS_ROUNDING")
        os.environ["HTA_DISABLE_NS_ROUNDING"] = "1"
        try:
            return _case_run(seed, evs, inst, rng)
        finally:
            if old_env is None:
                os.environ.pop("HTA_DISABLE_NS_ROUNDING", None)
            else:
                os.environ["HTA_DISABLE_NS_ROUNDING"] = old_env
    return _case_run(seed, evs, inst, rng)


def _case_run(seed: int, evs, inst, rng) -> Dict[str, Any]:
    from hv import rt

    fails: List[Dict[str, Any]] = []
    inp = {"seed": seed, "instance_id": inst, "events": {0: evs}}
    if os.environ.get("HTA_DISABLE_NS_ROUNDING") == "1":
        inp["environment"] = {"HTA_DISABLE_NS_ROUNDING": "1"}
    n = 0
    with rt.trace_dir({0: evs}) as d:
        try:
            ta = rt.lib(fails, "load", inp, rt.load_analysis, d)
            g, success = rt.lib(fails, "critical_path_analysis", inp, ta.critical_path_analysis, rank=0, annotation="ProfilerStep", instance_id=inst, _allow=(AssertionError,))
        except rt.LibFailure:
            return {"n_checks": 1, "fails": fails, "nontrivial": True}
        except AssertionError:
            return {"n_checks": 0, "fails": [], "nontrivial": False, "sample": {"seed": seed, "skipped": "degenerate window (see C08)"}}
        if not success:
            return {"n_checks": 0, "fails": [], "nontrivial": False}
        check_path(g, fails, inp)
        n += 1
        # what-if: re-weight some edges of the same graph object and recompute, twice
        for round_ in range(2):
            changed = []
            for u, v in list(g.edges):
                if rng.random() < 0.3:
                    neww = rng.choice([0, 1, 50, 500])
                    g.edges[u, v]["weight"] = neww
                    changed.append((int(u), int(v), neww))
            intended = {(int(u), int(v)): g.edges[u, v]["weight"] for u, v in g.edges}  # the weights of the experiment, read BEFORE recomputing
            try:
                ok = rt.lib(fails, "critical_path(recompute)", {**inp, "reweighted": changed[:10]}, g.critical_path)
            except rt.LibFailure:
                break
            altered = [(u, v, intended[(u, v)], g.edges[u, v]["weight"]) for (u, v) in intended if g.edges[u, v]["weight"] != intended[(u, v)]]
            if altered:
                fails.append({"what": "whatif.recomputation_leaves_the_weights_as_set", "input": {**inp, "reweighted": changed[:10], "round": round_},
                              "observed": [{"edge": [u, v], "set": w0, "after_critical_path": w1} for u, v, w0, w1 in altered[:5]],
                              "expected": "critical_path() reads the weights, it does not change them"})
            if ok:
                check_path(g, fails, {**inp, "reweighted": changed[:10], "round": round_}, what_prefix="whatif.")
                n += 1
    return {"n_checks": n, "fails": fails, "nontrivial": n > 0, "sample": {"seed": seed}}


def bounded(ctx):
    from hv import rt

    n = 40 if not ctx.thorough else 500
    res = rt.pmap(_case, [-1, -2, -3, -4, -5, -6] + [ctx.seed * 97 + i for i in range(n)], ctx.procs)
    return rt.summarise(res, f"{PROP}.bounded", f"6 crafted traces (a blocking synchronisation returning exactly when / one unit after the awaited kernel ends, followed by host work; a synchronisation of an idle stream while another stream is busy) + {n} graphs built by the real analysis from generated causally consistent traces; independent longest-path DP; two rounds of random re-weighting "
                        "(0 / 1 / 50 / 500 on ~30% of the edges) with recomputation on the same graph object")


def units(ctx):
    return [core.Unit(f"{PROP}.structure", structure_vcs, [CPA + ".CPGraph.critical_path"]), core.Unit(f"{PROP}.critical_path", critical_path_exec_vcs, [CPA + ".CPGraph.critical_path"]), core.Unit(f"{PROP}.makespan", makespan_vcs, [CPA + ".CPGraph.critical_path"])]


SPEC = Spec(
    prop=PROP, level="other",
    functions=[(CPA, "CPGraph.critical_path"), (CPA, "CPGraph._validate_graph")],
    units=units, bounded=[Bounded("path_vs_independent_dp", bounded), Bounded("history_independence", history.stage(PROP, "critical_path_other_window", "cp"))],
    trusted=["networkx.dag_longest_path returns a maximum-weight path of a DAG for the current edge attribute `weight` (assumed dependency contract; cross-checked by the bounded stage)",
             "edge objects: edges[u, v]['object'].begin == u (C08.add_edge_helper.endpoints_and_type) is used as a fact here, so distinct path positions give distinct edge objects",
             "exceptions other than the explicit raise / StopIteration of next() / NetworkXUnfeasible of dag_longest_path / KeyError of self.edges[u, v] are not modelled inside the try blocks"],
    explanation="The optimality clause is a contract of the dependency (assumed). Proved for all graphs: what critical_path does with that path (node list, event set, edge set, "
                "reset between calls, termination of the walk, outcomes on invalid / cyclic graphs) and the telescoping makespan step. Bounded: the real path is compared with an "
                "independent DP, also after re-weighting.",
)
