"""C06 — idle-time breakdown: gaps between stream-consecutive kernels, classified by rule.

Deductive (z3 from the AST):
  * _analyze_idle_time_for_stream — phase 1 (relational): the rows analysed are exactly the rows of the requested stream,
    sorted by ts; phase 2 (window k-1, k over that sequence): gap(k) = ts(k) - end(k-1) (missing for the first row);
    category(k) follows the rule host_wait / kernel_wait / other from the three mask statements in program order; the
    per-category entry sums exactly the gaps of that category; the total is the sum of all gaps; telescoping identity
    sum of gaps = (end_last - ts_first) - sum of durations (prefix-fold invariant); ratio = idle / total.
  * get_idle_time_breakdown — device rows of kernel categories; launch timestamp looked up through index_correlation.
Bounded: the public getter on generated traces (per-stream non-overlapping kernels) vs. a direct oracle.
"""
from __future__ import annotations

import ast
from typing import Any, Dict, List

import z3

from hv import core, extract, framevc as fv, pyvc, scanvc
from hv import history
from hv.driver import Bounded, Spec
from hv.pyvc import to_z3, z_ite

BA = "hta.analyzers.breakdown_analysis"
UT = "hta.utils.utils"
PROP = "C06"


class _Result:
    """pd.DataFrame(groupby.idle_interval.sum()) and the columns added to it."""

    def __init__(self, gs: scanvc.WGroupSum, colname: str):
        self.cols: Dict[str, Any] = {colname: gs}
        self.gs = gs

    def __deepcopy__(self, memo):
        return self

    def hv_getattr(self, ex, attr, pc):
        if attr in self.cols:
            return _ResCol(self, attr)
        return NotImplemented

    def hv_getitem(self, ex, idx, pc):
        if idx in self.cols:
            return _ResCol(self, idx)
        raise pyvc.Unsupported("result column")

    def hv_setitem(self, ex, idx, v, pc):
        self.cols[idx] = v

    def hv_call_method(self, ex, attr, args, kwargs, pc, env):
        if attr == "rename":
            m = kwargs.get("columns", {})
            self.cols = {m.get(k, k): v for k, v in self.cols.items()}
            return None if kwargs.get("inplace") else self
        return NotImplemented


class _ResCol:
    def __init__(self, res: _Result, col: str):
        self.res, self.col = res, col

    def hv_call_method(self, ex, attr, args, kwargs, pc, env):
        if attr == "sum" and isinstance(self.res.cols[self.col], scanvc.WGroupSum):
            return _Total(self.res.cols[self.col])
        return NotImplemented

    def hv_binop(self, ex, op, other, reflected, pc):
        if isinstance(op, ast.Div) and isinstance(other, _Total) and not reflected and other.gs is self.res.cols[self.col]:
            return _Ratio(self.res.cols[self.col])
        raise pyvc.Unsupported("result column arithmetic")


class _Total:
    def __init__(self, gs):
        self.gs = gs


class _Ratio:
    def __init__(self, gs):
        self.gs = gs


def stream_vcs() -> List[core.VC]:
    name = f"{PROP}.analyze_stream"
    f = extract.get_function(BA, "BreakdownAnalysis._analyze_idle_time_for_stream")
    node = extract.stripped(f)
    fq = [f.fq]
    enum = pyvc.EnumCls("IdleTimeType", extract.enum_members(UT, "IdleTimeType"))
    HOST, KERN, OTHER = (enum.member(n).value for n in ("HOST_WAIT", "KERNEL_WAIT", "OTHER"))
    # first statement that derives the per-stream frame
    first_i = None
    for i, st in enumerate(node.body):
        if isinstance(st, ast.Assign) and any(isinstance(n, ast.Attribute) and n.attr == "sort_values" for n in ast.walk(st.value)):
            first_i = i
            break
    if first_i is None or not isinstance(node.body[first_i].targets[0], ast.Name):
        raise pyvc.Unsupported("statement selecting and sorting the stream's kernels not found")
    var = node.body[first_i].targets[0].id
    vcs: List[core.VC] = []
    # ------------------------------------------------------------------ phase 1
    ex = pyvc.Exec(consts=extract.module_constants(BA), name=name)
    fv.install(ex)
    cols = {"ts": (z3.IntSort(), False, "int"), "dur": (z3.IntSort(), False, "int"), "stream": (z3.IntSort(), False, "int"),
            "ts_runtime": (z3.IntSort(), True, "float"), "index": (z3.IntSort(), False, "int")}
    df = fv.SymDF.base("gk", cols)
    stream = z3.Int("stream")
    delay = z3.Int("consecutive_kernel_delay")
    env: Dict[str, Any] = {"cls": pyvc.Record("BreakdownAnalysis", {}), "stream": stream, "gpu_kernels": df, "consecutive_kernel_delay": delay,
                           "show_idle_interval_stats": False, "IdleTimeType": enum}
    ex.consts["IdleTimeType"] = enum
    pc: List[Any] = []
    for st in node.body[: first_i + 1]:
        outs = ex.exec_stmt(st, pc, env)
        if len(outs) != 1 or outs[0].kind != "fall":
            raise pyvc.Unsupported("phase 1 forks")
        pc, env = outs[0].pc, outs[0].env
    sel = env[var]
    r = df.uni.skolem("r")
    ok = isinstance(sel, fv.SymDF) and sel.uni is df.uni
    vcs.append(core.VC(f"{name}.rows_of_stream", list(ex.facts), z3.And(z3.BoolVal(ok), to_z3(sel.present(r)) == z3.And(to_z3(df.present(r)), df.cols["stream"].val(r) == stream))
                       if ok else z3.BoolVal(False), "vc", fq, {"row": r[0]}, note="the analysed rows are exactly the input rows of the requested stream"))
    vcs.append(core.VC(f"{name}.sorted_by_ts", [], z3.BoolVal(ok and sel.order[0] == "sorted" and sel.order[2] == "ts" and sel.order[3] == "True"), "vc", fq, {}))
    vcs.append(core.VC(f"{name}.input_not_modified", [], z3.BoolVal(ok and sel is not df and not df.written), "vc", fq, {}))
    # ------------------------------------------------------------------ phase 2
    info = {}
    for mode in ("base", "step"):
        w = scanvc.Window(mode, f"c6_{mode}")
        wf, syms = scanvc.window_frame(w, {"ts": "int", "dur": "int", "stream": "int", "ts_runtime": "float"}, "ts", f"c6_{mode}")
        rtn = z3.Bool(f"c6_{mode}_rt_null_cur"), z3.Bool(f"c6_{mode}_rt_null_prev")
        c = wf.cols["ts_runtime"]
        wf.cols["ts_runtime"] = scanvc.WSeries(w, c.prev, c.cur, rtn[1] if mode == "step" else False, rtn[0], "float", "ts_runtime")
        ex2 = pyvc.Exec(consts=extract.module_constants(BA), name=f"{name}.{mode}")
        ex2.consts["IdleTimeType"] = enum

        @pyvc.intrinsic
        def dataframe(exq, pc_, env_, args, kwargs):
            if args and isinstance(args[0], scanvc.WGroupSum):
                return _Result(args[0], "idle_interval")
            raise pyvc.Unsupported("pd.DataFrame(...)")

        ex2.consts["pd"] = pyvc.Namespace("pd", {"DataFrame": dataframe})
        env2 = {"cls": pyvc.Record("BreakdownAnalysis", {}), "stream": stream, var: wf, "consecutive_kernel_delay": delay, "show_idle_interval_stats": False,
                "idle_interval_stats": None}
        pc2: List[Any] = []
        ret = None
        for st in node.body[first_i + 1:]:
            outs = [o for o in ex2.exec_stmt(st, pc2, env2)]
            if len(outs) != 1:
                raise pyvc.Unsupported("phase 2 forks")
            if outs[0].kind == "ret":
                ret = outs[0].value
                break
            pc2, env2 = outs[0].pc, outs[0].env
        if not (isinstance(ret, tuple) and isinstance(ret[0], _Result)):
            raise pyvc.Unsupported("unexpected return value")
        info[mode] = (w, syms, wf, ret[0], rtn)
    # step-mode spec
    w, syms, wf, res, rtn = info["step"]
    Tp, T = syms["ts"]
    Dp, D = syms["dur"]
    RT = syms["ts_runtime"][1]
    rt_null = rtn[0]
    gap = T - (Tp + Dp)
    host = z3.And(z3.Not(rt_null), RT > Tp + Dp)
    cat_spec = z3.If(host, HOST, z3.If(gap < delay, KERN, OTHER))
    cat = wf.cols.get("idle_category")
    ii = wf.cols.get("idle_interval")
    mv = {"ts_prev": Tp, "dur_prev": Dp, "ts": T, "launch_ts": RT, "launch_missing": rt_null, "delay": delay}
    have = cat is not None and ii is not None and "idle_time" in res.cols and "idle_time_ratio" in res.cols and "stream" in res.cols
    vcs.append(core.VC(f"{name}.result_columns", [], z3.BoolVal(have), "vc", fq, {}, note=f"result columns {sorted(res.cols)}"))
    if have:
        vcs.append(core.VC(f"{name}.gap_is_ts_minus_previous_end", [], z3.And(to_z3(ii.cur) == gap, z3.BoolVal(ii.cnull is False)), "vc", fq, mv))
        vcs.append(core.VC(f"{name}.category_rule", [], to_z3(cat.cur) == cat_spec, "vc", fq, mv,
                           note="host_wait if the launch call began after the previous kernel ended, else kernel_wait if gap < threshold, else other"))
        gs = res.cols["idle_time"]
        cvar = z3.Int("category")
        vcs.append(core.VC(f"{name}.category_sum_term", [], z3.And(z3.BoolVal(isinstance(gs, scanvc.WGroupSum)),
                                                                  to_z3(gs.term(cvar)) == z3.If(cat_spec == cvar, gap, 0)) if isinstance(gs, scanvc.WGroupSum) else z3.BoolVal(False),
                           "vc", fq, dict(mv, category=cvar), note="a category's idle time accumulates exactly the gaps classified into it"))
        vcs.append(core.VC(f"{name}.ratio_is_share_of_total", [], z3.BoolVal(isinstance(res.cols["idle_time_ratio"], _Ratio) and res.cols["idle_time_ratio"].gs is gs), "vc", fq, {},
                           note="idle_time_ratio = idle_time / sum over categories (ratios add up to 1 when the total is non-zero)"))
        vcs.append(core.VC(f"{name}.stream_column", [], to_z3(res.cols["stream"]) == stream, "vc", fq, {}))
        # telescoping: G(k) = end(k) - ts(0) - Dsum(k)
        G, Ds, ts0 = z3.Ints("ghost_gapsum ghost_dursum ghost_ts0")
        vcs.append(core.VC(f"{name}.telescoping_step", [G == (Tp + Dp) - ts0 - Ds], G + to_z3(gs.total_term()) == (T + D) - ts0 - (Ds + D), "vc", fq, mv,
                           note="sum of gaps = (end of last kernel - start of first) - sum of durations"))
    # base-mode: first row has no gap, category `other`, contributes nothing
    wb, symsb, wfb, resb, rtnb = info["base"]
    catb, iib = wfb.cols.get("idle_category"), wfb.cols.get("idle_interval")
    if catb is not None and iib is not None and "idle_time" in resb.cols:
        vcs.append(core.VC(f"{name}.first_row_has_no_gap", [], z3.And(z3.BoolVal(iib.cnull is True), to_z3(resb.cols["idle_time"].total_term()) == 0, to_z3(catb.cur) == OTHER), "vc", fq, {},
                           note="the first kernel of a stream has a missing gap, stays in the default category and adds nothing to any sum"))
    vcs.append(core.VC(f"{name}.guard.canary_false", [host], z3.BoolVal(False), "canary", fq))
    return vcs


KERNEL_CATS = ["kernel", "Kernel", "gpu_memset", "Memset", "gpu_memcpy", "Memcpy", "mtia_ccp_events"]


def select_rel_vcs() -> List[core.VC]:
    return _select_rel_vcs(None, "") + _select_rel_vcs([z3.Int("requested_stream_1"), z3.Int("requested_stream_2")], ".stream_subset")


def _select_rel_vcs(streams_arg, suffix: str) -> List[core.VC]:
    """get_idle_time_breakdown up to the per-stream loop, relationally: analysed rows and the launch timestamp look-up
    (with all streams, and with an explicit stream subset: the subset must only choose which streams are analysed)."""
    name = f"{PROP}.get_idle_time_breakdown{suffix}"
    f = extract.get_function(BA, "BreakdownAnalysis.get_idle_time_breakdown")
    node = extract.stripped(f)
    fq = [f.fq]
    ex = pyvc.Exec(consts=extract.module_constants(BA), name=name)
    fv.install(ex)
    fv.install_symtab(ex)
    st = fv.SymTab("st")
    cols = {"index": (z3.IntSort(), False, "int"), "ts": (z3.IntSort(), False, "int"), "dur": (z3.IntSort(), False, "int"), "stream": (z3.IntSort(), False, "int"),
            "cat": (z3.IntSort(), False, "int"), "name": (z3.IntSort(), False, "int"), "index_correlation": (z3.IntSort(), False, "int")}
    df = fv.SymDF.base("ev", cols)
    idx = df.cols["index"].val
    df.label = lambda r: idx(r)  # WF6
    before = dict(df.cols)
    ex.methods["Record.get_trace"] = lambda exq, pc, env, obj, args, kwargs: df
    t = pyvc.Record("Trace", {"symbol_table": st})
    env: Dict[str, Any] = {"cls": pyvc.Record("BreakdownAnalysis", {}), "t": t, "consecutive_kernel_delay": z3.Int("delay"), "rank": z3.Int("rank"),
                           "streams": streams_arg, "visualize": False, "visualize_pctg": False, "show_idle_interval_stats": False}
    pc: List[Any] = []
    gk = None
    for stt in node.body:
        if isinstance(stt, ast.If) and "streams" in ast.unparse(stt.test):
            break
        outs = ex.exec_stmt(stt, pc, env)
        if len(outs) != 1 or outs[0].kind != "fall":
            raise pyvc.Unsupported("prefix of get_idle_time_breakdown forks")
        pc, env = outs[0].pc, outs[0].env
    gk = env.get("gpu_kernels")
    if not isinstance(gk, fv.SymDF) or gk.uni is not df.uni or "ts_runtime" not in gk.cols:
        raise pyvc.Unsupported("gpu_kernels is not a row-wise extension of the trace frame with a ts_runtime column")
    r, p, a, b = (df.uni.skolem(x) for x in "rpab")
    pres = df.present
    wf = [z3.ForAll(list(a) + list(b), z3.Implies(z3.And(to_z3(pres(a)), to_z3(pres(b)), idx(a) == idx(b)), a[0] == b[0])),
          z3.ForAll(list(a), z3.Implies(to_z3(pres(a)), z3.And(st.valid(before["cat"].val(a)), idx(a) >= 0)))]
    st.used_ids.append(to_z3(before["cat"].val(r)))
    hyps = list(ex.facts) + wf + st.axioms() + [to_z3(c) for c in pc]
    is_kcat = z3.Or(*[st.sym(before["cat"].val(r)) == z3.StringVal(c) for c in KERNEL_CATS])
    mv = {"row": r[0], "launch_row": p[0], "stream": before["stream"].val(r), "index_correlation": before["index_correlation"].val(r)}
    vcs = [core.VC(pv.name, pv.hyps + list(ex.facts) + wf, pv.goal, "vc", fq, {}, note=pv.note) for pv in ex.vcs]
    vcs.append(core.VC(f"{name}.analysed_rows", hyps, to_z3(gk.present(r)) == z3.And(to_z3(pres(r)), before["stream"].val(r) != -1, is_kcat), "vc", fq, mv,
                       note="device rows (stream != -1) whose category is one of the kernel / memset / memcpy categories"))
    ic = before["index_correlation"].val
    launch = z3.And(to_z3(pres(p)), idx(p) == ic(r), ic(p) > 0)
    trt = gk.cols["ts_runtime"]
    vcs.append(core.VC(f"{name}.launch_ts_of_linked_call", hyps + [to_z3(gk.present(r)), launch], z3.And(z3.Not(to_z3(trt.isnull(r))), to_z3(trt.val(r)) == before["ts"].val(p)), "vc", fq, mv,
                       note="ts_runtime = start of the (linked) event whose id is index_correlation"))
    q = df.uni.skolem("q")
    vcs.append(core.VC(f"{name}.no_launch_ts_without_linked_call", hyps + [to_z3(gk.present(r)), z3.ForAll(list(q), z3.Not(z3.And(to_z3(pres(q)), idx(q) == ic(r), ic(q) > 0)))],
                       to_z3(trt.isnull(r)), "vc", fq, mv, note="no launch call in the trace (index_correlation <= 0, or naming an unlinked event) => launch time missing"))
    keep = all(c in gk.cols and gk.cols[c] is before[c] for c in ("ts", "dur", "stream"))
    vcs.append(core.VC(f"{name}.kernel_columns_unchanged_and_trace_not_modified", [], z3.BoolVal(keep and not df.written and df.inplace_row_changes == 0), "vc", fq, {}))
    vcs.append(core.VC(f"{name}.guard.canary_false", hyps + [to_z3(gk.present(r)), launch], z3.BoolVal(False), "canary", fq))
    return vcs


def select_vcs() -> List[core.VC]:
    """get_idle_time_breakdown: the per-stream loop and result assembly (statement correspondence)."""
    name = f"{PROP}.get_idle_time_breakdown"
    f = extract.get_function(BA, "BreakdownAnalysis.get_idle_time_breakdown")
    node = extract.stripped(f)
    fq = [f.fq]
    src = ast.unparse(node).replace("'", '"')
    want = ['streams = list(gpu_kernels.stream.unique())',
            'breakdown_df, idle_interval_df = cls._analyze_idle_time_for_stream(stream, gpu_kernels, consecutive_kernel_delay, show_idle_interval_stats)',
            'result_df = pd.concat(result_list)']
    lines = {l.strip() for l in src.splitlines()}
    missing = [w for w in want if w not in lines]
    if missing:
        raise pyvc.Unsupported("per-stream loop of get_idle_time_breakdown no longer matches the contract's reading: " + "; ".join(missing))
    return [core.VC(f"{name}.per_stream_loop_statements", [], z3.BoolVal(True), "vc", fq, {},
                    note="one _analyze_idle_time_for_stream call per requested stream (all streams of the analysed rows by default), results concatenated")]


# ---------------------------------------------------------------------------------------------- bounded


def _case(seed: int) -> Dict[str, Any]:
    from hv import gen, rt

    kw = dict(n_streams=1 + seed % 3, steps=seed % 3, p_zero_kernel=0.1, n_top=3 + seed % 3, p_launch=0.85, p_memcpy=0.2, p_orphan_kernel=0.15 if seed % 4 == 0 else 0.0,
              p_same_ts_kernel=0.3)
    if seed % 3 == 2:
        kw["p_other_launch"] = 0.4  # linked host calls outside the usual launch names (graph / cooperative launches, synchronous copies): still the call that launched the activity
    if seed % 5 == 3:
        kw["p_frac_kernel_dur"] = 0.6  # whole-number timestamps, fractional kernel durations: the loader leaves such a file as it is, gaps are exact fractions
    two_ranks = seed % 4 == 1  # one call for two ranks whose device streams differ (rank 1's streams are renumbered): every rank reports ITS streams
    per_rank = gen.gen_trace_set(seed, n_ranks=2 if two_ranks else 1, **kw)
    if two_ranks:
        for e in per_rank[1]:
            a = e.get("args")
            if isinstance(a, dict) and isinstance(a.get("stream"), int) and a["stream"] > 0:
                a["stream"] += 20
                e["tid"] = a["stream"]
    fails: List[Dict[str, Any]] = []
    n = 0
    delay = [0, 5, 10, 30, 1000][seed % 5]
    with rt.trace_dir(per_rank) as d:
        inp = {"seed": seed, "delay": delay, "events": per_rank}
        try:
            ta = rt.lib(fails, "load", inp, rt.load_analysis, d)
            stab = ta.t.symbol_table.get_sym_table()
            kcats = {"kernel", "Kernel", "gpu_memset", "Memset", "gpu_memcpy", "Memcpy", "mtia_ccp_events"}
            devs = {}
            for rk in per_rank:
                df_ = ta.t.get_trace(rk)
                devs[rk] = df_[(df_["stream"] != -1) & df_["cat"].map(lambda c: stab[c] in kcats)]
            if any(len(v) == 0 for v in devs.values()):
                return {"n_checks": 0, "fails": [], "nontrivial": False, "clauses": {}}
            streams_of = {rk: sorted(set(int(s) for s in v["stream"])) for rk, v in devs.items()}
            subset = None if (seed % 2 or two_ranks) else streams_of[0][:1]
            inp["streams"] = subset
            inp["ranks"] = sorted(per_rank)
            out_all, _ = rt.lib(fails, "get_idle_time_breakdown", inp, ta.get_idle_time_breakdown, ranks=sorted(per_rank), streams=subset, visualize=False, consecutive_kernel_delay=delay)
        except rt.LibFailure:
            return {"n_checks": 1, "fails": fails, "nontrivial": True, "clauses": {}}
        for rk in sorted(per_rank):
            df, dev, all_streams = ta.t.get_trace(rk), devs[rk], streams_of[rk]
            out = out_all[out_all["rank"] == rk]
            if subset is None:
                reported = sorted(set(int(x) for x in out["stream"]))
                need = [s_ for s_ in all_streams if len(dev[dev["stream"] == s_]) >= 2]
                if any(s_ not in reported for s_ in need):
                    fails.append({"what": "every_stream_of_the_rank_is_reported", "input": inp, "observed": {"rank": rk, "streams": reported}, "expected": {"streams_with_at_least_two_kernels": need}})
            # the launch call of a device activity is the host event carrying the same correlation id IN THE FILE (the correlation column is the file's value);
            # the link column the loader computed is what is being relied upon by the library, so it is not used here
            host_ts_of_corr: Dict[int, int] = {}
            for c_, t_, s_ in zip(df["correlation"], df["ts"], df["stream"]):
                if int(s_) == -1 and int(c_) >= 0 and int(c_) not in host_ts_of_corr:
                    host_ts_of_corr[int(c_)] = int(t_)
            for s in (subset or all_streams):
                ks = dev[dev["stream"] == s].sort_values("ts", kind="stable")
                fdur = {i: e["dur"] for i, e in gen.complete_events(per_rank[rk])}  # durations are the file's (row id = position in the file)
                rows = [(int(a), (lambda x: int(x) if float(x) == int(x) else float(x))(fdur.get(int(i), b)), int(c)) for i, a, b, c in zip(ks["index"], ks["ts"], ks["dur"], ks["correlation"])]
                exp = {"host_wait": 0, "kernel_wait": 0, "other": 0}
                seen = set()
                ok_order = all(rows[i][0] + rows[i][1] <= rows[i + 1][0] for i in range(len(rows) - 1))
                if not ok_order or len({r[0] for r in rows}) != len(rows):
                    continue  # precondition: kernels of a stream do not overlap (ties in ts make the order ambiguous)
                for (t0, d0, _), (t1, d1, ic) in zip(rows, rows[1:]):
                    gap = t1 - (t0 + d0)
                    launch = host_ts_of_corr.get(ic) if ic >= 0 else None
                    if launch is not None and launch > t0 + d0:
                        exp["host_wait"] += gap
                        seen.add("host_wait")
                    elif gap < delay:
                        exp["kernel_wait"] += gap
                        seen.add("kernel_wait")
                    else:
                        exp["other"] += gap
                        seen.add("other")
                got = {r["idle_category"]: float(r["idle_time"]) for _, r in out[out["stream"] == s].iterrows()}
                n += 1
                span_minus_busy = (rows[-1][0] + rows[-1][1] - rows[0][0]) - sum(r[1] for r in rows)
                bad = {k: (got.get(k, 0.0), v) for k, v in exp.items() if abs(got.get(k, 0.0) - v) > 1e-6}
                if bad:
                    fails.append({"what": "category_sums", "input": inp, "observed": {"stream": s, **{k: v[0] for k, v in bad.items()}}, "expected": {k: v[1] for k, v in bad.items()}})
                elif abs(sum(got.values()) - span_minus_busy) > 1e-6:
                    fails.append({"what": "sum_is_span_minus_busy", "input": inp, "observed": sum(got.values()), "expected": span_minus_busy})
                tot = sum(exp.values())
                if tot > 0 and not bad:
                    ratios = {r["idle_category"]: float(r["idle_time_ratio"]) for _, r in out[out["stream"] == s].iterrows()}
                    if abs(sum(ratios.values()) - 1.0) > 0.011 * max(1, len(ratios)):
                        fails.append({"what": "ratios_add_up_to_one", "input": inp, "observed": ratios})
            if subset is not None and set(int(x) for x in out["stream"]) - set(subset):
                fails.append({"what": "stream_subset", "input": inp, "observed": sorted(set(int(x) for x in out["stream"])), "expected": subset})
    return {"n_checks": n, "fails": fails, "nontrivial": n > 0, "sample": {"seed": seed, "delay": delay}, "clauses": {"category_sums": n}}


def _corner_cases() -> List[Dict[str, Any]]:
    from hv import synth

    out = []
    for first_ts in (1010, 990, 1004):
        evs = [synth.host_op("aten::first", first_ts, 50), synth.kernel("void k1", 1000, 5, 7, 501), synth.kernel("void k2", 1020, 10, 7, 502),
               synth.launch(1030, 5, 503), synth.kernel("void k3", 1040, 10, 7, 503)]
        out.append(evs)
    return out


def _corner(i: int) -> Dict[str, Any]:
    from hv import rt

    evs = _corner_cases()[i]
    fails: List[Dict[str, Any]] = []
    inp = {"corner_case": i, "events": evs, "delay": 30}
    with rt.trace_dir({0: evs}) as d:
        try:
            ta = rt.lib(fails, "load", inp, rt.load_analysis, d)
            out, _ = rt.lib(fails, "get_idle_time_breakdown", inp, ta.get_idle_time_breakdown, ranks=[0], visualize=False, consecutive_kernel_delay=30)
        except rt.LibFailure:
            return {"n_checks": 1, "fails": fails, "nontrivial": True}
        got = {r["idle_category"]: float(r["idle_time"]) for _, r in out.iterrows()}
        exp = {"host_wait": 0.0, "kernel_wait": 25.0, "other": 0.0}  # both gaps (15 and 10) are below the threshold; k2 has no launch call, k3's began at 30 <= 30
        if any(abs(got.get(k, 0.0) - v) > 1e-9 for k, v in exp.items()):
            fails.append({"what": "unlinked_kernel_never_host_wait", "input": inp, "observed": got, "expected": exp})
    return {"n_checks": 1, "fails": fails, "nontrivial": True, "sample": {"corner_case": i}}


def bounded(ctx):
    from hv import rt

    rc = rt.pmap(_corner, range(len(_corner_cases())), ctx.procs)
    n = 80 if not ctx.thorough else 900
    res = rc + rt.pmap(_case, [ctx.seed * 2003 + i for i in range(n)], ctx.procs)
    return rt.summarise(res, f"{PROP}.bounded", f"3 hand-written corner cases (kernels without launch call before/after the first file event) + {n} generated traces (1-3 streams, kernels non-overlapping per stream, thresholds 0/5/10/30/1000, all streams or a subset, "
                        "orphan kernels in a quarter of the cases) through TraceAnalysis.get_idle_time_breakdown")


def units(ctx):
    return [core.Unit(f"{PROP}.analyze_stream", stream_vcs, [BA + ".BreakdownAnalysis._analyze_idle_time_for_stream"]),
            core.Unit(f"{PROP}.get_idle_time_breakdown.rel", select_rel_vcs, [BA + ".BreakdownAnalysis.get_idle_time_breakdown"]),
            core.Unit(f"{PROP}.get_idle_time_breakdown", select_vcs, [BA + ".BreakdownAnalysis.get_idle_time_breakdown"])]


SPEC = Spec(
    lean=['Folds.lean'],
    prop=PROP, level="proof",
    functions=[(BA, "BreakdownAnalysis._analyze_idle_time_for_stream"), (BA, "BreakdownAnalysis.get_idle_time_breakdown")],
    units=units, bounded=[Bounded("breakdown_vs_rule", bounded), Bounded("history_independence", history.stage(PROP, "idle", "gen"))],
    trusted=["pandas contracts: shift(1), comparisons with NaN are False, loc[mask, col] = scalar, groupby(key)[col].sum() skips NaN, sort_values(by='ts')",
             "fold meta-lemma (sums over the rows = accumulated per-row terms, L5)",
             "get_idle_time_breakdown's selection/join statements are compared textually with the contract's reading (left join on unique labels = look-up)"],
    assumptions=["kernels of one stream do not overlap and have distinct start times (precondition of the property)", "printed values are rounded to 2 decimals"],
)
