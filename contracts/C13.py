"""C13 — call-graph attributes (depth, height, kernel totals) agree with the tree.

Deductive (z3 from the AST; recursion handled by executing the body once with the recursive calls replaced by the
function's own contract on the children = structural induction over the finite tree):
  * _compute_depth._bfs: depth(node) = parent_depth + 1 and every child is visited exactly once with the node's depth;
  * _compute_height._dfs: device activity 0; host node max(1, 1 + max child height) — loop invariant against a ghost fold;
  * _add_kernel_info_to_cpu_ops._dfs: (count, summed duration, span, first start, last end) folded over the children
    (sum, sum, min, max, end - start) — loop invariant against ghost folds; a device leaf gives (1, dur, end - start, start, end);
  * _link_cpu_and_gpu: every (cpu, gpu) pair of the correlation table whose cpu side is on this thread becomes an edge with device GPU;
  * _normalize_stack_columns: rows without kernels get (0, 0, -1, -1, 0).
Bounded: CallGraph on generated multi-thread traces loaded through the public entry point, vs. a recomputation from the
parent column (depth, height, kernel statistics, GPU children, backward-thread attachment).
"""
from __future__ import annotations

import ast
from typing import Any, Dict, List

import z3

from hv import core, extract, framevc as fv, pyvc
from hv.driver import Bounded, Spec
from hv.pyvc import to_z3

TCS = "hta.common.trace_call_stack"
TCG = "hta.common.trace_call_graph"
PROP = "C13"
I = z3.IntSort()


def _nested(fn_node, name):
    for n in ast.walk(fn_node):
        if isinstance(n, ast.FunctionDef) and n.name == name:
            return n
    raise pyvc.Unsupported(f"nested function {name} not found")


class Tree:
    """self.nodes as a forest: presence, device, children lists (length nc(i), elements ch(i, j)), mutable depth/height maps."""

    def __init__(self):
        self.has = z3.Function("node_has", I, z3.BoolSort())
        self.gpu = z3.Function("node_is_gpu", I, z3.BoolSort())
        self.nc = z3.Function("node_nchildren", I, I)
        self.ch = z3.Function("node_child", I, I, I)
        self.writes: List[Any] = []  # (pc, node, attr, value)

    def __deepcopy__(self, memo):
        return self


class NodeRef:
    def __init__(self, tree: Tree, key):
        self.tree, self.key = tree, key

    def __deepcopy__(self, memo):
        return self

    def hv_getattr(self, ex, attr, pc):
        t = self.tree
        if attr == "children":
            return pyvc.SymList(I, "children", length=t.nc(self.key), arr=z3.Lambda([z3.Int("jj")], t.ch(self.key, z3.Int("jj"))))
        if attr == "device":
            return _Dev(t.gpu(self.key))
        if attr in ("depth", "height"):
            # the most recent write on this path wins
            for pcw, k, a, v in reversed(t.writes):
                # only writes made on this path (their path condition is part of the current one)
                if a == attr and k is self.key and all(any(to_z3(c).eq(to_z3(w)) for c in pc) for w in pcw):
                    return v
            return z3.Int(f"old_{attr}_{self.key}")
        return NotImplemented

    def hv_setattr(self, ex, attr, v, pc):
        self.tree.writes.append((list(pc), self.key, attr, v))


class _Dev:
    def __init__(self, is_gpu):
        self.is_gpu = is_gpu

    def hv_compare(self, ex, op, other, reflected):
        if isinstance(other, pyvc.EnumVal) and other.name in ("GPU", "CPU"):
            r = self.is_gpu if other.name == "GPU" else z3.Not(self.is_gpu)
            return r if isinstance(op, ast.Eq) else z3.Not(r)
        raise pyvc.Unsupported("device comparison")


class NodesDict:
    def __init__(self, tree: Tree):
        self.tree = tree

    def __deepcopy__(self, memo):
        return self

    def hv_contains(self, ex, item):
        return self.tree.has(to_z3(item))

    def hv_getitem(self, ex, idx, pc):
        ex.oblige("nodes_keyerror", pc, self.tree.has(to_z3(idx)), "KeyError absence on self.nodes[...]")
        return NodeRef(self.tree, to_z3(idx))


def depth_vcs() -> List[core.VC]:
    name = f"{PROP}.compute_depth.bfs"
    f = extract.get_function(TCS, "CallStackGraph._compute_depth")
    g = _nested(extract.stripped(f), "_bfs")
    fq = [f.fq + "._bfs"]
    t = Tree()
    calls: List[Any] = []

    @pyvc.intrinsic
    def rec(exq, pc, env, args, kwargs):
        calls.append((list(pc), args[0], args[1]))
        return None

    k = z3.Int("k")
    spec = pyvc.LoopSpec(state_vars=[], invariant=lambda env, kk, it: z3.BoolVal(True), elem=lambda it, kk: it.at(kk), length=lambda it: it.length, name="children")
    ex = pyvc.Exec(consts=extract.module_constants(TCS), name=name, loop_specs={0: spec})
    idx, pd_ = z3.Ints("idx parent_depth")
    selfrec = pyvc.Record("CallStackGraph", {"nodes": NodesDict(t)})
    outs = ex.run_function(g, {"_idx": idx, "parent_depth": pd_, "self": selfrec, "_bfs": rec}, [t.has(idx), t.nc(idx) >= 0])
    vcs = [core.VC(pv.name, pv.hyps, pv.goal, "vc", fq, {}, note=pv.note) for pv in ex.vcs]
    dw = [(pc, key, v) for pc, key, a, v in t.writes if a == "depth"]
    vcs.append(core.VC(f"{name}.sets_depth_of_node", [t.has(idx)], z3.BoolVal(len(dw) == 1 and dw[0][1] is idx) if dw else z3.BoolVal(False), "vc", fq, {}, note="exactly one depth write, on the node itself"))
    if len(dw) == 1:
        vcs.append(core.VC(f"{name}.depth_is_parent_plus_one", [to_z3(c) for c in dw[0][0]], to_z3(dw[0][2]) == pd_ + 1, "vc", fq, {"parent_depth": pd_}))
    ok_calls = len(calls) == 1
    vcs.append(core.VC(f"{name}.one_recursive_call_per_child", [], z3.BoolVal(ok_calls), "vc", fq, {}, note=f"{len(calls)} recursive call site(s) inside the loop over node.children"))
    if ok_calls:
        pcc, c_arg, d_arg = calls[0]
        # inside the loop body the element is children[k]: the call must pass that child and the node's (new) depth
        hy = [to_z3(c) for c in pcc]
        kk = [v for v in z3.z3util.get_vars(z3.And(*hy)) if str(v).startswith("k!")]
        vcs.append(core.VC(f"{name}.child_visited_with_node_depth", hy, z3.And(z3.Or(*[to_z3(c_arg) == t.ch(idx, v) for v in kk]) if kk else z3.BoolVal(False), to_z3(d_arg) == pd_ + 1), "vc", fq, {},
                           note="each child is visited with parent_depth = the node's depth, so depth(child) = depth(node) + 1 by induction over the tree"))
    return vcs


def roots_vcs(prop: str = PROP) -> List[core.VC]:
    """_get_all_root_indices over a node map with two arbitrary distinct keys and arbitrary node contents: a key is returned iff it is
    not an event id (event ids are >= 0, thread roots are stored under -abs(tid)); and the whole-graph depth pass starts _bfs at every
    returned root with parent depth -2, so that a root has depth -1 and a top-level event depth 0 = its number of ancestors."""
    import copy

    name = f"{prop}.roots"
    f = extract.get_function(TCS, "CallStackGraph._get_all_root_indices")
    consts = extract.module_constants(TCS)
    ex = pyvc.Exec(consts=consts, name=name)
    k1, k2, p1, p2, d1, d2 = z3.Ints("key1 key2 parent1 parent2 depth1 depth2")
    mk = lambda p, d: pyvc.Record("CallStackNode", {"parent": p, "depth": d, "height": z3.Int(f"h_{p}"), "device": z3.Int(f"dev_{p}"), "children": []})
    nodes = {k1: mk(p1, d1), k2: mk(p2, d2)}
    selfrec = pyvc.Record("CallStackGraph", {"nodes": nodes, "root_index": z3.Int("root_index")})
    outs = ex.run_function(extract.stripped(f), {"self": selfrec}, [k1 != k2])
    rets = [o for o in outs if o.kind == "ret"]
    if len(rets) != 1 or not isinstance(rets[0].value, list):
        raise pyvc.Unsupported("_get_all_root_indices does not return one list")
    elems = rets[0].value

    def member(k):
        alts = []
        for e in elems:
            c, v = (e.cond, e.value) if isinstance(e, pyvc.Guarded) else (True, e)
            alts.append(pyvc.z_and(c, to_z3(v) == k))
        return to_z3(pyvc.z_or(*alts))

    mv = {"key1": k1, "key2": k2, "parent1": p1, "parent2": p2}
    vcs = [core.VC(pv.name, pv.hyps, pv.goal, "vc", [f.fq], {}, note=pv.note) for pv in ex.vcs]
    for j, k in ((1, k1), (2, k2)):
        vcs.append(core.VC(f"{name}.returned_iff_not_an_event_id.key{j}", [k1 != k2], member(k) == (k < 0), "vc", [f.fq], mv,
                           note="for every node map (two arbitrary distinct keys with arbitrary parents stand for all of them: the selection is per key): a key is a root iff it is negative"))
    vcs.append(core.VC(f"{name}.guard.canary_false", [k1 != k2, k1 < 0, k2 >= 0], z3.BoolVal(False), "canary", [f.fq]))
    # the whole-graph driver of _compute_depth
    g = extract.get_function(TCS, "CallStackGraph._compute_depth")
    node = copy.deepcopy(extract.stripped(g))
    node.body = [st for st in node.body if not isinstance(st, ast.FunctionDef)]
    calls: List[Any] = []

    @pyvc.intrinsic
    def bfs(exq, pc, env, args, kwargs):
        calls.append((args[0], args[1]))
        return None

    r1, r2 = z3.Ints("root1 root2")
    ex2 = pyvc.Exec(consts=consts, name=f"{name}.driver")
    ex2.methods["CallStackGraph._get_all_root_indices"] = lambda exq, pc, env, obj, args, kwargs: [r1, r2]
    ex2.run_function(node, {"self": pyvc.Record("CallStackGraph", {"nodes": {}, "root_index": r1}), "root_index": None, "apply_whole_graph": True, "_bfs": bfs}, [])
    ok = len(calls) == 2 and calls[0][0] is r1 and calls[1][0] is r2
    vcs.append(core.VC(f"{name}.whole_graph_pass_starts_at_every_root", [], z3.BoolVal(ok), "vc", [g.fq], {}, note=f"{len(calls)} _bfs start(s) for two roots"))
    if ok:
        vcs.append(core.VC(f"{name}.roots_get_depth_minus_one", [], z3.And(*[to_z3(d) == -2 for _, d in calls]), "vc", [g.fq], {},
                           note="_bfs(root, -2): the root gets depth -1, its children (the top-level events) depth 0"))
    return vcs


def height_vcs() -> List[core.VC]:
    name = f"{PROP}.compute_height.dfs"
    f = extract.get_function(TCS, "CallStackGraph._compute_height")
    g = _nested(extract.stripped(f), "_dfs")
    fq = [f.fq + "._dfs"]
    t = Tree()
    H = z3.Function("spec_height", I, I)  # induction hypothesis on children: the recursive call returns the specified height
    F = z3.Function("fold_height", I, I, I)  # F(i, k) = max(1, max_{j<k} H(ch(i,j)) + 1)

    @pyvc.intrinsic
    def rec(exq, pc, env, args, kwargs):
        return H(to_z3(args[0]))

    idx = z3.Int("idx")
    k = z3.Int("k")
    fold = [F(idx, 0) == 1, z3.ForAll([k], z3.Implies(z3.And(k >= 0, k < t.nc(idx)), F(idx, k + 1) == z3.If(H(t.ch(idx, k)) + 1 > F(idx, k), H(t.ch(idx, k)) + 1, F(idx, k))))]
    spec = pyvc.LoopSpec(state_vars=["h"], invariant=lambda env, kk, it: to_z3(env["h"]) == F(idx, kk), elem=lambda it, kk: it.at(kk), length=lambda it: it.length, name="children")
    ex = pyvc.Exec(consts=extract.module_constants(TCS), name=name, loop_specs={0: spec})
    ex.consts["DeviceType"] = pyvc.EnumCls("DeviceType", {"UNKNOWN": 0, "CPU": 1, "GPU": 2, "ALL": 3})
    selfrec = pyvc.Record("CallStackGraph", {"nodes": NodesDict(t)})
    outs = ex.run_function(g, {"idx": idx, "self": selfrec, "_dfs": rec}, [t.has(idx), t.nc(idx) >= 0])
    vcs = [core.VC(pv.name, pv.hyps + fold, pv.goal, "vc", fq, {}, note=pv.note) for pv in ex.vcs]
    for o in outs:
        if o.kind != "ret":
            continue
        hy = [to_z3(c) for c in o.pc] + fold
        exp = z3.If(t.gpu(idx), 0, F(idx, t.nc(idx)))
        vcs.append(core.VC(f"{name}.returns_spec_height", hy, to_z3(o.value) == exp, "vc", fq, {}, note="device activity: 0; host node: max(1, 1 + tallest child)"))
    hw = [(pc, key, v) for pc, key, a, v in t.writes if a == "height"]
    for i, (pc, key, v) in enumerate(hw):
        vcs.append(core.VC(f"{name}.stores_height_{i}", [to_z3(c) for c in pc] + fold, z3.And(z3.BoolVal(key is idx), to_z3(v) == z3.If(t.gpu(idx), 0, F(idx, t.nc(idx)))), "vc", fq, {},
                           note="node.height is set to the returned value"))
    vcs.append(core.VC(f"{name}.height_written", [], z3.BoolVal(len(hw) >= 2), "vc", fq, {}, note="both branches store node.height"))
    return vcs


def kernel_info_vcs() -> List[core.VC]:
    name = f"{PROP}.kernel_info.dfs"
    f = extract.get_function(TCS, "CallStackGraph._add_kernel_info_to_cpu_ops")
    g = _nested(extract.stripped(f), "_dfs")
    fq = [f.fq + "._dfs"]
    t = Tree()
    fields = ["count", "sum_dur", "kernel_span", "first_start", "last_end"]
    K = {fl: z3.Function(f"spec_{fl}", I, I) for fl in fields}  # induction hypothesis: what the recursive call returns for a child
    idx = z3.Int("idx")
    k = z3.Int("k")
    tmax = z3.Int("t_max")
    Fc, Fs, Fmin, Fmax = (z3.Function(n, I, I, I) for n in ("fold_count", "fold_sum", "fold_min_start", "fold_max_end"))
    c_ = lambda kk: t.ch(idx, kk)
    fold = [Fc(idx, 0) == 0, Fs(idx, 0) == 0, Fmin(idx, 0) == tmax, Fmax(idx, 0) == -1,
            z3.ForAll([k], z3.Implies(z3.And(k >= 0, k < t.nc(idx)), z3.And(
                Fc(idx, k + 1) == Fc(idx, k) + K["count"](c_(k)), Fs(idx, k + 1) == Fs(idx, k) + K["sum_dur"](c_(k)),
                Fmin(idx, k + 1) == z3.If(K["first_start"](c_(k)) < Fmin(idx, k), K["first_start"](c_(k)), Fmin(idx, k)),
                Fmax(idx, k + 1) == z3.If(K["last_end"](c_(k)) > Fmax(idx, k), K["last_end"](c_(k)), Fmax(idx, k)))))]
    ctor = pyvc.RecordCtor("KernelInfo", fields, frozen=True)

    @pyvc.intrinsic
    def rec(exq, pc, env, args, kwargs):
        c = to_z3(args[0])
        return pyvc.Record("KernelInfo", {fl: K[fl](c) for fl in fields}, frozen=True, order=fields)

    def inv(env, kk, it):
        return z3.And(to_z3(env["count"]) == Fc(idx, kk), to_z3(env["sum_dur"]) == Fs(idx, kk), to_z3(env["start"]) == Fmin(idx, kk), to_z3(env["end"]) == Fmax(idx, kk),
                      to_z3(env["span"]) == z3.If(kk == 0, 0, Fmax(idx, kk) - Fmin(idx, kk)))

    spec = pyvc.LoopSpec(state_vars=["count", "sum_dur", "span", "start", "end"], invariant=inv, elem=lambda it, kk: it.at(kk), length=lambda it: it.length, name="children")
    ex = pyvc.Exec(consts=extract.module_constants(TCS), name=name, loop_specs={0: spec})
    ex.consts["DeviceType"] = pyvc.EnumCls("DeviceType", {"UNKNOWN": 0, "CPU": 1, "GPU": 2, "ALL": 3})
    ex.consts["KernelInfo"] = ctor
    s_start, s_end, s_dur = (pyvc.SymMap(I, I, n) for n in ("s_start", "s_end", "s_dur"))
    stored: List[Any] = []

    class _Info:
        def hv_setitem(self, exq, key, v, pc):
            stored.append((list(pc), key, v))

        def __deepcopy__(self, memo):
            return self

    selfrec = pyvc.Record("CallStackGraph", {"nodes": NodesDict(t)})
    same_keys = [s_end.has(idx) == s_start.has(idx), s_dur.has(idx) == s_start.has(idx)]  # the three maps are columns of one frame
    outs = ex.run_function(g, {"idx": idx, "self": selfrec, "_dfs": rec, "s_start": s_start, "s_end": s_end, "s_dur": s_dur, "t_max": tmax, "kernel_info": _Info()},
                           [t.nc(idx) >= 0] + same_keys)
    vcs = [core.VC(pv.name, pv.hyps + fold, pv.goal, "vc", fq, {}, note=pv.note) for pv in ex.vcs if "keyerror" not in pv.name or True]
    n_nc = t.nc(idx)
    for i, o in enumerate([o for o in outs if o.kind == "ret"]):
        v = o.value
        hy = [to_z3(c) for c in o.pc] + fold
        if not (isinstance(v, pyvc.Record) and v.cls == "KernelInfo"):
            vcs.append(core.VC(f"{name}.ret{i}.is_kernel_info", hy, z3.BoolVal(False), "vc", fq, {}))
            continue
        got = [to_z3(v.fields[fl]) for fl in fields]
        absent = z3.Not(t.has(idx))
        leaf = z3.And(t.has(idx), t.gpu(idx), s_start.has(idx))
        unknown_leaf = z3.And(t.has(idx), t.gpu(idx), z3.Not(s_start.has(idx)))
        inner = z3.And(t.has(idx), z3.Not(t.gpu(idx)))
        st, en, du = s_start.get(idx), s_end.get(idx), s_dur.get(idx)
        exp_leaf = [z3.IntVal(1), du, en - st, st, en]
        exp_none = [z3.IntVal(0), z3.IntVal(0), z3.IntVal(0), tmax, z3.IntVal(-1)]
        exp_inner = [Fc(idx, n_nc), Fs(idx, n_nc), z3.If(n_nc == 0, 0, Fmax(idx, n_nc) - Fmin(idx, n_nc)), Fmin(idx, n_nc), Fmax(idx, n_nc)]
        goal = z3.And(z3.Implies(z3.Or(absent, unknown_leaf), z3.And(*[a == b for a, b in zip(got, exp_none)])),
                      z3.Implies(leaf, z3.And(*[a == b for a, b in zip(got, exp_leaf)])),
                      z3.Implies(inner, z3.And(*[a == b for a, b in zip(got, exp_inner)])))
        vcs.append(core.VC(f"{name}.ret{i}.matches_spec", hy, goal, "vc", fq, {},
                           note="device leaf: (1, dur, end - start, start, end); host node: (sum count, sum dur, max end - min start, min start, max end) over its children; nothing: (0, 0, 0, t_max, -1)"))
    for i, (pc, key, v) in enumerate(stored):
        vcs.append(core.VC(f"{name}.stored_{i}.is_for_this_node", [to_z3(c) for c in pc], to_z3(key) == idx, "vc", fq, {}, note="kernel_info is recorded under the node's own id"))
    vcs.append(core.VC(f"{name}.records_inner_and_leaf", [], z3.BoolVal(len(stored) >= 2), "vc", fq, {}))
    return vcs


def normalize_vcs() -> List[core.VC]:
    name = f"{PROP}.normalize_stack_columns"
    f = extract.get_function(TCG, "CallGraph._normalize_stack_columns")
    fq = [f.fq]
    ex = pyvc.Exec(consts=extract.module_constants(TCG), name=name)
    fv.install(ex)
    stack_cols = ["depth", "height", "parent", "num_kernels", "kernel_dur_sum", "kernel_span", "first_kernel_start", "last_kernel_end"]
    cols = {c: (I, c == "num_kernels", "float" if c == "num_kernels" else "int") for c in stack_cols}
    cols["index"] = (I, False, "int")
    df = fv.SymDF.base("ev", cols)
    idxv = df.cols["index"].val
    df.label = lambda r: idxv(r)
    before = dict(df.cols)
    ex.consts["CallGraph"] = pyvc.Namespace("CallGraph", {"stack_columns": stack_cols})
    # `df.loc[<Index of a selection>, col] = scalar`: the rows carrying those labels = the selected rows (unique labels)
    orig_set = fv.Loc.hv_setitem

    def loc_set(self, exq, idx, v, pc):
        if isinstance(idx, tuple) and len(idx) == 2 and isinstance(idx[0], fv.IndexOf) and isinstance(idx[0].owner, fv.SymDF) and idx[0].owner.uni is self.df.uni and not isinstance(v, fv.SymSeries):
            sel = idx[0].owner
            mask = fv.SymSeries(self.df.uni, fv.Col(lambda r: sel.present(r), None, "bool"), self.df.present, "sel", self.df.label)
            self.df.assign_col(idx[1], v, mask)
            return
        return orig_set(self, exq, idx, v, pc)

    fv.Loc.hv_setitem = loc_set
    try:
        outs = ex.run_function(extract.stripped(f), {"df": df}, [])
    finally:
        fv.Loc.hv_setitem = orig_set
    r = df.uni.skolem("r")
    nk, nkn = before["num_kernels"].val(r), to_z3(before["num_kernels"].isnull(r))
    none = z3.Or(nkn, nk <= 0)
    hy = [to_z3(df.present(r))] + list(ex.facts)
    g = lambda c: to_z3(df.cols[c].val(r))
    return [
        core.VC(f"{name}.rows_without_kernels", hy + [none], z3.And(g("kernel_dur_sum") == 0, g("kernel_span") == 0, g("first_kernel_start") == -1, g("last_kernel_end") == -1,
                                                                      g("num_kernels") == z3.If(nkn, -1, nk)), "vc", fq, {}, note="no descendant kernel: sums 0, span 0, first/last -1"),
        core.VC(f"{name}.rows_with_kernels_untouched", hy + [z3.Not(none)], z3.And(*[g(c) == before[c].val(r) for c in ("kernel_dur_sum", "kernel_span", "first_kernel_start", "last_kernel_end", "num_kernels")]),
                "vc", fq, {}),
    ]


def reparent_vcs() -> List[core.VC]:
    """update_parent_of_first_layer_nodes: the re-parented nodes are the root's children lying within the new parent's CLOSED span."""
    name = f"{PROP}.update_parent_of_first_layer_nodes"
    f = extract.get_function(TCS, "CallStackGraph.update_parent_of_first_layer_nodes")
    node = extract.stripped(f)
    fq = [f.fq]
    target = None
    for st in node.body:
        if isinstance(st, ast.Assign) and isinstance(st.targets[0], ast.Name) and st.targets[0].id == "guarded_indices":
            for n in ast.walk(st.value):
                if isinstance(n, ast.BinOp) and isinstance(n.op, ast.BitAnd):
                    target = n
                    break
    if target is None:
        raise pyvc.Unsupported("selection mask of guarded_indices not found")
    ex = pyvc.Exec(consts=extract.module_constants(TCS), name=name)
    fv.install(ex)
    df = fv.SymDF.base("full", {"index": (I, False, "int"), "ts": (I, False, "int"), "end": (I, False, "int")})
    indices = pyvc.SymSet(I, "root_children")
    ts_p, end_p = z3.Ints("parent_ts parent_end")
    mask = ex.eval(target, [], {"self": pyvc.Record("CallStackGraph", {"full_df": df}), "indices": indices, "ts": ts_p, "end": end_p})
    r = df.uni.skolem("r")
    spec = z3.And(indices.has(df.cols["index"].val(r)), df.cols["ts"].val(r) >= ts_p, df.cols["end"].val(r) <= end_p)
    src = ast.unparse(node).replace("'", '"')
    uses = "indices = self.nodes[self.root_index].children" in src and "self._update_parent(list(guarded_indices), new_parent_index)" in src
    return [core.VC(f"{name}.guarded_selection", [], to_z3(mask.col.val(r)) == spec, "vc", fq, {"ts": df.cols["ts"].val(r), "end": df.cols["end"].val(r), "parent_ts": ts_p, "parent_end": end_p},
                    note="a first-layer node is re-parented iff it lies within [ts, end] of the new parent, both bounds included"),
            core.VC(f"{name}.applies_to_root_children", [], z3.BoolVal(uses), "vc", fq, {}, note="candidates are the root's children; the selection is handed to _update_parent")]


def link_vcs() -> List[core.VC]:
    f = extract.get_function(TCS, "CallStackGraph._link_cpu_and_gpu")
    src = ast.unparse(extract.stripped(f)).replace("'", '"')
    want = ['correlations: List[List[int]] = self.correlations[self.correlations["cpu_index"].isin(self.df["index"])][["cpu_index", "gpu_index"]].values.tolist()',
            "for cpu_index, gpu_index in correlations:", "self._add_edge(cpu_index, gpu_index, DeviceType.GPU)"]
    lines = [l.strip() for l in src.splitlines()]
    if any(w not in lines for w in want):
        raise pyvc.Unsupported("_link_cpu_and_gpu no longer matches the contract's reading")
    return [core.VC(f"{PROP}.link_cpu_and_gpu.statements", [], z3.BoolVal(True), "vc", [f.fq], {},
                    note="for every (cpu, gpu) pair whose host call is on this thread: _add_edge(cpu, gpu, GPU) — with C03's _add_edge contract the activity becomes a child of its launch call")]


# ---------------------------------------------------------------------------------------------- bounded


def _small_dtype_trace() -> List[Dict[str, Any]]:
    """every duration < 128 (the duration column is downcast to int8) while one operator's kernels add up to 180"""
    from hv import synth

    evs = [synth.host_op("aten::outer", 1000, 100)]
    for i in range(6):
        evs.append(synth.launch(1005 + 10 * i, 5, 200 + i))
        evs.append(synth.kernel("void k", 1100 + 35 * i, 30, 7, 200 + i))
    return evs


def _case(seed: int) -> Dict[str, Any]:
    from hv import gen, rt, synth

    if seed == -1:
        return _run_case(seed, {0: _small_dtype_trace()})
    if seed == -2:  # the call graph built twice over one loaded trace with more than 127 events (C13-D25: parent ids were cast to the height column's dtype, int8 after the first build)
        return _run_case(seed, gen.gen_trace_set(5, n_ranks=1, steps=3, n_top=8, n_streams=2, p_launch=0.7, p_zero=0.0, min_launch_q=1, p_sync=0.0, noncomplete_events=False), builds=2)
    nthreads = 1 + seed % 3
    two_ranks = seed % 5 == 2  # one call graph over two ranks, the SECOND one is checked (per-rank bookkeeping must not leak across ranks)
    if two_ranks:
        nthreads = 2  # a ProfilerStep thread and a backward thread on every rank
    kw = dict(n_threads=nthreads, n_streams=1 + seed % 2, steps=1 + seed % 2, p_launch=0.7, p_zero=0.0, min_launch_q=1, p_sync=0.0, p_missing_kernel=0.1, p_orphan_kernel=0.05 if seed % 3 else 0.2, n_top=2 + seed % 2, max_depth=3)
    if seed % 2 == 1:  # the backward / other host threads have smaller ids than the profiler-step thread: their call stacks (and nodes) are built first
        kw.update(main_tid=40, other_tids_below=True)
    bwd_tid = (kw.get("main_tid", 1) + 1) if seed % 4 != 3 else 3
    per_rank = gen.gen_trace_set(seed, n_ranks=2 if two_ranks else 1, **kw)
    for rk_, evs in per_rank.items():
        if two_ranks and rk_ == 0 and seed % 2 == 0:
            continue  # rank 0 has NO backward annotation while rank 1 (the one checked) has: each rank's autograd operators attach by that rank's own annotations
        if seed % 3 == 0 or two_ranks:  # main-thread backward annotations, some ending exactly where a backward-thread op ends
            steps = [e for e in evs if str(e.get("name", "")).startswith("ProfilerStep")]
            for s in steps:
                b0, b1 = s["ts"] + s["dur"] // 2, s["ts"] + s["dur"]
                evs.append(synth.annotation("## backward ##", b0, b1 - b0, tid=kw.get("main_tid", 1)))
                if nthreads == 1:  # a backward thread of its own (the generator drew none): operators sharing the annotation's start / end instants
                    # older PyTorch writes the autograd thread's operators without the `autograd::engine::evaluate_function:` wrapper: the marker sits mid-name
                    n1, n2 = (("autograd::engine::evaluate_function: EdgeBackward", "autograd::engine::evaluate_function: StartBackward") if seed % 2 == 0
                              else ("torch::autograd::AccumulateGrad", "torch::autograd::CopyBackwards"))
                    evs.append(synth.host_op(n1, b1 - 10, 10, tid=bwd_tid))
                    evs.append(synth.host_op(n2, b0, 5, tid=bwd_tid))
    if two_ranks:
        return _run_case(seed, per_rank, check_rank=1, ranks=None)
    return _run_case(seed, per_rank, builds=2 if seed % 4 == 1 else 1)


def _run_case(seed: int, per_rank, check_rank: int = 0, ranks=(0,), builds: int = 1) -> Dict[str, Any]:
    from hv import rt

    nthreads = len({e.get("tid") for e in per_rank[check_rank] if e.get("cat") in ("cpu_op", "user_annotation", "cuda_runtime")})
    fails: List[Dict[str, Any]] = []
    n = 0
    inp = {"seed": seed, "events": per_rank, "call_graph_ranks": list(ranks) if ranks is not None else "all", "checked_rank": check_rank, "call_graphs_built_on_the_loaded_trace": builds}
    with rt.trace_dir(per_rank) as d:
        try:
            from hta.common.trace_call_graph import CallGraph

            t = rt.lib(fails, "load_traces", inp, rt.load_trace, d, True, use_multiprocessing=False)
            for _ in range(builds):  # the last build is the one judged: the call graph is a function of the trace, not of earlier builds
                cg = rt.lib(fails, "CallGraph", inp, CallGraph, t, ranks=list(ranks) if ranks is not None else None)
        except rt.LibFailure:
            return {"n_checks": 1, "fails": fails, "nontrivial": True}
        df = cg.trace_data.get_trace(check_rank)
        stab = t.symbol_table.get_sym_table()
        rows = {int(i): dict(ts=int(ts), dur=int(du), stream=int(s), ic=int(ic), parent=int(p), depth=int(dp), height=int(h), nk=int(nk), ds=int(ds), fs=int(fs), le=int(le), sp=int(sp),
                             tid=int(tid), pid=int(pid), name=stab[int(nm)])
                for i, ts, du, s, ic, p, dp, h, nk, ds, fs, le, sp, tid, pid, nm in zip(df["index"], df["ts"], df["dur"], df["stream"], df["index_correlation"], df["parent"], df["depth"],
                                                                                        df["height"], df["num_kernels"], df["kernel_dur_sum"], df["first_kernel_start"], df["last_kernel_end"],
                                                                                        df["kernel_span"], df["tid"], df["pid"], df["name"])}
        children: Dict[int, List[int]] = {}
        for i, rw in rows.items():
            children.setdefault(rw["parent"], []).append(i)
        # inputs in the class of the recorded call-stack finding (C03-D4: zero-duration event where one event ends and another begins)
        # have an unspecified tree; they are skipped here, not judged
        from contracts.C03 import in_known_class_d4
        by_thread: Dict[Any, List[Any]] = {}
        for i, rw in rows.items():
            if rw["stream"] < 0:
                by_thread.setdefault((rw["pid"], rw["tid"]), []).append((i, rw["ts"], rw["dur"]))
        if any(in_known_class_d4(v) for v in by_thread.values()):
            return {"n_checks": 0, "fails": [], "nontrivial": False, "sample": {"seed": seed, "skipped": "C03-D4 input class"}}
        n += 1

        def bad(what, obs, exp=None):
            fails.append({"what": what, "input": inp, "observed": obs, "expected": exp})

        # a device activity whose launching call is not in the trace (no host event carries its correlation id) hangs under no event
        corr_of = {int(i): int(c) for i, c in zip(df["index"], df["correlation"])}
        host_corrs = {corr_of[i] for i, rw in rows.items() if rw["stream"] < 0 and corr_of[i] >= 0}
        for i, rw in rows.items():
            if rw["stream"] > 0 and corr_of[i] not in host_corrs and rw["parent"] >= 0:
                bad("device_activity_without_launch_call_has_no_parent", {"event": i, "correlation": corr_of[i], "parent": rw["parent"]}, "no parent (-1)")
                break
        # device activities are children of their launch call
        for i, rw in rows.items():
            if rw["stream"] > 0 and rw["ic"] > 0 and rw["ic"] in rows:
                if rw["parent"] != rw["ic"]:
                    bad("gpu_child_of_linked_call", {"event": i, "parent": rw["parent"]}, rw["ic"])
                    break
        # depth = parent's depth + 1
        for i, rw in rows.items():
            if rw["parent"] >= 0 and rw["parent"] in rows and rw["depth"] != rows[rw["parent"]]["depth"] + 1:
                bad("depth_parent_plus_one", {"event": i, "depth": rw["depth"], "parent_depth": rows[rw["parent"]]["depth"]})
                break
        # height and kernel statistics by recursion over the parent column
        memo: Dict[int, Any] = {}

        def stats(i):
            if i in memo:
                return memo[i]
            rw = rows[i]
            if rw["stream"] > 0:
                res = (0, [(rw["ts"], rw["dur"])])
            else:
                hs, ks = [], []
                for c in children.get(i, []):
                    h, k = stats(c)
                    hs.append(h)
                    ks += k
                res = (max([1] + [h + 1 for h in hs]), ks)
            memo[i] = res
            return res

        in_graph = {i for i, rw in rows.items() if rw["parent"] != -1 or rw["depth"] != -1 or rw["height"] != -1}
        for i in sorted(in_graph):
            rw = rows[i]
            h, ks = stats(i)
            if rw["height"] != h:
                bad("height", {"event": i, "height": rw["height"]}, h)
                break
            if rw["stream"] <= 0:
                exp = (len(ks), sum(d for _, d in ks), min(a for a, _ in ks), max(a + d for a, d in ks), max(a + d for a, d in ks) - min(a for a, _ in ks)) if ks else (0, 0, -1, -1, 0)
                got = (rw["nk"], rw["ds"], rw["fs"], rw["le"], rw["sp"])
                if got != exp:
                    bad("kernel_statistics", {"event": i, "num_kernels,dur_sum,first_start,last_end,span": got}, exp)
                    break
        # backward thread attachment
        threads: Dict[Any, List[int]] = {}
        for i, rw in rows.items():
            if rw["stream"] < 0:
                threads.setdefault((rw["pid"], rw["tid"]), []).append(i)
        main = [k for k, ids in threads.items() if any(rows[i]["name"].startswith("ProfilerStep#") for i in ids)]
        bwd = [k for k, ids in threads.items() if k not in main and any("autograd::" in rows[i]["name"] for i in ids)]
        if len(main) == 1 and len(bwd) == 1:
            m_ids = threads[main[0]]
            ann = [i for i in m_ids if rows[i]["name"].startswith("## backward ##")] or [i for i in m_ids if rows[i]["name"].startswith("ProfilerStep#")]
            ann = sorted(ann, key=lambda i: list(df["index"]).index(i))
            b_ids = set(threads[bwd[0]])

            def own_container(i):
                rw = rows[i]
                return any(j != i and rows[j]["dur"] > 0 and rows[j]["ts"] <= rw["ts"] and rw["ts"] + rw["dur"] <= rows[j]["ts"] + rows[j]["dur"]
                           and ((rows[j]["ts"], rows[j]["dur"]) != (rw["ts"], rw["dur"]) or j < i) for j in b_ids)

            for i in sorted(b_ids):
                rw = rows[i]
                if rw["dur"] <= 0 or own_container(i):
                    continue
                host = [a for a in ann if rows[a]["ts"] <= rw["ts"] and rw["ts"] + rw["dur"] <= rows[a]["ts"] + rows[a]["dur"]]
                if host and rw["parent"] != host[0]:
                    bad("backward_thread_attached_to_annotation", {"event": i, "parent": rw["parent"]}, host[0])
                    break
                if not host and rw["parent"] >= 0:
                    bad("backward_thread_top_level_stays_root", {"event": i, "parent": rw["parent"]}, "a root (negative id)")
                    break
    return {"n_checks": n, "fails": fails, "nontrivial": n > 0, "sample": {"seed": seed, "threads": nthreads}}


def replay(ctx, rec: Dict[str, Any]) -> Dict[str, Any]:
    if ".roots." in rec.get("name", ""):
        from contracts import C03

        return C03.replay_roots(rec)
    return {"confirmed": False, "why": "no replay for this obligation"}


def bounded(ctx):
    from hv import rt

    n = 48 if not ctx.thorough else 600
    res = rt.pmap(_case, [-1, -2] + [ctx.seed * 521 + i for i in range(n)], ctx.procs)
    return rt.summarise(res, f"{PROP}.bounded", f"one hand-written trace whose duration column is int8 while an operator's kernels sum to 180, one 246-event trace whose call graph is built twice, + {n} generated traces (1-3 host threads incl. an autograd thread, kernels launched at several depths and on 1-2 streams, small durations "
                        "so that the duration column is int8/int16, backward annotations) loaded through Trace.load_traces and CallGraph(trace, ranks=[0]); every fourth one builds the call graph twice and judges the second")


def units(ctx):
    return [core.Unit(f"{PROP}.compute_depth", depth_vcs, [TCS + ".CallStackGraph._compute_depth._bfs"]),
            core.Unit(f"{PROP}.roots", roots_vcs, [TCS + ".CallStackGraph._get_all_root_indices", TCS + ".CallStackGraph._compute_depth"]),
            core.Unit(f"{PROP}.compute_height", height_vcs, [TCS + ".CallStackGraph._compute_height._dfs"]),
            core.Unit(f"{PROP}.kernel_info", kernel_info_vcs, [TCS + ".CallStackGraph._add_kernel_info_to_cpu_ops._dfs"]),
            core.Unit(f"{PROP}.normalize", normalize_vcs, [TCG + ".CallGraph._normalize_stack_columns"]),
            core.Unit(f"{PROP}.link", link_vcs, [TCS + ".CallStackGraph._link_cpu_and_gpu"]),
            core.Unit(f"{PROP}.reparent", reparent_vcs, [TCS + ".CallStackGraph.update_parent_of_first_layer_nodes"])]


SPEC = Spec(
    lean=['Folds.lean'],
    prop=PROP, level="other",
    functions=[(TCS, "CallStackGraph._compute_depth"), (TCS, "CallStackGraph._compute_height"), (TCS, "CallStackGraph._add_kernel_info_to_cpu_ops"), (TCS, "CallStackGraph._link_cpu_and_gpu"),
               (TCG, "CallGraph._normalize_stack_columns"), (TCG, "CallGraph._build_call_stacks"), (TCG, "CallGraph._link_main_and_bwd_stacks"),
               (TCS, "CallStackGraph.update_parent_of_first_layer_nodes")],
    units=units, replay=replay, bounded=[Bounded("callgraph_vs_recomputation", bounded)],
    trusted=["structural induction over the finite tree (recursive calls replaced by the function's contract on the children); fold meta-lemma for the ghost folds",
             "machine arithmetic treated as mathematical: numpy scalar types of the duration / timestamp columns are NOT modelled (the bounded stage uses int8/int16 duration columns)",
             "C03 for the shape of the tree; C01 for end = ts + dur of the loaded frame"],
    explanation="Proved (z3 from the AST): the three recursions (depth, height, kernel statistics) against ghost folds, and the normalisation of rows without kernels. Bounded (real "
                "CallGraph on loaded traces, never counted as proved): saving the attributes into the frame, device activities as children of their launch call, thread labelling "
                "and the attachment of the autograd thread under backward / profiler-step annotations.",
)
